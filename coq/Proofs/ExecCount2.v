(* E1 — counting invariants of the executor model, part 2: the actions that move an item
   (Deq, Return, Callback, SrcEmit and the three senders MainSend / SendW / SendC). *)
From Coq Require Import List ZArith Bool Arith Lia.
From FB Require Import Model.Exec Model.TraceSpec Model.ExecInv Proofs.ExecBase Proofs.ExecCount1.
Import ListNotations.
Local Open Scope nat_scope.

(* ------------------------------------------------------------------ more frame lemmas *)
Lemma rest_frame : forall nt s s', length (nodes s') = length (nodes s) ->
  (forall n, neq1 (node s n) (node s' n)) -> tr s' = tr s -> inv_rest nt s -> inv_rest nt s'.
Proof.
  intros nt s s' HL HN HT H. apply inv_rest_ninv in H. destruct H as [H0 H]. apply inv_rest_ninv.
  split; [congruence|]. intro c. apply (ninv_frame nt s s' c []); auto.
Qed.

(* other nodes when node n is rewritten and one event of node n is logged *)
Lemma ninv_other : forall nt s n y e c, c <> n -> touches c e = false ->
  ninv nt s c -> ninv nt (log (set_node s n y) [e]) c.
Proof.
  intros nt s n y e c Hc Ht H. apply (ninv_frame nt s _ c [e]); auto.
  - autorewrite with exb; auto.
  - rewrite node_log, node_set_node_other by auto. apply neq1_refl.
  - simpl. rewrite Ht; auto.
Qed.

Lemma pending_eq : forall c x s s', length (nodes s') = length (nodes s) ->
  (forall n, wsum c x (node s' n) = wsum c x (node s n)) -> cbs s' = cbs s -> mn s' = mn s ->
  pending c x s' = pending c x s.
Proof.
  intros c x s s' HL HW HC HM. unfold pending.
  rewrite (pend_workers_eq c x s s' HL HW), (pend_cbs_eq _ _ _ _ HC), (pend_main_eq _ _ _ _ HM); auto.
Qed.

Lemma offered_set_worker : forall y w st, offered (set_worker y w st) = offered y.
Proof. reflexivity. Qed.
Lemma dropped_set_worker : forall y w st, dropped (set_worker y w st) = dropped y.
Proof. reflexivity. Qed.
Lemma q_set_worker : forall y w st, q (set_worker y w st) = q y.
Proof. reflexivity. Qed.
Lemma inflight_set_worker : forall y w st, inflight (set_worker y w st) = inflight y.
Proof. reflexivity. Qed.
Lemma c_recv_set_worker : forall y w st, c_recv (set_worker y w st) = c_recv y.
Proof. reflexivity. Qed.
Lemma c_proc_set_worker : forall y w st, c_proc (set_worker y w st) = c_proc y.
Proof. reflexivity. Qed.
Lemma c_filt_set_worker : forall y w st, c_filt (set_worker y w st) = c_filt y.
Proof. reflexivity. Qed.
Lemma c_fail_set_worker : forall y w st, c_fail (set_worker y w st) = c_fail y.
Proof. reflexivity. Qed.
Lemma c_disc_set_worker : forall y w st, c_disc (set_worker y w st) = c_disc y.
Proof. reflexivity. Qed.
Global Hint Rewrite offered_set_worker dropped_set_worker q_set_worker inflight_set_worker c_recv_set_worker
  c_proc_set_worker c_filt_set_worker c_fail_set_worker c_disc_set_worker : exb.

Lemma wsum_set_worker : forall c x y w old st, nth_error (ws y) w = Some old ->
  wsum c x (set_worker y w st) + wpend c x old = wsum c x y + wpend c x st.
Proof. intros; unfold wsum at 1; rewrite ws_set_worker; apply wsum_upd; auto. Qed.

Section MovingSteps.
Variables (nt : net) (T : nat).

(* ------------------------------------------------------------------ Deq *)
Lemma step_Deq_count : forall s n w s', step nt T s (Deq n w) = Ok s' -> inv_count nt s -> inv_count nt s'.
Proof.
  intros s n w s' H I; unfold step in H.
  destruct (nth_error (ws (node s n)) w) as [[]|] eqn:HW; try discriminate.
  destruct (q (node s n)) as [|it rest] eqn:HQ; inversion H; subst; clear H.
  pose proof (worker_in_range _ _ _ _ HW) as HR.
  apply inv_count_split in I; destruct I as [IC IR]. apply inv_count_split; split.
  - intros c x. rewrite tr_log1, tr_set_node, produced_cons. cbn [produced_by]. rewrite node_log.
    match goal with |- context [set_node s n ?y] => set (Y := y) end.
    assert (P : pending c x (log (set_node s n Y) [TEnter n it]) = pending c x s).
    { apply pending_eq; try reflexivity.
      - autorewrite with exb; auto.
      - intro m. rewrite node_log. destruct (Nat.eq_dec m n) as [->|Hm].
        + rewrite node_set_node_same by auto. unfold wsum at 1, Y; cbn [ws].
          pose proof (wsum_upd c x (node s n) w WIdle (WProc it) HW). simpl in H; lia.
        + rewrite node_set_node_other by auto; auto. }
    rewrite P. specialize (IC c x).
    destruct (Nat.eq_dec c n) as [->|Hc].
    + rewrite node_set_node_same by auto. unfold Y; cbn [offered dropped]. lia.
    + rewrite node_set_node_other by auto. lia.
  - apply inv_rest_ninv in IR; destruct IR as [HL IN]. apply inv_rest_ninv; split.
    + autorewrite with exb; auto.
    + intro c. destruct (Nat.eq_dec c n) as [->|Hc].
      * specialize (IN n). unfold ninv in *; cbv zeta in *. destruct IN as (I1&I2&I3&I4&I5&I6&I7).
        rewrite tr_log1, tr_set_node, node_log, nodes_log, length_nodes_set_node, node_set_node_same by auto. cbn [q offered dropped inflight ws c_recv c_proc c_filt c_fail c_disc].
        rewrite entered_cons, rets_cons, laters_cons, cbacks_cons, n_proc_cons, n_filt_cons, n_fail_cons.
        cbn [entered1 rets1 laters1 cbacks1 outcomes1]. rewrite Nat.eqb_refl. simpl app. simpl filter. simpl length.
        rewrite HQ in *.
        split; [intro x; specialize (I1 x); simpl in *; lia|].
        split; [simpl in I2; lia|]. split; [auto|].
        split; [intro L; specialize (I4 L); simpl; lia|].
        split; [|split; [auto|rewrite upd_length; auto]].
        intro x. specialize (I5 x). pose proof (wprocsum_upd x (node s n) w WIdle (WProc it) HW).
        simpl in *. rewrite (item_eqb_sym it x) in H. lia.
      * apply ninv_other; auto. simpl. apply Nat.eqb_neq; auto.
Qed.


(* ------------------------------------------------------------------ try_send *)
Lemma try_send_rest : forall s c it s1, inv_rest nt s -> try_send nt s c it = Sent s1 -> inv_rest nt s1.
Proof.
  intros s c it s1 IR H. pose proof (try_send_in_range _ _ _ _ _ H) as HR.
  apply inv_rest_ninv in IR; destruct IR as [HL IN].
  pose proof (try_send_frame _ _ _ _ _ H) as (F1&F2&F3&F4&F5&_&_&_&F9&F10).
  apply inv_rest_ninv; split; [congruence|].
  intro m. destruct (Nat.eq_dec m c) as [->|Hm].
  - apply try_send_sent in H. destruct H as [HC [[HLt ->]|[HGe [HD ->]]]].
    + specialize (IN c). unfold ninv in *; cbv zeta in *. destruct IN as (I1&I2&I3&I4&I5&I6&I7).
      rewrite tr_set_node, length_nodes_set_node, node_set_node_same by lia.
      unfold enq; cbn [q offered dropped inflight ws c_recv c_proc c_filt c_fail c_disc].
      split; [intro x; specialize (I1 x); rewrite count_item_app; simpl; lia|].
      split; [rewrite app_length; simpl; lia|]. auto.
    + specialize (IN c). unfold ninv in *; cbv zeta in *. destruct IN as (I1&I2&I3&I4&I5&I6&I7).
      rewrite tr_set_node, length_nodes_set_node, node_set_node_same by lia.
      unfold drp; cbn [q offered dropped inflight ws c_recv c_proc c_filt c_fail c_disc].
      split; [auto|]. split; [auto|]. split; [intro; congruence|].
      split; [intro L; specialize (I4 L); simpl; lia|]. auto.
  - apply (ninv_frame nt s s1 m []); auto. rewrite F9 by auto; apply neq1_refl.
Qed.

(* after the send, the conservation law is off by exactly the item just delivered to c *)
Lemma try_send_debt : forall s c it s1, inv_cons nt s -> inv_shape nt s -> try_send nt s c it = Sent s1 ->
  forall c' x, produced nt c' x (tr s1) + (if pair_is c' x (c, it) then 1 else 0)
               = count_item x (offered (node s1 c')) + count_item x (dropped (node s1 c')) + pending c' x s1.
Proof.
  intros s c it s1 IC [HL _] H c' x. pose proof (try_send_in_range _ _ _ _ _ H) as HR.
  pose proof (try_send_frame _ _ _ _ _ H) as (F1&F2&F3&F4&F5&_&_&_&F9&F10).
  assert (P : pending c' x s1 = pending c' x s).
  { apply pending_eq; auto. intro m. unfold wsum. destruct (F10 m) as [E _]. rewrite E; auto. }
  rewrite P, F5. specialize (IC c' x). unfold pair_is; cbn [fst snd].
  destruct (Nat.eq_dec c' c) as [->|Hc].
  - rewrite Nat.eqb_refl; cbn [andb]. rewrite (item_eqb_sym it x).
    apply try_send_sent in H. destruct H as [HC [[HLt ->]|[HGe [HD ->]]]];
      rewrite node_set_node_same by lia; [unfold enq|unfold drp]; cbn [offered dropped]; simpl count_item; lia.
  - rewrite (proj2 (Nat.eqb_neq c c')) by auto. cbn [andb]. rewrite F9 by auto. lia.
Qed.

(* ------------------------------------------------------------------ Return *)
Lemma count_outcome_counts : forall y o (it : item),
  c_proc (count_outcome y o) = c_proc y + length (filter f_proc [(it, o)])
  /\ c_filt (count_outcome y o) = c_filt y + length (filter f_filt [(it, o)])
  /\ c_fail (count_outcome y o) = c_fail y + length (filter f_fail [(it, o)]).
Proof. intros y [[|e es]|err|] it; simpl; lia. Qed.

Lemma return_now : forall s n w it o, o <> OLater -> nth_error (ws (node s n)) w = Some (WProc it) ->
  inv_count nt s ->
  inv_count nt (log (set_node s n (set_worker (count_outcome (node s n) o) w (after_deliveries (deliveries nt n it o))))
                    [TRet n it o]).
Proof.
  intros s n w it o HO HW I.
  pose proof (worker_in_range _ _ _ _ HW) as HR.
  set (D := deliveries nt n it o). set (Y := set_worker (count_outcome (node s n) o) w (after_deliveries D)).
  assert (HW' : nth_error (ws (count_outcome (node s n) o)) w = Some (WProc it)) by (rewrite ws_count_outcome; auto).
  apply inv_count_split in I; destruct I as [IC IR]. apply inv_count_split; split.
  - intros c x. rewrite tr_log1, tr_set_node, produced_cons. cbn [produced_by]. fold D. rewrite node_log.
    assert (P : pending c x (log (set_node s n Y) [TRet n it o]) = pending c x s + cnt_pair c x D).
    { unfold pending, pend_cbs, pend_main. rewrite cbs_log, cbs_set_node, mn_log, mn_set_node.
      change (pend_workers c x (log (set_node s n Y) [TRet n it o])) with (pend_workers c x (set_node s n Y)).
      pose proof (pend_workers_set_node c x s n Y HR).
      pose proof (wsum_set_worker c x _ w _ (after_deliveries D) HW'). fold Y in H0.
      rewrite wpend_after_deliveries in H0. unfold wsum at 2 in H0. rewrite ws_count_outcome in H0.
      fold (wsum c x (node s n)) in H0. simpl in H0. lia. }
    rewrite P. specialize (IC c x).
    destruct (Nat.eq_dec c n) as [->|Hc].
    + rewrite node_set_node_same by auto. unfold Y. autorewrite with exb. lia.
    + rewrite node_set_node_other by auto. lia.
  - apply inv_rest_ninv in IR; destruct IR as [HL IN]. apply inv_rest_ninv; split.
    + autorewrite with exb; auto.
    + intro c. destruct (Nat.eq_dec c n) as [->|Hc].
      * specialize (IN n). unfold ninv in *; cbv zeta in *. destruct IN as (I1&I2&I3&I4&I5&I6&I7).
        rewrite tr_log1, tr_set_node, node_log, nodes_log, length_nodes_set_node, node_set_node_same by auto.
        unfold Y. autorewrite with exb.
        rewrite entered_cons, rets_cons, laters_cons, cbacks_cons, n_proc_cons, n_filt_cons, n_fail_cons.
        cbn [entered1 rets1 laters1 cbacks1 outcomes1]. rewrite Nat.eqb_refl.
        replace (match o with OLater => [it] | _ => [] end) with (@nil item) by (destruct o; congruence).
        replace (match o with OLater => [] | _ => [(it, o)] end) with [(it, o)] by (destruct o; congruence).
        simpl app.
        destruct (count_outcome_counts (node s n) o it) as (C1&C2&C3).
        split; [auto|]. split; [auto|]. split; [auto|].
        split; [intro L; specialize (I4 L); lia|].
        split; [|split; [auto|rewrite upd_length; auto]].
        intro x. specialize (I5 x). pose proof (wprocsum_upd x (node s n) w _ (after_deliveries D) HW).
        rewrite wproc_after_deliveries in H. simpl in *. rewrite (item_eqb_sym it x) in H. lia.
      * apply ninv_other; auto. simpl. apply Nat.eqb_neq; auto.
Qed.

Lemma return_later : forall s n w it, nth_error (ws (node s n)) w = Some (WProc it) ->
  inv_count nt s ->
  let x := node s n in
  inv_count nt (log (set_node s n {| q := q x; closed := closed x; ws := upd w WIdle (ws x); once := once x;
                                         inflight := it :: inflight x; offered := offered x; dropped := dropped x;
                                         c_recv := c_recv x; c_proc := c_proc x; c_filt := c_filt x;
                                         c_fail := c_fail x; c_disc := c_disc x |}) [TRet n it OLater]).
Proof.
  intros s n w it HW I x.
  pose proof (worker_in_range _ _ _ _ HW) as HR.
  match goal with |- context [set_node s n ?y] => set (Y := y) end.
  apply inv_count_split in I; destruct I as [IC IR]. apply inv_count_split; split.
  - intros c y. rewrite tr_log1, tr_set_node, produced_cons. cbn [produced_by deliveries]. rewrite cnt_pair_nil, node_log.
    assert (P : pending c y (log (set_node s n Y) [TRet n it OLater]) = pending c y s).
    { apply pending_eq; try reflexivity.
      - autorewrite with exb; auto.
      - intro m. rewrite node_log. destruct (Nat.eq_dec m n) as [->|Hm].
        + rewrite node_set_node_same by auto. unfold wsum at 1, Y; cbn [ws].
          pose proof (wsum_upd c y (node s n) w _ WIdle HW). simpl in H. fold x in H |- *. lia.
        + rewrite node_set_node_other by auto; auto. }
    rewrite P. specialize (IC c y).
    destruct (Nat.eq_dec c n) as [->|Hc].
    + rewrite node_set_node_same by auto. unfold Y; cbn [offered dropped]. fold x in IC. lia.
    + rewrite node_set_node_other by auto. lia.
  - apply inv_rest_ninv in IR; destruct IR as [HL IN]. apply inv_rest_ninv; split.
    + autorewrite with exb; auto.
    + intro c. destruct (Nat.eq_dec c n) as [->|Hc].
      * specialize (IN n). unfold ninv in *; cbv zeta in *. fold x in IN. destruct IN as (I1&I2&I3&I4&I5&I6&I7).
        rewrite tr_log1, tr_set_node, node_log, nodes_log, length_nodes_set_node, node_set_node_same by auto.
        unfold Y; cbn [q offered dropped inflight ws c_recv c_proc c_filt c_fail c_disc].
        rewrite entered_cons, rets_cons, laters_cons, cbacks_cons, n_proc_cons, n_filt_cons, n_fail_cons.
        cbn [entered1 rets1 laters1 cbacks1 outcomes1]. rewrite Nat.eqb_refl. simpl app. simpl filter. simpl length.
        split; [auto|]. split; [auto|]. split; [auto|]. split; [auto|].
        split; [|split; [|rewrite upd_length; auto]].
        -- intro y. specialize (I5 y). pose proof (wprocsum_upd y x w _ WIdle HW).
           simpl in *. rewrite (item_eqb_sym it y) in H. lia.
        -- intro y. specialize (I6 y). simpl. lia.
      * apply ninv_other; auto. simpl. apply Nat.eqb_neq; auto.
Qed.

Lemma step_Return_count : forall s n w o s', step nt T s (Return n w o) = Ok s' -> inv_count nt s -> inv_count nt s'.
Proof.
  intros s n w o s' H I; unfold step in H.
  destruct (nth_error (ws (node s n)) w) as [[]|] eqn:HW; try discriminate.
  destruct (outcome_ok (nkind (info nt n)) o false); try discriminate.
  destruct o as [es|err|]; inversion H; subst; clear H.
  - apply return_now; auto; discriminate.
  - apply return_now; auto; discriminate.
  - apply return_later; auto.
Qed.


(* ------------------------------------------------------------------ Callback *)
Lemma remove_one_in_range : forall s n it rest, remove_one it (inflight (node s n)) = Some rest -> n < length (nodes s).
Proof.
  intros s n it rest H. destruct (Nat.lt_ge_cases n (length (nodes s))) as [|G]; auto.
  rewrite (node_out _ _ G) in H; discriminate.
Qed.

Lemma outcome_ok_cb_not_later : forall k o, outcome_ok k o true = true -> o <> OLater.
Proof. intros k o H E; subst; destruct k; discriminate. Qed.

Lemma ninv_ext : forall s s' c, nodes s' = nodes s -> tr s' = tr s -> ninv nt s c -> ninv nt s' c.
Proof. intros s s' c HN HT H. unfold ninv, node in *. rewrite HN, HT. exact H. Qed.

Lemma step_Callback_count : forall s n it o s', step nt T s (Callback n it o) = Ok s' -> inv_count nt s -> inv_count nt s'.
Proof.
  intros s n it o s' H I; unfold step in H.
  destruct (remove_one it (inflight (node s n))) as [rest|] eqn:HRm; try discriminate.
  destruct (outcome_ok (nkind (info nt n)) o true) eqn:HO; try discriminate.
  inversion H; subst; clear H.
  pose proof (remove_one_in_range _ _ _ _ HRm) as HR. pose proof (outcome_ok_cb_not_later _ _ HO) as HNL.
  remember (deliveries nt n it o) as D eqn:ED.
  match goal with |- context [count_outcome ?y o] => set (X0 := y) end.
  set (Y := count_outcome X0 o). set (s2 := set_node s n Y).
  match goal with |- inv_count nt (log ?z _) => set (s3 := z) end.
  assert (A : nodes s3 = nodes s2 /\ mn s3 = mn s /\ tr s3 = tr s
              /\ forall c x, pend_cbs c x s3 = pend_cbs c x s + cnt_pair c x D).
  { unfold s3. destruct D as [|d D'].
    - split; [|split; [|split]]; auto; intros; rewrite cnt_pair_nil, Nat.add_0_r; reflexivity.
    - split; [|split; [|split]]; auto. intros. unfold pend_cbs. rewrite cbs_set_cbs, sumf_app.
      cbn [sumf snd]. lia. }
  destruct A as (A1&A2&A3&A4). clearbody s3.
  apply inv_count_split in I; destruct I as [IC IR]. apply inv_count_split; split.
  - intros c x. rewrite tr_log1, A3, produced_cons. cbn [produced_by]. rewrite <- ED. rewrite node_log.
    assert (P : pending c x (log s3 [TCb n it o]) = pending c x s + cnt_pair c x D).
    { unfold pending. change (pend_cbs c x (log s3 [TCb n it o])) with (pend_cbs c x s3). rewrite A4.
      rewrite (pend_main_eq c x (log s3 [TCb n it o]) s) by (rewrite mn_log; auto).
      rewrite (pend_workers_eq c x s (log s3 [TCb n it o])); [lia| |].
      - rewrite nodes_log, A1. unfold s2. autorewrite with exb; auto.
      - intro m. unfold node at 1. rewrite nodes_log, A1. fold (node s2 m). unfold s2.
        destruct (Nat.eq_dec m n) as [->|Hm].
        + rewrite node_set_node_same by auto. unfold wsum, Y. rewrite ws_count_outcome. reflexivity.
        + rewrite node_set_node_other by auto; auto. }
    rewrite P. specialize (IC c x). unfold node at 1 2. rewrite A1. fold (node s2 c). unfold s2.
    destruct (Nat.eq_dec c n) as [->|Hc].
    + rewrite node_set_node_same by auto. unfold Y. autorewrite with exb. unfold X0; cbn [offered dropped]. lia.
    + rewrite node_set_node_other by auto. lia.
  - apply inv_rest_ninv in IR; destruct IR as [HL IN]. apply inv_rest_ninv; split.
    + rewrite nodes_log, A1. unfold s2. autorewrite with exb; auto.
    + intro c. apply (ninv_ext (log s2 [TCb n it o])); [rewrite !nodes_log; auto|rewrite !tr_log1; f_equal; auto|].
      unfold s2. destruct (Nat.eq_dec c n) as [->|Hc].
      * specialize (IN n). unfold ninv in *; cbv zeta in *. destruct IN as (I1&I2&I3&I4&I5&I6&I7).
        rewrite tr_log1, tr_set_node, node_log, nodes_log, length_nodes_set_node, node_set_node_same by auto.
        unfold Y. autorewrite with exb.
        destruct (count_outcome_counts X0 o it) as (C1&C2&C3). rewrite C1, C2, C3.
        unfold X0; cbn [q offered dropped inflight ws c_recv c_proc c_filt c_fail c_disc].
        rewrite entered_cons, rets_cons, laters_cons, cbacks_cons, n_proc_cons, n_filt_cons, n_fail_cons.
        cbn [entered1 rets1 laters1 cbacks1 outcomes1]. rewrite Nat.eqb_refl. simpl app.
        split; [auto|]. split; [auto|]. split; [auto|].
        split; [intro L; specialize (I4 L); lia|].
        split; [auto|]. split; [|auto].
        intro y. specialize (I6 y). rewrite (count_item_remove_one _ _ _ HRm y) in I6. simpl. lia.
      * apply ninv_other; auto. simpl. apply Nat.eqb_neq; auto.
Qed.

(* ------------------------------------------------------------------ SrcEmit *)
Lemma step_SrcEmit_count : forall s e s', step nt T s (SrcEmit e) = Ok s' -> inv_count nt s -> inv_count nt s'.
Proof.
  intros s e s' H I; unfold step in H.
  destruct (src s) eqn:ES; try discriminate. destruct (mn s) eqn:EM; try discriminate.
  inversion H; subst; clear H.
  match goal with |- context [set_mn s ?m] => set (M := m) end.
  apply inv_count_split in I; destruct I as [IC IR]. apply inv_count_split; split.
  - intros c x. rewrite tr_log1, tr_set_mn, produced_cons. cbn [produced_by]. rewrite node_log, node_set_mn.
    specialize (IC c x). unfold pending in *.
    change (pend_workers c x (log (set_mn s M) [TEmit e])) with (pend_workers c x s).
    change (pend_cbs c x (log (set_mn s M) [TEmit e])) with (pend_cbs c x s).
    unfold pend_main in *. rewrite mn_log, mn_set_mn. rewrite EM in IC. unfold M.
    destruct (roots nt) as [|r rs] eqn:ER.
    + rewrite cnt_nat_nil. destruct (item_eqb (e, 0%Z) x); lia.
    + lia.
  - apply inv_rest_ninv in IR; destruct IR as [HL IN]. apply inv_rest_ninv; split; auto.
Qed.


(* ------------------------------------------------------------------ the three senders *)
Lemma step_MainSend_count : forall s s', step nt T s MainSend = Ok s' -> inv_count nt s -> inv_count nt s'.
Proof.
  intros s s' H I; unfold step in H.
  destruct (mn s) as [|it [|r rs]| | |] eqn:EM; try discriminate.
  destruct (try_send nt s r it) as [s1| |] eqn:ES; inversion H; subst; clear H.
  match goal with |- context [set_mn s1 ?m] => set (M := m) end.
  apply inv_count_split in I; destruct I as [IC IR].
  pose proof (try_send_rest _ _ _ _ IR ES) as IR1.
  assert (HS : inv_shape nt s) by apply IR.
  pose proof (try_send_debt _ _ _ _ IC HS ES) as DB.
  pose proof (try_send_frame _ _ _ _ _ ES) as (F1&F2&F3&F4&F5&_&_&_&F9&F10).
  apply inv_count_split; split.
  - intros c x. specialize (DB c x). rewrite tr_set_mn, node_set_mn. unfold pending in *.
    change (pend_workers c x (set_mn s1 M)) with (pend_workers c x s1).
    change (pend_cbs c x (set_mn s1 M)) with (pend_cbs c x s1).
    assert (P : pend_main c x (set_mn s1 M) + (if pair_is c x (r, it) then 1 else 0) = pend_main c x s1).
    { unfold pend_main. rewrite mn_set_mn, F3, EM. unfold M, pair_is; cbn [fst snd].
      rewrite cnt_nat_cons, (Nat.eqb_sym c r).
      destruct rs as [|r' rs']; [rewrite cnt_nat_nil|]; destruct (item_eqb it x); destruct (r =? c); simpl; lia. }
    lia.
  - apply (rest_frame nt s1); auto. intro; apply neq1_refl.
Qed.

Lemma neq1_set_worker : forall y w old st, nth_error (ws y) w = Some old ->
  (forall x, wproc x old = 0) -> (forall x, wproc x st = 0) -> neq1 y (set_worker y w st).
Proof.
  intros y w old st HW H1 H2. repeat split; auto.
  - rewrite ws_set_worker; apply upd_length.
  - intro x. rewrite ws_set_worker. pose proof (wprocsum_upd x y w old st HW). rewrite H1, H2 in H; lia.
Qed.

Lemma step_SendW_count : forall s n w s', step nt T s (SendW n w) = Ok s' -> inv_count nt s -> inv_count nt s'.
Proof.
  intros s n w s' H I; unfold step in H.
  destruct (nth_error (ws (node s n)) w) as [[| |[|[c0 it] rest]| | | | |]|] eqn:HW; try discriminate.
  destruct (try_send nt s c0 it) as [s1| |] eqn:ES; inversion H; subst; clear H.
  apply inv_count_split in I; destruct I as [IC IR].
  pose proof (try_send_rest _ _ _ _ IR ES) as IR1.
  assert (HS : inv_shape nt s) by apply IR.
  pose proof (try_send_debt _ _ _ _ IC HS ES) as DB.
  pose proof (try_send_frame _ _ _ _ _ ES) as (F1&F2&F3&F4&F5&_&_&_&F9&F10).
  pose proof (worker_in_range _ _ _ _ HW) as HR.
  assert (HW1 : nth_error (ws (node s1 n)) w = Some (WSend ((c0, it) :: rest))).
  { destruct (F10 n) as [E _]; rewrite E; auto. }
  set (Y := set_worker (node s1 n) w (after_deliveries rest)).
  apply inv_count_split; split.
  - intros c x. specialize (DB c x). rewrite tr_set_node. unfold pending in *.
    change (pend_cbs c x (set_node s1 n Y)) with (pend_cbs c x s1).
    change (pend_main c x (set_node s1 n Y)) with (pend_main c x s1).
    assert (P : pend_workers c x (set_node s1 n Y) + (if pair_is c x (c0, it) then 1 else 0) = pend_workers c x s1).
    { pose proof (pend_workers_set_node c x s1 n Y) as P1. rewrite F1 in P1. specialize (P1 HR).
      pose proof (wsum_set_worker c x _ w _ (after_deliveries rest) HW1) as P2. fold Y in P2.
      rewrite wpend_after_deliveries in P2. cbn [wpend] in P2. rewrite cnt_pair_cons in P2. lia. }
    assert (O : offered (node (set_node s1 n Y) c) = offered (node s1 c)
                /\ dropped (node (set_node s1 n Y) c) = dropped (node s1 c)).
    { destruct (Nat.eq_dec c n) as [->|Hc].
      - rewrite node_set_node_same by lia. split; reflexivity.
      - rewrite node_set_node_other by auto. split; reflexivity. }
    destruct O as [O1 O2]. rewrite O1, O2. lia.
  - apply (rest_frame nt s1); auto.
    + autorewrite with exb; auto.
    + intro m. destruct (Nat.eq_dec m n) as [->|Hm].
      * rewrite node_set_node_same by lia. apply (neq1_set_worker _ _ _ _ HW1); auto.
        intro; apply wproc_after_deliveries.
      * rewrite node_set_node_other by auto. apply neq1_refl.
Qed.

Lemma step_SendC_count : forall s i s', step nt T s (SendC i) = Ok s' -> inv_count nt s -> inv_count nt s'.
Proof.
  intros s i s' H I; unfold step in H.
  destruct (nth_error (cbs s) i) as [[n [|[c0 it] rest]]|] eqn:HC; try discriminate.
  destruct (try_send nt s c0 it) as [s1| |] eqn:ES; inversion H; subst; clear H.
  apply inv_count_split in I; destruct I as [IC IR].
  pose proof (try_send_rest _ _ _ _ IR ES) as IR1.
  assert (HS : inv_shape nt s) by apply IR.
  pose proof (try_send_debt _ _ _ _ IC HS ES) as DB.
  pose proof (try_send_frame _ _ _ _ _ ES) as (F1&F2&F3&F4&F5&_&_&_&F9&F10).
  rewrite <- F2 in HC.
  match goal with |- context [set_cbs s1 ?m] => set (CB := m) end.
  apply inv_count_split; split.
  - intros c x. specialize (DB c x). rewrite tr_set_cbs, node_set_cbs. unfold pending in *.
    change (pend_workers c x (set_cbs s1 CB)) with (pend_workers c x s1).
    change (pend_main c x (set_cbs s1 CB)) with (pend_main c x s1).
    assert (P : pend_cbs c x (set_cbs s1 CB) + (if pair_is c x (c0, it) then 1 else 0) = pend_cbs c x s1).
    { unfold pend_cbs. rewrite cbs_set_cbs. unfold CB. destruct rest as [|d rest'].
      - pose proof (sumf_remove _ (fun cb : nat * list (nat * item) => cnt_pair c x (snd cb)) _ _ _ HC) as P1.
        cbn [snd] in P1. rewrite cnt_pair_cons, cnt_pair_nil in P1. simpl skipn in P1. lia.
      - pose proof (sumf_upd _ (fun cb : nat * list (nat * item) => cnt_pair c x (snd cb)) _ _ _ (n, d :: rest') HC) as P1.
        cbn [snd] in P1. rewrite (cnt_pair_cons c x (c0, it)) in P1. lia. }
    lia.
  - apply (rest_frame nt s1); auto. intro; apply neq1_refl.
Qed.

End MovingSteps.
