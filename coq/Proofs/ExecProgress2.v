(* E1 — C03, liveness half: deadlock freedom of the shutdown cascade.  Part 2:
     [progress]            from every reachable state of a [live_net] in which the source has stopped and
                           Execute has not returned, some framework step / node return is enabled and
                           strictly decreases the measure [M] of ExecProgress.v;
     [can_always_finish]   hence a clean return of Execute is reachable by such steps only.
   The hypotheses [topo], [fed], [buffered] of [live_net] (on top of [good_net]) are each necessary:
   see the counterexamples at the end of this file. *)
From Coq Require Import List ZArith Bool Arith Lia.
From FB Require Import Model.Exec Model.TraceSpec Model.ExecInv Proofs.ExecLifeBase Proofs.ExecLife
                       Proofs.ExecProgress.
From FB Require Proofs.ExecBase Proofs.ExecProps Proofs.ExecSpec.
Import ListNotations.
Local Open Scope nat_scope.

(* some finishing action is enabled and decreases the measure (and leaves source and timeout flag alone) *)
Definition good_step (nt : net) (T : nat) (s : state) : Prop :=
  exists a s', finishing a = true /\ step nt T s a = Ok s' /\ M s' < M s
               /\ src s' = src s /\ timedout s' = timedout s.

Lemma outcome_ok_filter : forall k b, outcome_ok k (ORes []) b = true.
Proof. intros [] b; reflexivity. Qed.

Lemma first_false : forall A (f : A -> bool) (d : A) l, forallb f l = false ->
  exists c, c < length l /\ f (nth c l d) = false /\ forall m, m < c -> f (nth m l d) = true.
Proof.
  induction l as [|a l IH]; cbn [forallb]; intros H; [discriminate|].
  destruct (f a) eqn:Ea.
  - cbn [andb] in H. destruct (IH H) as (c & Hc & Hf & Hm).
    exists (S c). cbn [length nth]. repeat split; auto; try lia.
    intros [|m] Hlt; auto. apply Hm. lia.
  - exists 0. cbn [length nth]. repeat split; auto; try lia.
Qed.

Lemma find_worker : forall (P : wstate -> bool) W,
  (exists w st, nth_error W w = Some st /\ P st = true)
  \/ (forall w st, nth_error W w = Some st -> P st = false).
Proof.
  intros P W. destruct (existsb P W) eqn:E.
  - left. apply existsb_to_nth_error in E. exact E.
  - right. intros w st H. eapply existsb_false_In; eauto. eapply nth_error_In; eauto.
Qed.

Section Progress.
  Variables (nt : net) (T : nat) (s : state).
  Hypothesis Hlive : live_net nt.
  Hypothesis Hr : reachable nt T s.

  Let Hwf : wf_net nt = true.
  Proof. destruct Hlive as [[H _] _]. exact H. Qed.
  Let Hwk : forallb (fun x => 0 <? nworkers x) nt = true.
  Proof. destruct Hlive as [[_ H] _]. exact H. Qed.
  Let Htopo : topo nt.
  Proof. destruct Hlive as (_ & H & _). exact H. Qed.
  Let Hfed : fed nt.
  Proof. destruct Hlive as (_ & _ & H & _). exact H. Qed.
  Let Hbuf : buffered nt.
  Proof. destruct Hlive as (_ & _ & _ & H). exact H. Qed.
  Let Hlen : length (nodes s) = length nt.
  Proof. destruct (life_inv_reachable nt T s Hwf Hr) as [[H _] _]. exact H. Qed.
  Let Hshape : inv_shape nt s.
  Proof. destruct (life_inv_reachable nt T s Hwf Hr) as [H _]. exact H. Qed.
  Let Hlife : inv_life nt s.
  Proof. destruct (life_inv_reachable nt T s Hwf Hr) as [_ H]. exact H. Qed.

  Lemma worker0 : forall n, n < length nt -> exists st, nth_error (ws (node s n)) 0 = Some st.
  Proof.
    intros n Hn. destruct Hshape as [_ Hws]. specialize (Hws n Hn).
    pose proof (ExecSpec.nworkers_pos nt n Hwk Hn) as Hp.
    destruct (ws (node s n)) as [|st W]; cbn [length] in Hws; [lia|]. exists st. reflexivity.
  Qed.

  Ltac frame := split; [|split; reflexivity].

  (* ---------------------------------------------------------------- one lemma per action *)
  Lemma G_Return : forall n w it, nth_error (ws (node s n)) w = Some (WProc it) -> good_step nt T s.
  Proof.
    intros n w it H. pose proof (node_ws_some_lt _ _ _ _ H) as Hn.
    exists (Return n w (ORes [])). eexists. split; [reflexivity|]. split.
    { cbn [step]. rewrite H, outcome_ok_filter, ExecProps.filtered_offers_nothing. cbn [after_deliveries]. reflexivity. }
    frame. rewrite M_log.
    pose proof (M_set_node s n (set_worker (count_outcome (node s n) (ORes [])) w WIdle) Hn) as HM.
    assert (H' : nth_error (ws (count_outcome (node s n) (ORes []))) w = Some (WProc it)) by exact H.
    pose proof (nodeM_set_worker _ _ _ WIdle H') as HW. rewrite nodeM_count_outcome in HW.
    cbn [wrank] in HW. lia.
  Qed.

  Lemma G_Deq : forall n w it rest, nth_error (ws (node s n)) w = Some WIdle -> q (node s n) = it :: rest ->
    good_step nt T s.
  Proof.
    intros n w it rest H Hq. pose proof (node_ws_some_lt _ _ _ _ H) as Hn.
    exists (Deq n w). eexists. split; [reflexivity|]. split.
    { cbn [step]. rewrite H, Hq. reflexivity. }
    frame. rewrite M_log.
    match goal with |- M (set_node s n ?x) < _ => pose proof (M_set_node s n x Hn) as HM;
      assert (Hx : nodeM x + 1 = nodeM (node s n)) end.
    { unfold nodeM. cbn [q inflight ws]. rewrite Hq. cbn [length].
      pose proof (wsum_upd _ _ _ (WProc it) H) as HW. cbn [wrank] in HW. lia. }
    lia.
  Qed.

  Lemma G_Callback : forall n it rest, inflight (node s n) = it :: rest -> good_step nt T s.
  Proof.
    intros n it rest Hi.
    assert (Hn : n < length (nodes s)) by (apply node_inflight_lt; rewrite Hi; discriminate).
    exists (Callback n it (ORes [])). eexists. split; [reflexivity|]. split.
    { cbn [step]. rewrite Hi. cbn [remove_one]. rewrite ExecBase.item_eqb_refl.
      rewrite outcome_ok_filter, ExecProps.filtered_offers_nothing. reflexivity. }
    frame. rewrite M_log.
    match goal with |- M (set_node s n ?x) < _ => pose proof (M_set_node s n x Hn) as HM;
      assert (Hx : nodeM x + 1 = nodeM (node s n)) end.
    { unfold nodeM. cbn [count_outcome q inflight ws]. rewrite Hi. cbn [length]. lia. }
    lia.
  Qed.

  Lemma G_SendW : forall n w c it rest, nth_error (ws (node s n)) w = Some (WSend ((c, it) :: rest)) ->
    accepts nt s c = true -> good_step nt T s.
  Proof.
    intros n w c it rest H Ha. pose proof (node_ws_some_lt _ _ _ _ H) as Hn.
    assert (Hn' : n < length nt) by (rewrite <- Hlen; exact Hn).
    destruct (pending_targets_open nt T s Hwf Hr) as (_ & Hop & _).
    pose proof (Hop n w _ (c, it) Hn' H (or_introl eq_refl)) as Hcl. cbn [fst] in Hcl.
    destruct Hlife as (_ & _ & _ & _ & _ & _ & _ & _ & L9a & _).
    destruct (L9a n w _ Hn' H) as [_ Ht]. specialize (Ht (c, it) (or_introl eq_refl)). cbn [fst] in Ht.
    assert (Hc : c < length (nodes s)) by (rewrite Hlen; eapply wf_target_lt; eauto).
    destruct (try_send_accepts nt s c it Hc Hcl Ha) as (s1 & E & HM1).
    pose proof (try_send_sent _ _ _ _ _ E) as (_ & Hsl & _ & Hl1 & _ & _ & Hto & Hsrc).
    exists (SendW n w). eexists. split; [reflexivity|]. split.
    { cbn [step]. rewrite H, E. reflexivity. }
    split; [|split; [exact Hsrc|exact Hto]].
    assert (H1 : nth_error (ws (node s1 n)) w = Some (WSend ((c, it) :: rest))).
    { destruct (Hsl n) as (a & _). rewrite a. exact H. }
    pose proof (M_worker s1 n w _ (after_deliveries rest) H1) as HW.
    rewrite wrank_after in HW. cbn [wrank length] in HW. lia.
  Qed.

  Lemma G_SendC : forall n c it rest tl, cbs s = (n, (c, it) :: rest) :: tl ->
    accepts nt s c = true -> good_step nt T s.
  Proof.
    intros n c it rest tl Hc Ha.
    assert (Hin : In (n, (c, it) :: rest) (cbs s)) by (rewrite Hc; left; reflexivity).
    destruct (pending_targets_open nt T s Hwf Hr) as (Hop & _ & _).
    pose proof (Hop _ (c, it) Hin (or_introl eq_refl)) as Hcl. cbn [fst] in Hcl.
    destruct Hlife as (_ & _ & _ & _ & _ & _ & _ & L8 & _ & L9b & _).
    destruct (L8 _ Hin) as [Hn _]. cbn [fst] in Hn.
    pose proof (L9b _ (c, it) Hin (or_introl eq_refl)) as Ht. cbn [fst] in Ht.
    assert (Hcn : c < length (nodes s)) by (rewrite Hlen; eapply wf_target_lt; eauto).
    destruct (try_send_accepts nt s c it Hcn Hcl Ha) as (s1 & E & HM1).
    pose proof (try_send_sent _ _ _ _ _ E) as (_ & _ & _ & _ & Hcb & _ & Hto & Hsrc).
    exists (SendC 0). eexists. split; [reflexivity|]. split.
    { cbn [step]. rewrite Hc. cbn [nth_error]. rewrite E. reflexivity. }
    split; [|split; [exact Hsrc|exact Hto]].
    match goal with |- M (set_cbs s1 ?x) < _ => pose proof (M_set_cbs s1 x) as HC end.
    rewrite Hcb, Hc in HC |- *.
    destruct rest; cbn [firstn skipn app upd sumf] in HC |- *; unfold cbM in HC; cbn [snd length] in HC; lia.
  Qed.

  Lemma G_MainSend : forall it r rs, mn s = MDeliver it (r :: rs) -> accepts nt s r = true -> good_step nt T s.
  Proof.
    intros it r rs Hm Ha.
    destruct (pending_targets_open nt T s Hwf Hr) as (_ & _ & Hop).
    pose proof (Hop _ _ r Hm (or_introl eq_refl)) as Hcl.
    destruct Hlife as (_ & _ & _ & _ & _ & _ & _ & _ & _ & _ & L9c).
    destruct (L9c _ _ Hm) as [_ Hroot]. specialize (Hroot r (or_introl eq_refl)).
    assert (Hrn : r < length (nodes s)) by (rewrite Hlen; apply root_lt; auto).
    destruct (try_send_accepts nt s r it Hrn Hcl Ha) as (s1 & E & HM1).
    pose proof (try_send_sent _ _ _ _ _ E) as (_ & _ & _ & _ & _ & Hmn & Hto & Hsrc).
    exists MainSend. eexists. split; [reflexivity|]. split.
    { cbn [step]. rewrite Hm, E. reflexivity. }
    split; [|split; [exact Hsrc|exact Hto]].
    match goal with |- M (set_mn s1 ?x) < _ => pose proof (M_set_mn s1 x) as HC end.
    rewrite Hmn, Hm in HC.
    destruct rs; cbn [mainM length] in HC; lia.
  Qed.

  Lemma G_MainSeeClosed : mn s = MSelect -> src s = SClosed -> good_step nt T s.
  Proof.
    intros Hm Hs. exists MainSeeClosed. eexists. split; [reflexivity|]. split.
    { cbn [step]. rewrite Hm, Hs. reflexivity. }
    frame. pose proof (M_set_mn s MCloseRoots) as HC. rewrite Hm in HC. cbn [mainM] in HC. lia.
  Qed.

  Lemma G_MainCloseRoots : mn s = MCloseRoots -> good_step nt T s.
  Proof.
    intros Hm.
    destruct Hlife as (_ & _ & _ & _ & _ & _ & L7 & _).
    destruct (close_all_total (roots nt) s (wf_roots_NoDup nt Hwf)) as [s1 E].
    { intros r Hroot. destruct (closed (node s r)) eqn:Ec; auto.
      specialize (L7 r Hroot Ec). unfold main_past_loop in L7. rewrite Hm in L7. discriminate. }
    destruct (M_nodes_close_all _ _ _ E) as (HN & HC & _ & Hsrc & Hto).
    exists MainCloseRoots. eexists. split; [reflexivity|]. split.
    { cbn [step]. rewrite Hm, E. reflexivity. }
    split; [|split; [exact Hsrc|exact Hto]].
    unfold M. cbn [nodes cbs mn]. rewrite HN, HC, Hm. cbn [mainM]. lia.
  Qed.

  Lemma G_MainWgDone : mn s = MWait -> all_exited s = true -> good_step nt T s.
  Proof.
    intros Hm Ha. exists MainWgDone. eexists. split; [reflexivity|]. split.
    { cbn [step]. rewrite Hm, Ha. reflexivity. }
    frame. rewrite M_log. pose proof (M_set_mn s MDone) as HC. rewrite Hm in HC. cbn [mainM] in HC. lia.
  Qed.

  Lemma G_SeeClosed : forall n w, nth_error (ws (node s n)) w = Some WIdle -> q (node s n) = [] ->
    closed (node s n) = true -> good_step nt T s.
  Proof.
    intros n w H Hq Hc. exists (SeeClosed n w). eexists. split; [reflexivity|]. split.
    { cbn [step]. rewrite H, Hq, Hc. reflexivity. }
    frame. pose proof (M_worker s n w _ WSaw H) as HW. cbn [wrank] in HW. lia.
  Qed.

  Lemma G_LastOut : forall n w, nth_error (ws (node s n)) w = Some WSaw ->
    forallb wpast (ws (node s n)) = true -> good_step nt T s.
  Proof.
    intros n w H Hp. exists (LastOut n w). eexists. split; [reflexivity|]. split.
    { cbn [step]. rewrite H, Hp. reflexivity. }
    frame. pose proof (M_worker s n w _ WWaited H) as HW. cbn [wrank] in HW. lia.
  Qed.

  Lemma G_OnceEnter : forall n w, nth_error (ws (node s n)) w = Some WWaited -> once (node s n) = ONone ->
    good_step nt T s.
  Proof.
    intros n w H Ho. pose proof (node_ws_some_lt _ _ _ _ H) as Hn.
    exists (OnceEnter n w). eexists. split; [reflexivity|]. split.
    { cbn [step]. rewrite H, Ho. reflexivity. }
    frame. rewrite M_log.
    pose proof (M_set_node s n (set_worker (set_once (node s n) ORunning) w WInShut) Hn) as HM.
    assert (H' : nth_error (ws (set_once (node s n) ORunning)) w = Some WWaited) by exact H.
    pose proof (nodeM_set_worker _ _ _ WInShut H') as HW. rewrite nodeM_set_once in HW.
    cbn [wrank] in HW. lia.
  Qed.

  Lemma G_ShutdownReturn : forall n w, nth_error (ws (node s n)) w = Some WInShut ->
    inflight (node s n) = [] -> existsb (owns n) (cbs s) = false -> good_step nt T s.
  Proof.
    intros n w H Hi Hc. exists (ShutdownReturn n w). eexists. split; [reflexivity|]. split.
    { cbn [step]. rewrite H, Hi, Hc. reflexivity. }
    frame. rewrite M_log. pose proof (M_worker s n w _ WClosing H) as HW. cbn [wrank] in HW. lia.
  Qed.

  Lemma G_CloseKids : forall n w, nth_error (ws (node s n)) w = Some WClosing -> good_step nt T s.
  Proof.
    intros n w H. pose proof (node_ws_some_lt _ _ _ _ H) as Hn.
    pose proof (step_no_panic nt T s (CloseKids n w) Hwf Hshape Hlife) as NP.
    cbn [step] in NP. rewrite H in NP.
    destruct (close_all s (targets (info nt n))) as [s1|] eqn:E; [clear NP|congruence].
    destruct (M_nodes_close_all _ _ _ E) as (HN & HC & Hmn & Hsrc & Hto).
    pose proof (close_all_some _ _ _ E) as (_ & Hsb & _ & _ & _ & Hl1 & _).
    exists (CloseKids n w). eexists. split; [reflexivity|]. split.
    { cbn [step]. rewrite H, E. reflexivity. }
    split; [|split; [exact Hsrc|exact Hto]].
    assert (Hn1 : n < length (nodes s1)) by (rewrite Hl1; exact Hn).
    pose proof (M_set_node s1 n (set_worker (set_once (node s1 n) ODone) w WExit) Hn1) as HM.
    assert (H' : nth_error (ws (set_once (node s1 n) ODone)) w = Some WClosing).
    { cbn [set_once ws]. destruct (Hsb n) as (a & _). rewrite a. exact H. }
    pose proof (nodeM_set_worker _ _ _ WExit H') as HW. rewrite nodeM_set_once in HW.
    cbn [wrank] in HW.
    assert (HM1 : M s1 = M s) by (unfold M; rewrite HN, HC, Hmn; reflexivity).
    lia.
  Qed.

  Lemma G_OnceSkip : forall n w, nth_error (ws (node s n)) w = Some WWaited -> once (node s n) = ODone ->
    good_step nt T s.
  Proof.
    intros n w H Ho. exists (OnceSkip n w). eexists. split; [reflexivity|]. split.
    { cbn [step]. rewrite H, Ho. reflexivity. }
    frame. pose proof (M_worker s n w _ WExit H) as HW. cbn [wrank] in HW. lia.
  Qed.

  (* ---------------------------------------------------------------- back-pressure never deadlocks *)
  (* an open channel either accepts a send right now, or some goroutine downstream of it can move:
     a full, non-discarding channel is non-empty, so its first worker is idle (dequeues), inside Process
     (returns), or itself blocked on a channel further down the tree *)
  Lemma unblock : forall k c, length nt - c <= k -> c < length nt -> closed (node s c) = false ->
    accepts nt s c = true \/ good_step nt T s.
  Proof.
    induction k as [|k IH]; intros c Hk Hc Hcl; [lia|].
    destruct (accepts nt s c) eqn:Ea; [left; reflexivity|right].
    unfold accepts in Ea. apply orb_false_iff in Ea. destruct Ea as [Efull Edisc].
    apply Nat.ltb_ge in Efull.
    destruct (Hbuf c Hc) as [Hcap|Hd]; [|congruence].
    destruct (q (node s c)) as [|it0 rest0] eqn:Eq; [cbn [length] in Efull; lia|].
    destruct (worker0 c Hc) as [st Hst].
    destruct Hlife as (_ & L2 & _ & _ & _ & _ & _ & _ & L9a & _).
    destruct st.
    - eapply G_Deq; eauto.
    - eapply G_Return; eauto.
    - destruct (L9a c 0 _ Hc Hst) as [Hne Ht].
      destruct pend as [|[d it] rest]; [congruence|].
      specialize (Ht (d, it) (or_introl eq_refl)). cbn [fst] in Ht.
      assert (Hd : d < length nt) by (eapply wf_target_lt; eauto).
      pose proof (Htopo c d Hc Ht) as Hlt.
      destruct (pending_targets_open nt T s Hwf Hr) as (_ & Hop & _).
      pose proof (Hop c 0 _ (d, it) Hc Hst (or_introl eq_refl)) as Hdo. cbn [fst] in Hdo.
      destruct (IH d) as [Hacc|G]; auto; try lia.
      eapply G_SendW; eauto.
    - exfalso. destruct (L2 c Hc) as [_ Hq]; [eapply existsb_nth_error; eauto|]. congruence.
    - exfalso. destruct (L2 c Hc) as [_ Hq]; [eapply existsb_nth_error; eauto|]. congruence.
    - exfalso. destruct (L2 c Hc) as [_ Hq]; [eapply existsb_nth_error; eauto|]. congruence.
    - exfalso. destruct (L2 c Hc) as [_ Hq]; [eapply existsb_nth_error; eauto|]. congruence.
    - exfalso. destruct (L2 c Hc) as [_ Hq]; [eapply existsb_nth_error; eauto|]. congruence.
  Qed.

  (* ---------------------------------------------------------------- the cascade *)
  (* main waits, no callback thread exists: the first node (in table order) that still has a worker has a
     closed channel, and one of its workers can move *)
  Lemma progress_wait : mn s = MWait -> cbs s = [] -> good_step nt T s.
  Proof.
    intros Hm Hcbs.
    destruct (all_exited s) eqn:Ea; [apply G_MainWgDone; auto|].
    unfold all_exited in Ea.
    destruct (first_false _ _ dummy_ns _ Ea) as (c & Hcn & Hcf & Hmin).
    fold (node s c) in Hcf.
    assert (Hc : c < length nt) by (rewrite <- Hlen; exact Hcn).
    destruct (fwd_reachable nt T s Hwf Hr) as [F1 F2].
    destruct Hlife as (L1 & L2 & L3 & L4 & L5 & L6 & L7 & L8 & L9a & L9b & L9c).
    assert (Hclosed : closed (node s c) = true).
    { destruct (Hfed c Hc) as [Hroot|(n & Hn & Hin)].
      - apply F1; auto. unfold main_past_loop. rewrite Hm. reflexivity.
      - pose proof (Htopo n c Hn Hin) as Hlt.
        specialize (Hmin n Hlt). fold (node s n) in Hmin.
        destruct (worker0 n Hn) as [st Hst].
        pose proof (forallb_nth_error _ _ _ _ _ Hmin Hst) as He.
        apply (F2 n c Hn); auto. apply L4; auto. eapply existsb_nth_error; eauto. }
    (* a worker that has not yet seen the closed channel *)
    destruct (find_worker (fun w => negb (wpast w)) (ws (node s c))) as [(w & st & Hw & HP)|Hpast].
    { destruct st; cbn [wpast negb] in HP; try discriminate.
      - destruct (q (node s c)) as [|it rest] eqn:Eq.
        + eapply G_SeeClosed; eauto.
        + eapply G_Deq; eauto.
      - eapply G_Return; eauto.
      - destruct (L9a c w _ Hc Hw) as [Hne Ht].
        destruct pend as [|[d it] rest]; [congruence|].
        specialize (Ht (d, it) (or_introl eq_refl)). cbn [fst] in Ht.
        assert (Hd : d < length nt) by (eapply wf_target_lt; eauto).
        destruct (pending_targets_open nt T s Hwf Hr) as (_ & Hop & _).
        pose proof (Hop c w _ (d, it) Hc Hw (or_introl eq_refl)) as Hdo. cbn [fst] in Hdo.
        destruct (unblock (length nt) d) as [Hacc|G]; auto; try lia.
        eapply G_SendW; eauto. }
    assert (Hallpast : forallb wpast (ws (node s c)) = true).
    { apply forallb_of_nth_error. intros i a Hi. specialize (Hpast i a Hi). apply negb_false_iff in Hpast. exact Hpast. }
    destruct (find_worker (fun w => match w with WSaw => true | _ => false end) (ws (node s c)))
      as [(w & st & Hw & HP)|Hnosaw].
    { destruct st; try discriminate. eapply G_LastOut; eauto. }
    destruct (find_worker isclosing (ws (node s c))) as [(w & st & Hw & HP)|Hnoclosing].
    { destruct st; try discriminate. eapply G_CloseKids; eauto. }
    destruct (find_worker (fun w => match w with WInShut => true | _ => false end) (ws (node s c)))
      as [(w & st & Hw & HP)|Hnoshut].
    { destruct st; try discriminate.
      destruct (inflight (node s c)) as [|it rest] eqn:Ei.
      - eapply G_ShutdownReturn; eauto. rewrite Hcbs. reflexivity.
      - eapply G_Callback; eauto. }
    destruct (find_worker (fun w => match w with WWaited => true | _ => false end) (ws (node s c)))
      as [(w & st & Hw & HP)|Hnowaited].
    { destruct st; try discriminate.
      destruct (once (node s c)) eqn:Eo.
      - eapply G_OnceEnter; eauto.
      - exfalso. specialize (L3 c Hc). rewrite Eo in L3. unfold cnt_workers in L3.
        rewrite ExecSpec.filter_none in L3; [cbn in L3; discriminate|].
        intros i a Hi. specialize (Hnoclosing i a Hi). specialize (Hnoshut i a Hi).
        destruct a; cbn in *; congruence.
      - eapply G_OnceSkip; eauto. }
    exfalso.
    assert (Hall : forallb wexit (ws (node s c)) = true).
    { apply forallb_of_nth_error. intros i a Hi.
      specialize (Hpast i a Hi). specialize (Hnosaw i a Hi). specialize (Hnoclosing i a Hi).
      specialize (Hnoshut i a Hi). specialize (Hnowaited i a Hi).
      destruct a; cbn in *; congruence. }
    congruence.
  Qed.

  (* ---------------------------------------------------------------- progress *)
  Theorem progress : src s = SClosed -> mn s <> MDone -> good_step nt T s.
  Proof.
    intros Hsrc Hnd.
    pose proof Hlife as (L1 & L2 & L3 & L4 & L5 & L6 & L7 & L8 & L9a & L9b & L9c).
    pose proof (pending_targets_open nt T s Hwf Hr) as (Hop1 & Hop2 & Hop3).
    destruct (cbs s) as [|[n pend] tl] eqn:Ec.
    2: { rewrite <- Ec in *.
         assert (Hin : In (n, pend) (cbs s)) by (rewrite Ec; left; reflexivity).
         destruct (L8 _ Hin) as [Hn Hne]. cbn [fst snd] in Hn, Hne.
         destruct pend as [|[c it] rest]; [congruence|].
         pose proof (L9b _ (c, it) Hin (or_introl eq_refl)) as Ht. cbn [fst] in Ht.
         pose proof (Hop1 _ (c, it) Hin (or_introl eq_refl)) as Hcl. cbn [fst] in Hcl.
         assert (Hc : c < length nt) by (eapply wf_target_lt; eauto).
         destruct (unblock (length nt) c) as [Hacc|G]; auto; try lia.
         eapply G_SendC; eauto. }
    destruct (mn s) as [|it rs| | |] eqn:Em.
    - apply G_MainSeeClosed; auto.
    - destruct (L9c _ _ eq_refl) as [Hne Hroots].
      destruct rs as [|r rs]; [congruence|].
      specialize (Hroots r (or_introl eq_refl)).
      pose proof (Hop3 _ _ r eq_refl (or_introl eq_refl)) as Hcl.
      assert (Hc : r < length nt) by (apply root_lt; auto).
      destruct (unblock (length nt) r) as [Hacc|G]; auto; try lia.
      eapply G_MainSend; eauto.
    - apply G_MainCloseRoots; auto.
    - apply progress_wait; auto.
    - congruence.
  Qed.
End Progress.

(* ------------------------------------------------------------------ deadlock freedom *)
Theorem can_always_finish : forall nt T s,
  live_net nt -> reachable nt T s -> src s = SClosed -> timedout s = false ->
  exists sch s', forallb finishing sch = true /\ run nt T s sch = Ok s' /\ mn s' = MDone /\ timedout s' = false.
Proof.
  intros nt T s Hl. remember (M s) as k eqn:Ek. revert s Ek.
  induction k as [k IH] using lt_wf_ind. intros s Ek Hr Hsrc Hto.
  assert (D : mn s = MDone \/ mn s <> MDone) by (destruct (mn s); auto; right; discriminate).
  destruct D as [Hd|Hnd].
  - exists [], s. cbn. auto.
  - destruct (progress nt T s Hl Hr Hsrc Hnd) as (a & s1 & Hf & Hs & HM & Hs1 & Ht1).
    assert (Hr1 : reachable nt T s1) by (eapply reachable_step; eauto).
    destruct (IH (M s1)) with (s := s1) as (sch & s' & Hfs & Hrun & Hdone & Hto'); auto; try congruence; try lia.
    exists (a :: sch), s'. cbn [forallb run]. rewrite Hf, Hs. auto.
Qed.

(* with [clean_done]: from every reachable state in which the source has stopped the fully drained clean end
   is reachable: no callback thread, every worker returned, nothing in flight, every once done, every channel
   closed and empty *)
Corollary can_always_drain : forall nt T s,
  live_net nt -> reachable nt T s -> src s = SClosed -> timedout s = false ->
  exists sch s', forallb finishing sch = true /\ run nt T s sch = Ok s' /\ mn s' = MDone /\ timedout s' = false
    /\ cbs s' = []
    /\ forall n, n < length nt ->
         forallb wexit (ws (node s' n)) = true /\ inflight (node s' n) = []
         /\ once (node s' n) = ODone /\ q (node s' n) = [] /\ closed (node s' n) = true.
Proof.
  intros nt T s Hl Hr Hsrc Hto.
  destruct (can_always_finish nt T s Hl Hr Hsrc Hto) as (sch & s' & Hf & Hrun & Hd & Ht).
  exists sch, s'. repeat split; auto.
  all: assert (Hr' : reachable nt T s') by (eapply reachable_run; eauto).
  all: destruct Hl as [[Hwf Hwk] _].
  all: destruct (clean_done nt T s' Hwf Hr' Hd Ht) as [Hc Hn]; auto.
  all: intros; destruct (Hn n H) as (a & b & c); destruct (c (ExecSpec.nworkers_pos nt n Hwk H)) as (d & e & f); auto.
Qed.

(* ------------------------------------------------------------------ the extra hypotheses are needed *)
(* [good_net] alone does not give deadlock freedom.  In each of the three tables below (all [good_net]) a
   state with the source stopped is reachable from which NO finishing action is enabled although Execute
   has not returned: only the shutdown timeout ends the run. *)
Definition no_clean_end (nt : net) (T : nat) (s : state) : Prop :=
  ~ exists sch s', forallb finishing sch = true /\ run nt T s sch = Ok s' /\ mn s' = MDone /\ timedout s' = false.

Lemma stuck_no_clean_end : forall nt T s, mn s <> MDone ->
  (forall a, finishing a = true -> step nt T s a = NotEnabled) -> no_clean_end nt T s.
Proof.
  intros nt T s Hm Hst (sch & s' & Hf & Hrun & Hd & _).
  destruct sch as [|a sch]; cbn [run forallb] in *.
  - injection Hrun as <-. contradiction.
  - apply andb_true_iff in Hf. destruct Hf as [Ha _]. rewrite (Hst a Ha) in Hrun. discriminate.
Qed.

Definition cx_node (cap : nat) (kids : list nat) (r : role) : ninfo :=
  {| nid := 0; nkind := KSync; nworkers := 1; ncap := cap; ndisc := false; nkids := kids; nhandler := None; nrole := r |}.
Definition state_after (nt : net) (sch : list action) : state :=
  match run nt 0 (init nt) sch with Ok s => s | _ => init nt end.

(* (1) [fed] is needed: a node that is neither a root nor anybody's child / handler is never closed *)
Definition cx_fed_net : net := [cx_node 1 [] RChild].
Definition cx_fed_state : state :=
  Eval vm_compute in state_after cx_fed_net [SrcReturnNil; MainSeeClosed; MainCloseRoots].

Theorem fed_needed : forall T,
  ExecProps.good_net cx_fed_net /\ topo cx_fed_net /\ buffered cx_fed_net
  /\ reachable cx_fed_net T cx_fed_state /\ src cx_fed_state = SClosed /\ timedout cx_fed_state = false
  /\ no_clean_end cx_fed_net T cx_fed_state.
Proof.
  intros T. split; [split; reflexivity|]. split; [apply topo_b_ok; reflexivity|].
  split; [apply buffered_b_ok; reflexivity|].
  split; [exists [SrcReturnNil; MainSeeClosed; MainCloseRoots]; reflexivity|].
  split; [reflexivity|]. split; [reflexivity|].
  apply stuck_no_clean_end; [discriminate|].
  intros a Hf. destruct a; try discriminate Hf; try reflexivity;
    try (destruct o as [[|e es]| |]; try discriminate Hf);
    try (destruct n as [|[|n]]; try reflexivity; destruct w as [|[|w]]; reflexivity).
  destruct i; reflexivity.
Qed.

(* (2) acyclicity ([topo]) is needed on top of [fed]: two nodes feeding each other are well-formed and fed,
   but hang from no root *)
Definition cx_cyc_net : net := [cx_node 1 [1] RChild; cx_node 1 [0] RChild].
Definition cx_cyc_state : state :=
  Eval vm_compute in state_after cx_cyc_net [SrcReturnNil; MainSeeClosed; MainCloseRoots].

Theorem topo_needed : forall T,
  ExecProps.good_net cx_cyc_net /\ fed cx_cyc_net /\ buffered cx_cyc_net
  /\ reachable cx_cyc_net T cx_cyc_state /\ src cx_cyc_state = SClosed /\ timedout cx_cyc_state = false
  /\ no_clean_end cx_cyc_net T cx_cyc_state.
Proof.
  intros T. split; [split; reflexivity|]. split; [apply fed_b_ok; reflexivity|].
  split; [apply buffered_b_ok; reflexivity|].
  split; [exists [SrcReturnNil; MainSeeClosed; MainCloseRoots]; reflexivity|].
  split; [reflexivity|]. split; [reflexivity|].
  apply stuck_no_clean_end; [discriminate|].
  intros a Hf. destruct a; try discriminate Hf; try reflexivity;
    try (destruct o as [[|e es]| |]; try discriminate Hf);
    try (destruct n as [|[|[|n]]]; try reflexivity; destruct w as [|[|w]]; reflexivity).
  destruct i; reflexivity.
Qed.

(* (3) [buffered] is needed: the model has no rendezvous, so a capacity-0 channel that does not discard
   never accepts anything; main stays blocked in the delivery to the root (config validation enforces
   buffersize >= 1, so this is a limit of the model's domain, not a defect of the executor) *)
Definition cx_cap_net : net := [cx_node 0 [] RRoot].
Definition cx_cap_state : state :=
  Eval vm_compute in state_after cx_cap_net [SrcEmit 7%Z; SrcReturnNil].

Theorem buffered_needed : forall T,
  ExecProps.good_net cx_cap_net /\ topo cx_cap_net /\ fed cx_cap_net
  /\ reachable cx_cap_net T cx_cap_state /\ src cx_cap_state = SClosed /\ timedout cx_cap_state = false
  /\ no_clean_end cx_cap_net T cx_cap_state.
Proof.
  intros T. split; [split; reflexivity|]. split; [apply topo_b_ok; reflexivity|].
  split; [apply fed_b_ok; reflexivity|].
  split; [exists [SrcEmit 7%Z; SrcReturnNil]; reflexivity|].
  split; [reflexivity|]. split; [reflexivity|].
  apply stuck_no_clean_end; [discriminate|].
  intros a Hf. destruct a; try discriminate Hf; try reflexivity;
    try (destruct o as [[|e es]| |]; try discriminate Hf);
    try (destruct n as [|[|n]]; try reflexivity; destruct w as [|[|w]]; reflexivity).
  destruct i; reflexivity.
Qed.

Print Assumptions progress.
Print Assumptions can_always_finish.
Print Assumptions can_always_drain.
Print Assumptions fed_needed.
Print Assumptions topo_needed.
Print Assumptions buffered_needed.
