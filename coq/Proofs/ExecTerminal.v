(* E1 — [produced] is the feeder's [supply] in a well-formed network; and at the end of a clean run
   nothing is pending, so every channel's conservation law is exact. *)
From Coq Require Import List ZArith Bool Arith Lia.
From FB Require Import Model.Exec Model.TraceSpec Model.ExecInv Proofs.ExecSupply.
Import ListNotations.
Local Open Scope nat_scope.

Definition is_root (x : ninfo) : bool := match nrole x with RRoot => true | _ => false end.

Lemma cnt_roots_from l : forall i c,
  cnt_nat c (roots_from i l)
  = if (i <=? c) && (c <? i + length l) && is_root (nth (c - i) l dummy_info) then 1 else 0.
Proof.
  induction l as [|x l IH]; intros i c; cbn [roots_from length].
  - replace (c <? i + 0) with (negb (i <=? c)).
    + destruct (i <=? c); reflexivity.
    + destruct (Nat.leb_spec i c), (Nat.ltb_spec c (i + 0)); cbn; try reflexivity; lia.
  - assert (Hrec : cnt_nat c (roots_from (S i) l)
                   = if (S i <=? c) && (c <? i + S (length l)) && is_root (nth (c - i) (x :: l) dummy_info) then 1 else 0).
    { rewrite IH. replace (S i + length l) with (i + S (length l)) by lia.
      destruct (S i <=? c) eqn:E; cbn; [|reflexivity]. apply Nat.leb_le in E.
      replace (c - i) with (S (c - S i)) by lia. reflexivity. }
    destruct (Nat.eq_dec c i) as [->|Hne].
    + replace (i - i) with 0 by lia. cbn [nth].
      assert (Z : cnt_nat i (roots_from (S i) l) = 0).
      { rewrite IH. destruct (S i <=? i) eqn:E; [apply Nat.leb_le in E; lia|reflexivity]. }
      unfold is_root. destruct (nrole x) eqn:Er.
      * rewrite cnt_nat_cons, Nat.eqb_refl, Z, Nat.leb_refl.
        destruct (i <? i + S (length l)) eqn:E2; [reflexivity|apply Nat.ltb_ge in E2; lia].
      * rewrite Z. rewrite andb_false_r. reflexivity.
      * rewrite Z. rewrite andb_false_r. reflexivity.
    + assert (Step : cnt_nat c (match nrole x with RRoot => i :: roots_from (S i) l | _ => roots_from (S i) l end)
                     = cnt_nat c (roots_from (S i) l)).
      { destruct (nrole x); try reflexivity. rewrite cnt_nat_cons.
        destruct (c =? i) eqn:E; [apply Nat.eqb_eq in E; lia|reflexivity]. }
      rewrite Step, Hrec.
      destruct (Nat.leb_spec (S i) c), (Nat.leb_spec i c); cbn; try reflexivity; lia.
Qed.

Lemma cnt_roots nt c :
  cnt_nat c (roots nt) = if (c <? length nt) && is_root (info nt c) then 1 else 0.
Proof. unfold roots. rewrite cnt_roots_from. cbn. rewrite Nat.sub_0_r. reflexivity. Qed.

(* the statement of the conservation law in terms of the feeder named by TraceSpec.supply *)
Theorem produced_supply nt c x p :
  wf_net nt = true -> c < length nt -> produced nt c x p = count_item x (supply nt c p).
Proof.
  intros Hwf Hc. unfold supply, feeder_of.
  destruct (nrole (info nt c)) eqn:Er.
  - apply produced_root; [exact Hwf|]. rewrite cnt_roots. unfold is_root. rewrite Er.
    apply Nat.ltb_lt in Hc. rewrite Hc. cbn. lia.
  - assert (R0 : cnt_nat c (roots nt) = 0).
    { rewrite cnt_roots. unfold is_root. rewrite Er. rewrite andb_false_r. reflexivity. }
    pose proof (find_parent_spec nt 0 c) as FP.
    destruct (find_parent nt 0 c) as [|m|m|]; [contradiction| | |].
    + destruct FP as [_ H]. rewrite Nat.sub_0_r in H. apply produced_child; assumption.
    + destruct FP as [_ [H _]]. rewrite Nat.sub_0_r in H. apply produced_handler; [exact Hwf|].
      unfold handler_is, info. rewrite H. apply Nat.eqb_refl.
    + apply produced_orphan; [exact Hwf|exact R0|]. intros n. unfold tcount.
      destruct (Nat.lt_ge_cases n (length nt)) as [Ln|Ln]; [apply FP; exact Ln|].
      rewrite info_out_of_range by exact Ln. reflexivity.
  - assert (R0 : cnt_nat c (roots nt) = 0).
    { rewrite cnt_roots. unfold is_root. rewrite Er. rewrite andb_false_r. reflexivity. }
    pose proof (find_parent_spec nt 0 c) as FP.
    destruct (find_parent nt 0 c) as [|m|m|]; [contradiction| | |].
    + destruct FP as [_ H]. rewrite Nat.sub_0_r in H. apply produced_child; assumption.
    + destruct FP as [_ [H _]]. rewrite Nat.sub_0_r in H. apply produced_handler; [exact Hwf|].
      unfold handler_is, info. rewrite H. apply Nat.eqb_refl.
    + apply produced_orphan; [exact Hwf|exact R0|]. intros n. unfold tcount.
      destruct (Nat.lt_ge_cases n (length nt)) as [Ln|Ln]; [apply FP; exact Ln|].
      rewrite info_out_of_range by exact Ln. reflexivity.
Qed.

(* ---------------- nothing pending once every goroutine is gone ---------------- *)
Lemma sumf_zero {A} (f : A -> nat) l : (forall a, In a l -> f a = 0) -> sumf f l = 0.
Proof.
  induction l as [|a l IH]; intros H; cbn; [reflexivity|].
  rewrite (H a (or_introl eq_refl)), IH; [reflexivity|]. intros b Hb; apply H; right; exact Hb.
Qed.

Lemma wpend_exit c x w : wexit w = true -> wpend c x w = 0.
Proof. destruct w; cbn; try discriminate; reflexivity. Qed.

Lemma nothing_pending s c x :
  mn s = MDone -> cbs s = [] ->
  (forall n, n < length (nodes s) -> forallb wexit (ws (node s n)) = true) ->
  pending c x s = 0.
Proof.
  intros Hm Hc Hw. unfold pending, pend_main, pend_cbs, pend_workers. rewrite Hm, Hc. cbn.
  rewrite ?Nat.add_0_r. apply sumf_zero. intros ns Hin.
  apply In_nth with (d := dummy_ns) in Hin as (n & Hn & En).
  specialize (Hw n Hn). unfold node in Hw. rewrite En in Hw.
  apply sumf_zero. intros w Hinw. apply wpend_exit. rewrite forallb_forall in Hw. apply Hw. exact Hinw.
Qed.
