(* E1 — soundness of the end-of-run specification: after a clean return of Execute (main is MDone
   without timeout) the trace and the counters satisfy [terminal_ok] (Model/TraceSpec.v): every node
   was offered exactly its supply (minus counted discards), processed everything it was handed,
   and its counters add up (C01, C02, C03 clause 7, C04, C16). *)
From Coq Require Import List ZArith Bool Arith Lia.
From FB Require Import Model.Exec Model.TraceSpec Model.ExecInv.
From FB Require Proofs.ExecBase Proofs.ExecCount Proofs.ExecMain.
From FB Require Import Proofs.ExecLifeBase Proofs.ExecLife Proofs.ExecLink Proofs.ExecSpec.
Import ListNotations.
Local Open Scope nat_scope.

(* ------------------------------------------------------------------ multisets by counting *)
Lemma sub_multiset_count : forall a b, (forall x, count_item x a <= count_item x b) -> sub_multiset a b = true.
Proof.
  induction a as [|y a IH]; intros b H; [reflexivity|].
  cbn [sub_multiset].
  destruct (ExecBase.remove_one_some y b) as [b' E].
  { specialize (H y). cbn [count_item] in H. rewrite ExecBase.item_eqb_refl in H. lia. }
  rewrite E. apply IH. intros x. specialize (H x). cbn [count_item] in H.
  rewrite (ExecBase.count_item_remove_one _ _ _ E x) in H. lia.
Qed.

Lemma same_multiset_count : forall a b, (forall x, count_item x a = count_item x b) -> same_multiset a b = true.
Proof.
  intros a b H. unfold same_multiset.
  rewrite (ExecBase.count_item_all_length a b H), Nat.eqb_refl.
  apply sub_multiset_count. intros x. rewrite H. lia.
Qed.

(* ------------------------------------------------------------------ node_terminal from its clauses *)
Lemma node_terminal_ok : forall nt p n ks,
  (if ndisc (info nt n)
   then sub_multiset (entered n p) (supply nt n p) = true /\ length (entered n p) + k_disc ks = length (supply nt n p)
   else same_multiset (entered n p) (supply nt n p) = true /\ k_disc ks = 0) ->
  same_multiset (rets n p) (entered n p) = true ->
  same_multiset (cbacks n p) (laters n p) = true ->
  k_recv ks = length (entered n p) -> k_proc ks = n_proc n p -> k_filt ks = n_filt n p -> k_fail ks = n_fail n p ->
  k_recv ks = k_proc ks + k_filt ks + k_fail ks ->
  node_terminal nt p n ks = [].
Proof.
  intros nt p n ks H1 H2 H3 H4 H5 H6 H7 H8. unfold node_terminal.
  rewrite H2, H3.
  replace (k_recv ks =? length (entered n p)) with true by (symmetry; apply Nat.eqb_eq; auto).
  replace (k_proc ks =? n_proc n p) with true by (symmetry; apply Nat.eqb_eq; auto).
  replace (k_filt ks =? n_filt n p) with true by (symmetry; apply Nat.eqb_eq; auto).
  replace (k_fail ks =? n_fail n p) with true by (symmetry; apply Nat.eqb_eq; auto).
  replace (k_recv ks =? k_proc ks + k_filt ks + k_fail ks) with true by (symmetry; apply Nat.eqb_eq; auto).
  destruct (ndisc (info nt n)).
  - destruct H1 as [A B]. rewrite A.
    replace (length (entered n p) + k_disc ks =? length (supply nt n p)) with true by (symmetry; apply Nat.eqb_eq; auto).
    reflexivity.
  - destruct H1 as [A B]. rewrite A.
    replace (k_disc ks =? 0) with true by (symmetry; apply Nat.eqb_eq; auto).
    reflexivity.
Qed.

Lemma terminal_from_ok : forall nt p l i,
  (forall j, j < length l -> node_terminal nt p (i + j) (counters_of (nth j l dummy_ns)) = []) ->
  terminal_from nt p i (map counters_of l) = [].
Proof.
  intros nt p l. induction l as [|x l IH]; intros i H; [reflexivity|].
  cbn [map terminal_from].
  pose proof (H 0 ltac:(cbn; lia)) as H0. rewrite Nat.add_0_r in H0. cbn [nth] in H0. rewrite H0.
  apply IH. intros j Hj. specialize (H (S j) ltac:(cbn; lia)). cbn [nth] in H.
  replace (S i + j) with (i + S j) by lia. exact H.
Qed.

(* ------------------------------------------------------------------ the clean end *)
Theorem terminal_ok_clean_end : forall nt T s, wf_net nt = true -> forallb (fun x => 0 <? nworkers x) nt = true ->
  reachable nt T s -> mn s = MDone -> timedout s = false ->
  terminal_ok nt (tr s) (map counters_of (nodes s)) = [].
Proof.
  intros nt T s Hwf Hpos HR Hm Ht.
  destruct (clean_done nt T s Hwf HR Hm Ht) as [Hcbs Hnodes].
  destruct (life'_reachable nt T s Hwf HR) as [[Hlen Hws] I].
  pose proof (ExecCount.count_inv_reachable nt T s HR) as C.
  destruct C as (Ccons & Cchan & _ & Cnodrop & Ccnt & Ccalls & Cflight & _).
  unfold terminal_ok. rewrite map_length, Hlen, Nat.eqb_refl. cbn [app].
  apply terminal_from_ok. intros n Hn. cbn [plus]. rewrite Hlen in Hn. fold (node s n).
  destruct (Hnodes n Hn) as (Hex & Hfl & Hrest).
  destruct (Hrest (nworkers_pos nt n Hpos Hn)) as (Ho & Hq & Hcl).
  assert (Hnw : forall m st, In st (ws (node s m)) -> m < length nt -> wexit st = true).
  { intros m st Hin Hlt. destruct (Hnodes m Hlt) as (Hexm & _). rewrite forallb_forall in Hexm. auto. }
  (* nothing is pending anywhere *)
  assert (Hpend : forall x, pending n x s = 0).
  { intros x. unfold pending, pend_workers, pend_cbs, pend_main. rewrite Hcbs, Hm. cbn [sumf].
    rewrite ExecBase.sumf_zero; [reflexivity|].
    intros ns Hin. apply In_nth with (d := dummy_ns) in Hin. destruct Hin as (m & Hmlt & <-).
    fold (node s m). apply ExecBase.sumf_zero. intros st Hst.
    specialize (Hnw m st Hst ltac:(lia)). destruct st; try discriminate. reflexivity. }
  assert (Hproc : forall x, sumf (wproc x) (ws (node s n)) = 0).
  { intros x. apply ExecBase.sumf_zero. intros st Hst. specialize (Hnw n st Hst Hn).
    destruct st; try discriminate. reflexivity. }
  assert (Esup : forall x, count_item x (supply nt n (tr s))
                           = count_item x (entered n (tr s)) + count_item x (dropped (node s n))).
  { intros x. rewrite <- produced_supply by assumption. rewrite (Ccons n x), (Cchan n x), Hq, (Hpend x). cbn. lia. }
  assert (Hn2 : n < length (nodes s)) by lia.
  destruct (Ccnt n Hn2) as (K1 & K2 & K3 & K4 & K5).
  apply node_terminal_ok; cbn [counters_of k_recv k_proc k_filt k_fail k_disc]; auto.
  - destruct (ndisc (info nt n)) eqn:Ed.
    + split.
      * apply sub_multiset_count. intros x. rewrite (Esup x). lia.
      * rewrite K5, <- app_length. apply ExecBase.count_item_all_length. intros x.
        rewrite ExecBase.count_item_app. symmetry. apply Esup.
    + pose proof (Cnodrop n Ed) as Hd. split.
      * apply same_multiset_count. intros x. rewrite (Esup x), Hd. cbn. lia.
      * rewrite K5, Hd. reflexivity.
  - apply same_multiset_count. intros x. rewrite (Ccalls n x), (Hproc x). lia.
  - apply same_multiset_count. intros x. rewrite (Cflight n x), Hfl. cbn. lia.
  - pose proof (ExecCount.accounting_identity nt T s n HR Hn) as Hacc.
    rewrite Hfl in Hacc. cbn [length] in Hacc.
    assert (Hz : length (filter (fun w => match w with WProc _ => true | _ => false end) (ws (node s n))) = 0).
    { rewrite filter_none; auto. intros i a Hi. apply nth_error_In in Hi. specialize (Hnw n a Hi Hn).
      destruct a; try discriminate; reflexivity. }
    rewrite Hz in Hacc. lia.
Qed.

(* C01..C05, C16, C18: a clean run satisfies the whole specification *)
Theorem spec_sound_clean_run : forall nt T s, wf_net nt = true -> forallb (fun x => 0 <? nworkers x) nt = true ->
  reachable nt T s -> mn s = MDone -> timedout s = false ->
  trace_ok nt (tr s) = [] /\ terminal_ok nt (tr s) (map counters_of (nodes s)) = [].
Proof.
  intros. split.
  - eapply trace_ok_reachable; eauto.
  - eapply terminal_ok_clean_end; eauto.
Qed.

Print Assumptions terminal_ok_clean_end.
Print Assumptions spec_sound_clean_run.
