(* E1 — the property-level corollaries of the invariants, in the vocabulary of the properties. *)
From Coq Require Import List ZArith Bool Arith Lia.
From FB Require Import Model.Exec Model.TraceSpec Model.ExecInv.
From FB Require Proofs.ExecBase Proofs.ExecCount Proofs.ExecSupply Proofs.ExecFeed Proofs.ExecLife Proofs.ExecLink
                Proofs.ExecSpec Proofs.ExecTerminal.
Import ListNotations.
Local Open Scope nat_scope.

(* the quantifier shared by C01-C05, C16: a well-formed network (Model/ExecInv.wf_net) whose nodes all have
   at least one worker (config.Read defaults workers to 1), any schedule *)
Definition good_net (nt : net) : Prop :=
  wf_net nt = true /\ forallb (fun x => 0 <? nworkers x) nt = true.

(* ---------------- C01 / C02 / C04: conservation, channel by channel ---------------- *)
(* what node c's feeder produced for it (source emissions for a root, the parent's results for a child, the
   parent's failure reports for an error handler) = what was enqueued + what was discarded at its full
   buffer + what some goroutine still has to deliver *)
Theorem channel_conservation : forall nt T s c x,
  wf_net nt = true -> reachable nt T s -> c < length nt ->
  count_item x (supply nt c (tr s))
  = count_item x (offered (node s c)) + count_item x (dropped (node s c)) + pending c x s.
Proof.
  intros nt T s c x Hwf Hr Hc.
  destruct (ExecCount.count_inv_reachable nt T s Hr) as (Hcons & _).
  rewrite <- (ExecFeed.produced_supply nt c x (tr s) Hwf Hc). apply Hcons.
Qed.

(* ... and what was enqueued is still buffered or was handed to the node's Process / ProcessAsync *)
Theorem offered_split : forall nt T s c x, reachable nt T s ->
  count_item x (offered (node s c)) = count_item x (q (node s c)) + count_item x (entered c (tr s)).
Proof.
  intros nt T s c x Hr. destruct (ExecCount.count_inv_reachable nt T s Hr) as (_ & Hchan & _). apply Hchan.
Qed.

(* nothing reaches a node that its feeder did not produce for it, in any reachable state *)
Theorem entered_le_supply : forall nt T s c x,
  wf_net nt = true -> reachable nt T s -> c < length nt ->
  count_item x (entered c (tr s)) <= count_item x (supply nt c (tr s)).
Proof.
  intros nt T s c x Hwf Hr Hc.
  pose proof (channel_conservation nt T s c x Hwf Hr Hc). pose proof (offered_split nt T s c x Hr). lia.
Qed.

(* without discard_on_full_buffer nothing is ever dropped: every produced item is buffered, handed over, or
   still with a (waiting) sender *)
Theorem no_loss_without_discard : forall nt T s c x,
  wf_net nt = true -> reachable nt T s -> c < length nt -> ndisc (info nt c) = false ->
  dropped (node s c) = []
  /\ count_item x (supply nt c (tr s))
     = count_item x (q (node s c)) + count_item x (entered c (tr s)) + pending c x s.
Proof.
  intros nt T s c x Hwf Hr Hc Hd.
  destruct (ExecCount.count_inv_reachable nt T s Hr) as (_ & _ & _ & Hnd & _).
  pose proof (Hnd c Hd) as E. split; [exact E|].
  pose proof (channel_conservation nt T s c x Hwf Hr Hc) as C. pose proof (offered_split nt T s c x Hr) as O.
  rewrite E in C. cbn in C. lia.
Qed.

(* filtered and failed events are offered to no child; a failure goes to the node's own handler only *)
Lemma filtered_offers_nothing : forall nt n it, deliveries nt n it (ORes []) = [].
Proof. intros. cbn. induction (nkids (info nt n)); cbn; auto. Qed.
Lemma later_offers_nothing : forall nt n it, deliveries nt n it OLater = [].
Proof. reflexivity. Qed.
Lemma failure_goes_to_own_handler : forall nt n it err d,
  In d (deliveries nt n it (OFail err)) -> nhandler (info nt n) = Some (fst d) /\ snd d = (fst it, err).
Proof.
  intros nt n it err d. cbn. destruct (nhandler (info nt n)) as [h|]; cbn; [|contradiction].
  intros [<-|[]]. auto.
Qed.
Lemma failure_without_handler_offers_nothing : forall nt n it err,
  nhandler (info nt n) = None -> deliveries nt n it (OFail err) = [].
Proof. intros nt n it err H. cbn. rewrite H. reflexivity. Qed.
Lemma results_go_to_children_only : forall nt n it es d,
  In d (deliveries nt n it (ORes es)) -> In (fst d) (nkids (info nt n)) /\ exists e, In e es /\ snd d = (e, 0%Z).
Proof.
  intros nt n it es d. cbn. rewrite in_flat_map. intros (c & Hc & Hd). rewrite in_map_iff in Hd.
  destruct Hd as (e & <- & He). cbn. split; [exact Hc|]. exists e. auto.
Qed.

(* every result is decided for every child exactly once: the delivery list of a result is, child by child,
   one copy of each result *)
Lemma each_child_each_result_once : forall nt n it es c x,
  cnt_pair c x (deliveries nt n it (ORes es))
  = cnt_nat c (nkids (info nt n)) * count_item x (map (fun e => (e, 0%Z)) es).
Proof. intros. cbn [deliveries]. apply ExecSupply.cnt_pair_deliv_kids. Qed.

(* ---------------- the end of a clean run: exactness ---------------- *)
Theorem clean_end_exact : forall nt T s c x,
  good_net nt -> reachable nt T s -> mn s = MDone -> timedout s = false -> c < length nt ->
  count_item x (supply nt c (tr s)) = count_item x (entered c (tr s)) + count_item x (dropped (node s c))
  /\ q (node s c) = [] /\ pending c x s = 0.
Proof.
  intros nt T s c x [Hwf Hpos] Hr Hm Ht Hc.
  destruct (ExecLife.clean_done nt T s Hwf Hr Hm Ht) as [Hcbs Hn].
  destruct (ExecCount.count_inv_reachable nt T s Hr) as (_ & _ & _ & _ & _ & _ & _ & [Hlen _]).
  assert (Hp : pending c x s = 0).
  { apply ExecFeed.nothing_pending; auto. intros n Ln. rewrite Hlen in Ln. apply (Hn n Ln). }
  assert (Hw : 0 < nworkers (info nt c)).
  { rewrite forallb_forall in Hpos. unfold info. apply Nat.ltb_lt. apply Hpos. apply nth_In. exact Hc. }
  destruct (Hn c Hc) as (_ & _ & Hrest). destruct (Hrest Hw) as (_ & Hq & _).
  pose proof (channel_conservation nt T s c x Hwf Hr Hc) as C. pose proof (offered_split nt T s c x Hr) as O.
  rewrite Hq in O. cbn in O. repeat split; auto. lia.
Qed.

(* ---------------- C16: counters ---------------- *)
Theorem counters_meaning : forall nt T s n, reachable nt T s -> n < length nt ->
  c_recv (node s n) = length (entered n (tr s)) /\ c_proc (node s n) = n_proc n (tr s)
  /\ c_filt (node s n) = n_filt n (tr s) /\ c_fail (node s n) = n_fail n (tr s)
  /\ c_disc (node s n) = length (dropped (node s n)).
Proof.
  intros nt T s n Hr Hn.
  destruct (ExecCount.count_inv_reachable nt T s Hr) as (_ & _ & _ & _ & Hc & _ & _ & [Hlen _]).
  apply Hc. rewrite Hlen. exact Hn.
Qed.

(* a step of node n (its worker, or a callback of it) changes no counter of another node, except the discard
   counter of the node it delivers to *)
