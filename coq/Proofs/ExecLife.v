(* E1 — lifecycle / safety invariants of the executor model (statements: Model/ExecInv.v, [inv_life]).
   The inductive invariant is [inv_life'] (pointwise form of L1..L9 plus three auxiliary clauses);
   [inv_life'_life] derives [inv_life] from it.  Main results: [life_inv_reachable], [step_no_panic],
   [run_no_panic] and the shutdown-cascade corollaries at the end of this file.
   [inv_life] alone is not inductive ([inv_life_alone_not_inductive]), hence [life_inv_step] is stated for
   [inv_life']. *)
From Coq Require Import List ZArith Bool Arith Lia.
From FB Require Import Model.Exec Model.TraceSpec Model.ExecInv Proofs.ExecLifeBase.
Import ListNotations.
Local Open Scope nat_scope.

(* ------------------------------------------------------------------ the strengthened invariant *)
Definition wlate (w : wstate) : bool :=   (* WaitGroup.Wait has returned for this worker *)
  match w with WWaited | WInShut | WClosing | WExit => true | _ => false end.
Definition isclosing (w : wstate) : bool := match w with WClosing => true | _ => false end.

(* per-node clauses over the lifecycle-relevant fields of a node:
   W = ws, O = once, C = closed, Q = q, F = inflight, B = "a callback thread of this node exists" *)
Record nok (nt : net) (n : nat) (W : list wstate) (O : ostate) (C : bool) (Q F : list item) (B : bool) : Prop := {
  n1 : O <> ONone -> forall w st, nth_error W w = Some st -> wpast st = true;
  n2 : forall w st, nth_error W w = Some st -> wpast st = true -> C = true /\ Q = [];
  n3 : length (filter is_running_once W) = match O with ORunning => 1 | _ => 0 end;
  n4 : forall w, nth_error W w = Some WExit -> O = ODone;
  n5a : O = ODone -> F = [] /\ B = false;
  n5b : forall w, nth_error W w = Some WClosing -> F = [] /\ B = false;
  n9 : forall w p, nth_error W w = Some (WSend p) ->
         p <> [] /\ forall d, In d p -> In (fst d) (targets (info nt n));
  (* aux: WaitGroup.Wait returns only when every worker has seen the closed channel, and that is stable *)
  nx1 : forall w st w' st', nth_error W w = Some st -> wlate st = true -> nth_error W w' = Some st' -> wpast st' = true;
  (* aux: a node without workers never accepts an async event *)
  nx2 : W = [] -> F = [] /\ B = false
}.

Definition node_ok (nt : net) (s : state) (n : nat) : Prop :=
  nok nt n (ws (node s n)) (once (node s n)) (closed (node s n)) (q (node s n)) (inflight (node s n))
      (existsb (owns n) (cbs s)).

Definition cb_ok (nt : net) (cb : nat * list (nat * item)) : Prop :=
  fst cb < length nt /\ snd cb <> [] /\ forall d, In d (snd cb) -> In (fst d) (targets (info nt (fst cb))).
Definition mn_ok (nt : net) (m : mstate) : Prop :=
  forall it rs, m = MDeliver it rs -> rs <> [] /\ forall r, In r rs -> In r (roots nt).

Record inv_life' (nt : net) (s : state) : Prop := {
  i_nodes : forall n, n < length nt -> node_ok nt s n;
  i_g6 : forall n c, n < length nt -> In c (targets (info nt n)) -> closed (node s c) = true -> once (node s n) = ODone;
  i_g7 : forall r, In r (roots nt) -> closed (node s r) = true -> main_past_loop s = true;
  i_g8 : forall cb, In cb (cbs s) -> cb_ok nt cb;
  i_g9 : mn_ok nt (mn s);
  (* aux: a clean return of Execute means WaitGroup.Wait of waitTimeout returned: every worker has left *)
  i_gx : mn s = MDone -> timedout s = false ->
         forall n w st, n < length nt -> nth_error (ws (node s n)) w = Some st -> st = WExit
}.

(* ------------------------------------------------------------------ tactics for worker updates *)
Ltac pose_new H :=
  let T := type of H in
  lazymatch goal with
  | _ : T |- _ => fail
  | _ => pose proof H
  end.

Ltac upd_cases :=
  repeat match goal with
  | H : nth_error (upd _ _ _) _ = Some _ |- _ =>
      apply nth_error_upd_inv in H; destruct H as [[? ?]|[? ?]]; subst
  end.

(* saturate with the consequences of the old per-node invariant for every known worker state *)
Ltac sat Hok :=
  repeat match goal with
  | H : nth_error _ _ = Some ?st |- _ => pose_new (fun HO => n1 _ _ _ _ _ _ _ _ Hok HO _ _ H)
  | H : nth_error _ _ = Some ?st |- _ => pose_new (n2 _ _ _ _ _ _ _ _ Hok _ _ H)
  | H : nth_error _ _ = Some WExit |- _ => pose_new (n4 _ _ _ _ _ _ _ _ Hok _ H)
  | H : nth_error _ _ = Some WClosing |- _ => pose_new (n5b _ _ _ _ _ _ _ _ Hok _ H)
  | H : nth_error _ _ = Some (WSend _) |- _ => pose_new (n9 _ _ _ _ _ _ _ _ Hok _ _ H)
  | H : nth_error _ ?w = Some ?st, H' : nth_error _ ?w' = Some ?st' |- _ =>
      pose_new (fun Hl => nx1 _ _ _ _ _ _ _ _ Hok _ _ _ _ H Hl H')
  end.

Ltac fin :=
  repeat match goal with
  | H : WSend _ = WSend _ |- _ => inversion H; clear H; subst
  | H : WSend _ = _ |- _ => try discriminate H
  | H : _ = WSend _ |- _ => try discriminate H
  end;
  cbn [wpast wlate wexit is_running_once isclosing] in *;
  try solve [intuition (try congruence; try discriminate; eauto with datatypes)].

(* goal: [nok nt n (upd w st W) O' C' Q' F' B'] from [Hok : nok nt n W O C Q F B] and [Hg : nth_error W w = Some st0] *)
Ltac wtac Hok Hg :=
  constructor;
  [ (* n1 *) intros HO w1 st1 H1; upd_cases; sat Hok; fin
  | (* n2 *) intros w1 st1 H1 Hp; upd_cases; sat Hok; fin
  | (* n3 *) (match goal with |- context [filter is_running_once (upd ?w ?x ?W)] =>
                let Hc := fresh "Hcnt" in
                pose proof (filter_upd_count _ is_running_once w x W _ Hg) as Hc; cbn [is_running_once] in Hc end);
             pose proof (n3 _ _ _ _ _ _ _ _ Hok) as Hold; sat Hok;
             try lia; fin; try lia
  | (* n4 *) intros w1 H1; upd_cases; sat Hok; fin
  | (* n5a *) intros HO; pose proof (n5a _ _ _ _ _ _ _ _ Hok); sat Hok; fin
  | (* n5b *) intros w1 H1; upd_cases; sat Hok; fin
  | (* n9 *) intros w1 p1 H1; upd_cases; sat Hok; fin
  | (* nx1 *) intros w1 st1 w2 st2 H1 Hl H2; upd_cases; sat Hok; fin
  | (* nx2 *) intros HW; exfalso;
              apply nth_error_some_lt in Hg; apply (f_equal (@length _)) in HW;
              rewrite upd_length in HW; cbn in HW; lia ].

(* ------------------------------------------------------------------ generic preservation lemmas *)
(* the invariant does not look at the trace, the source, the clock *)
Lemma inv_life'_ext : forall nt s s',
  nodes s' = nodes s -> cbs s' = cbs s -> mn s' = mn s -> timedout s' = timedout s ->
  inv_life' nt s -> inv_life' nt s'.
Proof.
  intros nt s s' Hn Hc Hm Ht I.
  assert (Hnode : forall m, node s' m = node s m) by (intros; unfold node; rewrite Hn; auto).
  destruct I as [A B C D E F].
  constructor; unfold node_ok, main_past_loop in *; intros; repeat rewrite Hnode in *; rewrite ?Hc, ?Hm, ?Ht in *; eauto.
Qed.

Lemma inv_life'_log : forall nt s es, inv_life' nt s -> inv_life' nt (log s es).
Proof. intros. apply (inv_life'_ext nt s (log s es)); try reflexivity; assumption. Qed.

(* a worker of node n moves; the node's channel, the callback threads and main are untouched *)
Lemma life_local : forall nt s n x',
  inv_life' nt s -> n < length nt -> n < length (nodes s) ->
  closed x' = closed (node s n) ->
  (once (node s n) = ODone -> once x' = ODone) ->
  nok nt n (ws x') (once x') (closed x') (q x') (inflight x') (existsb (owns n) (cbs s)) ->
  (mn s = MDone -> timedout s = false -> forall w st, nth_error (ws x') w = Some st -> st = WExit) ->
  inv_life' nt (set_node s n x').
Proof.
  intros nt s n x' I Hn Hn' Hcl Hon Hok Hx.
  destruct I as [A B C D E F].
  assert (Hcl' : forall m, closed (node (set_node s n x') m) = closed (node s m)).
  { intros m. destruct (Nat.eq_dec m n) as [->|Hm].
    - rewrite node_set_node_eq; auto. - rewrite node_set_node_neq; auto. }
  assert (Hon' : forall m, once (node s m) = ODone -> once (node (set_node s n x') m) = ODone).
  { intros m. destruct (Nat.eq_dec m n) as [->|Hm].
    - rewrite node_set_node_eq; auto. - rewrite node_set_node_neq; auto. }
  constructor; autorewrite with fb.
  - intros m Hm. unfold node_ok. autorewrite with fb. destruct (Nat.eq_dec m n) as [->|Hmn].
    + rewrite node_set_node_eq by assumption. exact Hok.
    + rewrite node_set_node_neq by congruence. apply A; auto.
  - intros m c Hm Hc Hclosed. rewrite Hcl' in Hclosed. apply Hon'. eapply B; eauto.
  - intros r Hr Hclosed. rewrite Hcl' in Hclosed. unfold main_past_loop. autorewrite with fb. eapply C; eauto.
  - exact D.
  - exact E.
  - intros Hm Ht m w st Hlt Hnth. destruct (Nat.eq_dec m n) as [->|Hmn].
    + rewrite node_set_node_eq in Hnth by assumption. eapply Hx; eauto.
    + rewrite node_set_node_neq in Hnth by congruence. eapply F; eauto.
Qed.

(* a successful delivery: the target is open, so (N2) none of its workers has seen it closed and the
   buffer content is unconstrained *)
Lemma life_try_send : forall nt s c it s1,
  inv_shape nt s -> inv_life' nt s -> try_send nt s c it = Sent s1 -> inv_life' nt s1.
Proof.
  intros nt s c it s1 [Hlen _] I H.
  apply try_send_sent in H. destruct H as (Hc & Hsl & Hne & Hlen1 & Hcbs & Hmn & Hto & _).
  destruct I as [A B C D E F].
  constructor; unfold main_past_loop; rewrite ?Hcbs, ?Hmn, ?Hto.
  - intros m Hm. unfold node_ok. rewrite Hcbs. destruct (Hsl m) as (a & b & c0 & d). rewrite a, b, c0, d.
    destruct (Nat.eq_dec m c) as [->|Hmc].
    + specialize (A c Hm). unfold node_ok in A. rewrite Hc in *.
      destruct A. constructor; auto.
      intros w st Hw Hp. destruct (n6 w st Hw Hp). discriminate.
    + rewrite (Hne m Hmc). apply A; auto.
  - intros n c' Hn Hin Hcl. destruct (Hsl c') as (_ & _ & c0 & _). destruct (Hsl n) as (_ & b & _ & _).
    rewrite c0 in Hcl. rewrite b. eapply B; eauto.
  - intros r Hr Hcl. destruct (Hsl r) as (_ & _ & c0 & _). rewrite c0 in Hcl. eapply C; eauto.
  - exact D.
  - exact E.
  - intros Hm Ht m w st Hlt Hnth. destruct (Hsl m) as (a & _). rewrite a in Hnth. eapply F; eauto.
Qed.

(* callback threads only disappear or advance *)
Lemma life_set_cbs : forall nt s cbs',
  inv_life' nt s ->
  (forall m, existsb (owns m) cbs' = true -> existsb (owns m) (cbs s) = true) ->
  (forall cb, In cb cbs' -> cb_ok nt cb) ->
  inv_life' nt (set_cbs s cbs').
Proof.
  intros nt s cbs' I Hex Hok. destruct I as [A B C D E F].
  constructor; unfold main_past_loop; autorewrite with fb; auto.
  intros m Hm. unfold node_ok. autorewrite with fb. specialize (A m Hm). unfold node_ok in A.
  assert (HB : existsb (owns m) (cbs s) = false -> existsb (owns m) cbs' = false).
  { intros HH. destruct (existsb (owns m) cbs') eqn:EE; auto. apply Hex in EE. congruence. }
  destruct A. constructor; auto.
  - intros HO. destruct (n5a0 HO). auto.
  - intros w Hw. destruct (n5b0 w Hw). auto.
  - intros HW. destruct (nx4 HW). auto.
Qed.

(* main moves on *)
Lemma life_set_mn : forall nt s m',
  inv_life' nt s ->
  (main_past_loop s = true -> match m' with MWait | MDone => True | _ => False end) ->
  mn_ok nt m' ->
  (m' = MDone -> timedout s = false ->
     forall n w st, n < length nt -> nth_error (ws (node s n)) w = Some st -> st = WExit) ->
  inv_life' nt (set_mn s m').
Proof.
  intros nt s m' I Hp Hok Hx. destruct I as [A B C D E F].
  constructor; autorewrite with fb; auto.
  intros r Hr Hcl. unfold main_past_loop. autorewrite with fb. specialize (Hp (C r Hr Hcl)).
  destruct m'; auto; contradiction.
Qed.

(* ------------------------------------------------------------------ the worker-local actions *)
Lemma life_Deq : forall nt T s n w s', inv_shape nt s -> inv_life' nt s ->
  step nt T s (Deq n w) = Ok s' -> inv_life' nt s'.
Proof.
  intros nt T s n w s' [Hlen Hws] I H. cbn [step] in H.
  destruct (nth_error (ws (node s n)) w) as [[]|] eqn:Hg; try discriminate.
  destruct (q (node s n)) as [|it rest] eqn:Hq; try discriminate.
  inversion H; subst s'; clear H.
  pose proof (node_ws_some_lt _ _ _ _ Hg) as Hn.
  assert (Hn' : n < length nt) by lia.
  pose proof (i_nodes _ _ I n Hn') as Hok. unfold node_ok in Hok. rewrite Hq in Hok.
  apply inv_life'_log. apply life_local; auto; cbn [ws once closed q inflight].
  - wtac Hok Hg.
  - intros Hm Ht. pose proof (i_gx _ _ I Hm Ht n w _ Hn' Hg). discriminate.
Qed.

Lemma life_Return : forall nt T s n w o s', inv_shape nt s -> inv_life' nt s ->
  step nt T s (Return n w o) = Ok s' -> inv_life' nt s'.
Proof.
  intros nt T s n w o s' [Hlen Hws] I H. cbn [step] in H.
  destruct (nth_error (ws (node s n)) w) as [[| it | | | | | |]|] eqn:Hg; try discriminate.
  destruct (outcome_ok _ _ _); try discriminate.
  pose proof (node_ws_some_lt _ _ _ _ Hg) as Hn.
  assert (Hn' : n < length nt) by lia.
  pose proof (i_nodes _ _ I n Hn') as Hok. unfold node_ok in Hok.
  assert (Hgx : mn s = MDone -> timedout s = false -> False).
  { intros Hm Ht. pose proof (i_gx _ _ I Hm Ht n w _ Hn' Hg). discriminate. }
  assert (Hgen : forall o, o <> OLater ->
     inv_life' nt (log (set_node s n (set_worker (count_outcome (node s n) o) w (after_deliveries (deliveries nt n it o)))) [TRet n it o])).
  { intros o' _. apply inv_life'_log. apply life_local; auto; autorewrite with fb; auto.
    - pose proof (deliveries_targets nt n it o') as Hdel.
      destruct (deliveries nt n it o') as [|d l]; cbn [after_deliveries]; wtac Hok Hg.
    - intros Hm Ht. destruct (Hgx Hm Ht). }
  destruct o.
  - injection H as <-. apply (Hgen (ORes es)). discriminate.
  - injection H as <-. apply (Hgen (OFail err)). discriminate.
  - injection H as <-. apply inv_life'_log. apply life_local; auto; cbn [ws once closed q inflight].
    + wtac Hok Hg.
    + intros Hm Ht. destruct (Hgx Hm Ht).
Qed.

Lemma life_SeeClosed : forall nt T s n w s', inv_shape nt s -> inv_life' nt s ->
  step nt T s (SeeClosed n w) = Ok s' -> inv_life' nt s'.
Proof.
  intros nt T s n w s' [Hlen Hws] I H. cbn [step] in H.
  destruct (nth_error (ws (node s n)) w) as [[]|] eqn:Hg; try discriminate.
  destruct (q (node s n)) as [|it rest] eqn:Hq; try discriminate.
  destruct (closed (node s n)) eqn:Hc; try discriminate.
  inversion H; subst s'; clear H.
  pose proof (node_ws_some_lt _ _ _ _ Hg) as Hn.
  assert (Hn' : n < length nt) by lia.
  pose proof (i_nodes _ _ I n Hn') as Hok. unfold node_ok in Hok. rewrite Hq, Hc in Hok.
  apply life_local; auto; autorewrite with fb; auto; rewrite ?Hq, ?Hc.
  - wtac Hok Hg.
  - intros Hm Ht. pose proof (i_gx _ _ I Hm Ht n w _ Hn' Hg). discriminate.
Qed.

Lemma life_LastOut : forall nt T s n w s', inv_shape nt s -> inv_life' nt s ->
  step nt T s (LastOut n w) = Ok s' -> inv_life' nt s'.
Proof.
  intros nt T s n w s' [Hlen Hws] I H. cbn [step] in H.
  destruct (nth_error (ws (node s n)) w) as [[]|] eqn:Hg; try discriminate.
  destruct (forallb wpast (ws (node s n))) eqn:Hall; try discriminate.
  inversion H; subst s'; clear H.
  pose proof (node_ws_some_lt _ _ _ _ Hg) as Hn.
  assert (Hn' : n < length nt) by lia.
  pose proof (i_nodes _ _ I n Hn') as Hok. unfold node_ok in Hok.
  pose proof (fun i a => forallb_nth_error _ wpast _ i a Hall) as Hall'.
  apply life_local; auto; autorewrite with fb; auto.
  - wtac Hok Hg.
  - intros Hm Ht. pose proof (i_gx _ _ I Hm Ht n w _ Hn' Hg). discriminate.
Qed.

Lemma life_OnceEnter : forall nt T s n w s', inv_shape nt s -> inv_life' nt s ->
  step nt T s (OnceEnter n w) = Ok s' -> inv_life' nt s'.
Proof.
  intros nt T s n w s' [Hlen Hws] I H. cbn [step] in H.
  destruct (nth_error (ws (node s n)) w) as [[]|] eqn:Hg; try discriminate.
  destruct (once (node s n)) eqn:Ho; try discriminate.
  inversion H; subst s'; clear H.
  pose proof (node_ws_some_lt _ _ _ _ Hg) as Hn.
  assert (Hn' : n < length nt) by lia.
  pose proof (i_nodes _ _ I n Hn') as Hok. unfold node_ok in Hok. rewrite Ho in Hok.
  apply inv_life'_log. apply life_local; auto; autorewrite with fb; auto.
  - congruence.
  - wtac Hok Hg.
  - intros Hm Ht. pose proof (i_gx _ _ I Hm Ht n w _ Hn' Hg). discriminate.
Qed.

Lemma life_ShutdownReturn : forall nt T s n w s', inv_shape nt s -> inv_life' nt s ->
  step nt T s (ShutdownReturn n w) = Ok s' -> inv_life' nt s'.
Proof.
  intros nt T s n w s' [Hlen Hws] I H. cbn [step] in H.
  destruct (nth_error (ws (node s n)) w) as [[]|] eqn:Hg; try discriminate.
  destruct (inflight (node s n)) eqn:Hf; try discriminate.
  destruct (existsb (owns n) (cbs s)) eqn:Hb; try discriminate.
  inversion H; subst s'; clear H.
  pose proof (node_ws_some_lt _ _ _ _ Hg) as Hn.
  assert (Hn' : n < length nt) by lia.
  pose proof (i_nodes _ _ I n Hn') as Hok. unfold node_ok in Hok. rewrite Hf, Hb in Hok.
  apply inv_life'_log. apply life_local; auto; autorewrite with fb; auto; rewrite ?Hf, ?Hb.
  - wtac Hok Hg.
  - intros Hm Ht. pose proof (i_gx _ _ I Hm Ht n w _ Hn' Hg). discriminate.
Qed.

Lemma life_OnceSkip : forall nt T s n w s', inv_shape nt s -> inv_life' nt s ->
  step nt T s (OnceSkip n w) = Ok s' -> inv_life' nt s'.
Proof.
  intros nt T s n w s' [Hlen Hws] I H. cbn [step] in H.
  destruct (nth_error (ws (node s n)) w) as [[]|] eqn:Hg; try discriminate.
  destruct (once (node s n)) eqn:Ho; try discriminate.
  inversion H; subst s'; clear H.
  pose proof (node_ws_some_lt _ _ _ _ Hg) as Hn.
  assert (Hn' : n < length nt) by lia.
  pose proof (i_nodes _ _ I n Hn') as Hok. unfold node_ok in Hok. rewrite Ho in Hok.
  apply life_local; auto; autorewrite with fb; auto; rewrite ?Ho.
  - wtac Hok Hg.
  - intros Hm Ht. pose proof (i_gx _ _ I Hm Ht n w _ Hn' Hg). discriminate.
Qed.

(* ------------------------------------------------------------------ more generic lemmas *)
(* only main / source / clock / trace change *)
Lemma life_main : forall nt s s',
  nodes s' = nodes s -> cbs s' = cbs s ->
  (main_past_loop s = true -> main_past_loop s' = true) ->
  mn_ok nt (mn s') ->
  (mn s' = MDone -> timedout s' = false ->
     forall n w st, n < length nt -> nth_error (ws (node s n)) w = Some st -> st = WExit) ->
  inv_life' nt s -> inv_life' nt s'.
Proof.
  intros nt s s' Hn Hc Hp Hok Hx I.
  assert (Hnode : forall m, node s' m = node s m) by (intros; unfold node; rewrite Hn; auto).
  destruct I as [A B C D E F].
  constructor; unfold node_ok in *; intros; repeat rewrite Hnode in *; rewrite ?Hc in *; eauto.
Qed.

Lemma nok_closed_mono : forall nt n W O C C' Q F B,
  nok nt n W O C Q F B -> (C = true -> C' = true) -> nok nt n W O C' Q F B.
Proof.
  intros nt n W O C C' Q F B H Hm. destruct H. constructor; auto.
  intros w st Hw Hp. destruct (n6 w st Hw Hp). auto.
Qed.

Lemma running_once_O : forall nt n W O C Q F B w st,
  nok nt n W O C Q F B -> nth_error W w = Some st -> is_running_once st = true -> O = ORunning.
Proof.
  intros nt n W O C Q F B w st H Hw Hr.
  pose proof (n3 _ _ _ _ _ _ _ _ H) as H3.
  assert (In st (filter is_running_once W)).
  { apply filter_In. split; auto. eapply nth_error_In; eauto. }
  destruct (filter is_running_once W); [contradiction|]. cbn in H3. destruct O; auto; discriminate.
Qed.

Lemma owns_app_other : forall m n (pend : list (nat * item)) l, m <> n ->
  existsb (owns m) (l ++ [(n, pend)]) = existsb (owns m) l.
Proof.
  intros. rewrite existsb_app. cbn. unfold owns at 2. cbn.
  replace (n =? m) with false by (symmetry; apply Nat.eqb_neq; congruence).
  rewrite !orb_false_r. reflexivity.
Qed.

(* a new callback thread of node n appears: n's Shutdown has not returned and n has workers *)
Lemma life_add_cb : forall nt s n pend,
  inv_life' nt s -> n < length nt ->
  once (node s n) <> ODone -> (forall w, nth_error (ws (node s n)) w <> Some WClosing) -> ws (node s n) <> [] ->
  cb_ok nt (n, pend) ->
  inv_life' nt (set_cbs s (cbs s ++ [(n, pend)])).
Proof.
  intros nt s n pend I Hn Ho Hc Hw Hok. destruct I as [A B C D E F].
  constructor; unfold main_past_loop; autorewrite with fb; auto.
  - intros m Hm. unfold node_ok. autorewrite with fb. specialize (A m Hm). unfold node_ok in A.
    destruct (Nat.eq_dec m n) as [->|Hmn].
    + destruct A. constructor; auto.
      * intros HO. contradiction.
      * intros w Hw'. destruct (Hc w Hw').
      * intros HW. contradiction.
    + rewrite owns_app_other by assumption. exact A.
  - intros cb Hin. apply in_app_or in Hin. destruct Hin as [Hin|[<-|[]]]; auto.
Qed.

Lemma node_inflight_lt : forall s n, inflight (node s n) <> [] -> n < length (nodes s).
Proof.
  intros. destruct (Nat.lt_ge_cases n (length (nodes s))); auto.
  rewrite node_oob in H by assumption. cbn in H. congruence.
Qed.

(* ------------------------------------------------------------------ deliveries *)
Lemma life_SendW : forall nt T s n w s', inv_shape nt s -> inv_life' nt s ->
  step nt T s (SendW n w) = Ok s' -> inv_life' nt s'.
Proof.
  intros nt T s n w s' Hsh I H. pose proof Hsh as [Hlen Hws]. cbn [step] in H.
  destruct (nth_error (ws (node s n)) w) as [[| |[|[c it] rest]| | | | |]|] eqn:Hg; try discriminate.
  destruct (try_send nt s c it) as [s1| |] eqn:Hts; try discriminate.
  injection H as <-.
  pose proof (life_try_send _ _ _ _ _ Hsh I Hts) as I1.
  apply try_send_sent in Hts. destruct Hts as (Hc & Hsl & Hne & Hlen1 & Hcbs & Hmn & Hto & _).
  pose proof (node_ws_some_lt _ _ _ _ Hg) as Hn.
  assert (Hn' : n < length nt) by lia.
  pose proof (i_nodes _ _ I1 n Hn') as Hok. unfold node_ok in Hok.
  pose proof Hg as Hg1. destruct (Hsl n) as (Hsw & _). rewrite <- Hsw in Hg1.
  apply life_local; auto; autorewrite with fb; auto; try lia.
  - destruct rest as [|p l]; cbn [after_deliveries]; wtac Hok Hg1.
  - intros Hm Ht. rewrite Hmn in Hm. rewrite Hto in Ht. pose proof (i_gx _ _ I Hm Ht n w _ Hn' Hg). discriminate.
Qed.

Lemma life_SendC : forall nt T s i s', inv_shape nt s -> inv_life' nt s ->
  step nt T s (SendC i) = Ok s' -> inv_life' nt s'.
Proof.
  intros nt T s i s' Hsh I H. cbn [step] in H.
  destruct (nth_error (cbs s) i) as [[n [|[c it] rest]]|] eqn:Hg; try discriminate.
  destruct (try_send nt s c it) as [s1| |] eqn:Hts; try discriminate.
  injection H as <-.
  pose proof (life_try_send _ _ _ _ _ Hsh I Hts) as I1.
  apply try_send_sent in Hts. destruct Hts as (Hc & Hsl & Hne & Hlen1 & Hcbs & Hmn & Hto & _).
  rewrite <- Hcbs in Hg.
  assert (Hcb : cb_ok nt (n, (c, it) :: rest)).
  { apply (i_g8 _ _ I1). eapply nth_error_In; eauto. }
  apply life_set_cbs; auto.
  - intros m Hex. destruct rest.
    + apply existsb_remove_at_inv in Hex. exact Hex.
    + apply existsb_upd_inv in Hex. destruct Hex as [Hex|Hex]; auto.
      eapply existsb_nth_error; eauto.
  - intros cb Hin. destruct rest.
    + apply In_remove_at in Hin. apply (i_g8 _ _ I1); auto.
    + apply In_upd in Hin. destruct Hin as [->|Hin]; [|apply (i_g8 _ _ I1); auto].
      destruct Hcb as (a & b & c0). cbn [fst snd] in *. repeat split; auto; [discriminate|].
      intros d Hd. apply c0. right; auto.
Qed.

Lemma life_MainSend : forall nt T s s', inv_shape nt s -> inv_life' nt s ->
  step nt T s MainSend = Ok s' -> inv_life' nt s'.
Proof.
  intros nt T s s' Hsh I H. cbn [step] in H.
  destruct (mn s) as [|it [|r rs]| | |] eqn:Hm; try discriminate.
  destruct (try_send nt s r it) as [s1| |] eqn:Hts; try discriminate.
  injection H as <-.
  pose proof (life_try_send _ _ _ _ _ Hsh I Hts) as I1.
  apply try_send_sent in Hts. destruct Hts as (Hc & Hsl & Hne & Hlen1 & Hcbs & Hmn & Hto & _).
  destruct (i_g9 _ _ I _ _ Hm) as [_ Hrs].
  apply (life_main nt s1); auto.
  - unfold main_past_loop. rewrite Hmn, Hm. discriminate.
  - autorewrite with fb. destruct rs; intros it' rs' E; inversion E; subst. split; [discriminate|].
    intros r' Hr'. apply Hrs. right; auto.
  - autorewrite with fb. destruct rs; discriminate.
Qed.

Lemma life_Callback : forall nt T s n it o s', inv_shape nt s -> inv_life' nt s ->
  step nt T s (Callback n it o) = Ok s' -> inv_life' nt s'.
Proof.
  intros nt T s n it o s' [Hlen Hws] I H. cbn [step] in H.
  destruct (remove_one it (inflight (node s n))) as [rest|] eqn:Hr; try discriminate.
  destruct (outcome_ok _ _ _); try discriminate.
  injection H as <-.
  pose proof (remove_one_some_nonempty _ _ _ Hr) as Hf.
  pose proof (node_inflight_lt _ _ Hf) as Hn.
  assert (Hn' : n < length nt) by lia.
  pose proof (i_nodes _ _ I n Hn') as Hok. unfold node_ok in Hok.
  assert (Ho : once (node s n) <> ODone).
  { intro E. destruct (n5a _ _ _ _ _ _ _ _ Hok E). contradiction. }
  assert (Hcl : forall w, nth_error (ws (node s n)) w <> Some WClosing).
  { intros w E. destruct (n5b _ _ _ _ _ _ _ _ Hok w E). contradiction. }
  assert (Hw : ws (node s n) <> []).
  { intro E. destruct (nx2 _ _ _ _ _ _ _ _ Hok E). contradiction. }
  match goal with |- context [set_node s n ?x] => set (x' := x) end.
  assert (I1 : inv_life' nt (set_node s n x')).
  { apply life_local; auto; subst x'; autorewrite with fb; auto.
    - cbn [ws once closed q inflight]. destruct Hok. constructor; auto.
      + intros E; contradiction.
      + intros w E. destruct (Hcl _ E).
      + intros E; contradiction.
    - cbn [ws]. intros Hm Ht w st Hnth. apply (i_gx _ _ I Hm Ht n w st Hn' Hnth). }
  apply inv_life'_log.
  pose proof (deliveries_targets nt n it o) as Hdel.
  destruct (deliveries nt n it o) as [|d l]; auto.
  change (cbs s) with (cbs (set_node s n x')).
  apply life_add_cb; auto; rewrite ?node_set_node_eq by assumption; subst x'; autorewrite with fb; auto.
  repeat split; cbn [fst snd]; auto. discriminate.
Qed.

(* ------------------------------------------------------------------ the two closing actions *)
Lemma life_CloseKids : forall nt T s n w s', wf_net nt = true -> inv_shape nt s -> inv_life' nt s ->
  step nt T s (CloseKids n w) = Ok s' -> inv_life' nt s'.
Proof.
  intros nt T s n w s' Hwf [Hlen Hws] I H. cbn [step] in H.
  destruct (nth_error (ws (node s n)) w) as [[]|] eqn:Hg; try discriminate.
  destruct (close_all s (targets (info nt n))) as [s1|] eqn:Hca; try discriminate.
  injection H as <-.
  apply close_all_some in Hca.
  destruct Hca as (Hopen & Hsb & Hmono & Hcl & _ & Hlen1 & Hcbs & Hmn & Hto & _).
  pose proof (node_ws_some_lt _ _ _ _ Hg) as Hn.
  assert (Hn' : n < length nt) by lia.
  assert (Hn1 : n < length (nodes s1)) by lia.
  pose proof (i_nodes _ _ I n Hn') as Hok. unfold node_ok in Hok.
  pose proof (running_once_O _ _ _ _ _ _ _ _ _ _ Hok Hg eq_refl) as Ho. rewrite Ho in Hok.
  assert (Hclosed' : forall m, closed (node (set_node s1 n (set_worker (set_once (node s1 n) ODone) w WExit)) m)
                               = closed (node s1 m)).
  { intros m. destruct (Nat.eq_dec m n) as [->|Hm].
    - rewrite node_set_node_eq by assumption. reflexivity.
    - rewrite node_set_node_neq by congruence. reflexivity. }
  destruct I as [A B C D E F].
  constructor; unfold main_past_loop; autorewrite with fb; rewrite ?Hcbs, ?Hmn, ?Hto; auto.
  - intros m Hm. unfold node_ok. autorewrite with fb. rewrite Hcbs.
    destruct (Hsb m) as (a & b & c & d).
    destruct (Nat.eq_dec m n) as [->|Hne].
    + rewrite node_set_node_eq by assumption. autorewrite with fb. rewrite a, c, d.
      apply nok_closed_mono with (C' := closed (node s1 n)) in Hok; [|apply Hmono].
      wtac Hok Hg.
    + rewrite node_set_node_neq by congruence. rewrite a, b, c, d.
      eapply nok_closed_mono; [apply A; auto|apply Hmono].
  - intros m c Hm Hc Hclosed. rewrite Hclosed' in Hclosed.
    assert (Hodone : once (node s m) = ODone -> once (node (set_node s1 n (set_worker (set_once (node s1 n) ODone) w WExit)) m) = ODone).
    { intros HH. destruct (Nat.eq_dec m n) as [->|Hne].
      - rewrite node_set_node_eq by assumption. reflexivity.
      - rewrite node_set_node_neq by congruence. destruct (Hsb m) as (_ & b & _). congruence. }
    apply Hcl in Hclosed. destruct Hclosed as [Hclosed|Hin].
    + apply Hodone. eapply B; eauto.
    + assert (m = n) by (eapply wf_targets_unique; eauto). subst m.
      rewrite node_set_node_eq by assumption. reflexivity.
  - intros r Hr Hclosed. rewrite Hclosed' in Hclosed. apply Hcl in Hclosed. destruct Hclosed as [Hclosed|Hin].
    + apply (C r Hr Hclosed).
    + exfalso. eapply wf_target_not_root; eauto.
  - intros Hm Ht. pose proof (F Hm Ht n w _ Hn' Hg). discriminate.
Qed.

Lemma life_MainCloseRoots : forall nt T s s', wf_net nt = true -> inv_shape nt s -> inv_life' nt s ->
  step nt T s MainCloseRoots = Ok s' -> inv_life' nt s'.
Proof.
  intros nt T s s' Hwf [Hlen Hws] I H. cbn [step] in H.
  destruct (mn s) eqn:Hm; try discriminate.
  destruct (close_all s (roots nt)) as [s1|] eqn:Hca; try discriminate.
  injection H as <-.
  apply close_all_some in Hca.
  destruct Hca as (Hopen & Hsb & Hmono & Hcl & _ & Hlen1 & Hcbs & Hmn & Hto & _).
  destruct I as [A B C D E F].
  match goal with |- inv_life' nt ?x => set (s' := x) end.
  assert (Hnode : forall m, node s' m = node s1 m) by reflexivity.
  constructor; unfold main_past_loop, node_ok; intros; rewrite ?Hnode in *; subst s'; cbn [cbs mn timedout] in *;
    rewrite ?Hcbs; auto; try discriminate.
  - rename n into m. destruct (Hsb m) as (a & b & c & d). rewrite a, b, c, d.
    eapply nok_closed_mono; [apply A; auto|apply Hmono].
  - rename n into m. rename H1 into Hclosed. apply Hcl in Hclosed. destruct Hclosed as [Hclosed|Hin].
    + destruct (Hsb m) as (_ & b & _). rewrite b. eapply B; eauto.
    + exfalso. eapply wf_target_not_root; eauto.
  - apply D. rewrite <- Hcbs. assumption.
Qed.

(* ------------------------------------------------------------------ source / main / clock *)
Lemma life_simple : forall nt T s a s', inv_shape nt s -> inv_life' nt s ->
  match a with
  | SrcEmit _ | SrcReturnNil | SrcReturnErr | SrcRestart | SrcSetupFail
  | MainSeeClosed | MainWgDone | MainTimeout | Tick => True
  | _ => False
  end ->
  step nt T s a = Ok s' -> inv_life' nt s'.
Proof.
  intros nt T s a s' [Hlen Hws] I Ha H.
  destruct a; try contradiction; cbn [step] in H.
  - (* SrcEmit *)
    destruct (src s); try discriminate. destruct (mn s) eqn:Hm; try discriminate.
    injection H as <-. apply inv_life'_log. apply (life_main nt s); auto; autorewrite with fb.
    + unfold main_past_loop. rewrite Hm. discriminate.
    + destruct (roots nt) as [|r rs] eqn:Hr; intros it' rs' E; inversion E; subst. split; [discriminate|]. rewrite Hr; auto.
    + destruct (roots nt); discriminate.
  - destruct (src s); try discriminate. injection H as <-.
    apply inv_life'_log. apply (life_main nt s); auto; try apply (i_g9 _ _ I); try apply (i_gx _ _ I).
  - destruct (src s); try discriminate. injection H as <-.
    apply inv_life'_log. apply (life_main nt s); auto; try apply (i_g9 _ _ I); try apply (i_gx _ _ I).
  - destruct (src s); try discriminate. injection H as <-.
    apply inv_life'_log. apply (life_main nt s); auto; try apply (i_g9 _ _ I); try apply (i_gx _ _ I).
  - (* MainSeeClosed *)
    destruct (mn s) eqn:Hm; try discriminate. destruct (src s); try discriminate. injection H as <-.
    apply (life_main nt s); auto; autorewrite with fb.
    + unfold main_past_loop. rewrite Hm. discriminate.
    + intros it rs E; discriminate.
    + discriminate.
  - (* MainWgDone *)
    destruct (mn s) eqn:Hm; try discriminate. destruct (all_exited s) eqn:Hall; try discriminate. injection H as <-.
    apply inv_life'_log. apply (life_main nt s); auto; autorewrite with fb.
    + intros it rs E; discriminate.
    + intros _ _ n w st Hn Hnth. unfold all_exited in Hall. rewrite forallb_forall in Hall.
      assert (Hn2 : n < length (nodes s)) by lia.
      specialize (Hall (node s n) (node_In _ _ Hn2)).
      pose proof (forallb_nth_error _ _ _ _ _ Hall Hnth). destruct st; try discriminate; auto.
  - (* MainTimeout *)
    destruct (mn s) eqn:Hm; try discriminate. destruct (_ <=? _); try discriminate. injection H as <-.
    apply inv_life'_log. apply (life_main nt s); auto; cbn [mn timedout].
    + intros it rs E; discriminate.
    + discriminate.
  - (* Tick *)
    injection H as <-. apply (life_main nt s); auto; try apply (i_g9 _ _ I); try apply (i_gx _ _ I).
  - (* SrcSetupFail *)
    destruct (src s); try discriminate. injection H as <-.
    apply inv_life'_log. apply (life_main nt s); auto; try apply (i_g9 _ _ I); try apply (i_gx _ _ I).
Qed.

(* ------------------------------------------------------------------ shape *)
Lemma shape_intro : forall nt s s',
  length (nodes s') = length (nodes s) ->
  (forall m, length (ws (node s' m)) = length (ws (node s m))) ->
  inv_shape nt s -> inv_shape nt s'.
Proof. intros nt s s' Hl Hw [A B]. split; [congruence|]. intros n Hn. rewrite Hw. auto. Qed.

Lemma shape_log : forall nt s es, inv_shape nt s -> inv_shape nt (log s es).
Proof. intros. eapply shape_intro; eauto. Qed.

Lemma shape_set_node : forall nt s n x, length (ws x) = length (ws (node s n)) ->
  inv_shape nt s -> inv_shape nt (set_node s n x).
Proof.
  intros. apply (shape_intro nt s); auto. apply nodes_len_set_node.
  intros m. destruct (Nat.eq_dec m n) as [->|Hm].
  - destruct (Nat.lt_ge_cases n (length (nodes s))).
    + rewrite node_set_node_eq; auto. + rewrite node_set_node_oob; auto.
  - rewrite node_set_node_neq; auto.
Qed.

Lemma shape_try_send : forall nt s c it s1, try_send nt s c it = Sent s1 -> inv_shape nt s -> inv_shape nt s1.
Proof.
  intros. apply try_send_sent in H. destruct H as (_ & Hsl & _ & Hl & _).
  eapply shape_intro; eauto. intros m. destruct (Hsl m) as (a & _). rewrite a. auto.
Qed.

Lemma shape_close_all : forall nt s cs s1, close_all s cs = Some s1 -> inv_shape nt s -> inv_shape nt s1.
Proof.
  intros. apply close_all_some in H. destruct H as (_ & Hsb & _ & _ & _ & Hl & _).
  eapply shape_intro; eauto. intros m. destruct (Hsb m) as (a & _). rewrite a. auto.
Qed.

Theorem shape_step : forall nt T s a s', inv_shape nt s -> step nt T s a = Ok s' -> inv_shape nt s'.
Proof.
  intros nt T s a s' Hs H.
  destruct a; cbn [step] in H.
  - destruct (src s); try discriminate. destruct (mn s); try discriminate. injection H as <-.
    apply shape_log. eapply shape_intro; eauto.
  - destruct (src s); try discriminate. injection H as <-. apply shape_log. eapply shape_intro; eauto.
  - destruct (src s); try discriminate. injection H as <-. apply shape_log. eapply shape_intro; eauto.
  - destruct (src s); try discriminate. injection H as <-. apply shape_log. eapply shape_intro; eauto.
  - destruct (mn s) as [|it [|r rs]| | |]; try discriminate.
    destruct (try_send nt s r it) eqn:Hts; try discriminate. injection H as <-.
    apply shape_try_send in Hts; auto.
  - destruct (mn s); try discriminate. destruct (src s); try discriminate. injection H as <-.
    eapply shape_intro; eauto.
  - destruct (mn s); try discriminate. destruct (close_all s (roots nt)) eqn:Hca; try discriminate.
    injection H as <-. apply shape_close_all with (nt := nt) in Hca; auto.
  - destruct (mn s); try discriminate. destruct (all_exited s); try discriminate. injection H as <-.
    apply shape_log. eapply shape_intro; eauto.
  - destruct (mn s); try discriminate. destruct (_ <=? _); try discriminate. injection H as <-.
    apply shape_log. eapply shape_intro; eauto.
  - injection H as <-. eapply shape_intro; eauto.
  - destruct (nth_error (ws (node s n)) w) as [[]|] eqn:Hg; try discriminate.
    destruct (q (node s n)); try discriminate. injection H as <-.
    apply shape_log. apply shape_set_node; auto. cbn [ws]. apply upd_length.
  - destruct (nth_error (ws (node s n)) w) as [[]|] eqn:Hg; try discriminate.
    destruct (outcome_ok _ _ _); try discriminate.
    destruct o as [[|e es]| |]; injection H as <-; apply shape_log; apply shape_set_node; auto;
      unfold set_worker, set_ws; cbn [ws]; apply upd_length.
  - destruct (nth_error (ws (node s n)) w) as [[| |[|[c it] rest]| | | | |]|] eqn:Hg; try discriminate.
    destruct (try_send nt s c it) as [s1| |] eqn:Hts; try discriminate. injection H as <-.
    apply shape_try_send with (nt := nt) in Hts; auto.
    apply shape_set_node; auto. autorewrite with fb. apply upd_length.
  - destruct (nth_error (ws (node s n)) w) as [[]|] eqn:Hg; try discriminate.
    destruct (q (node s n)); try discriminate. destruct (closed (node s n)); try discriminate. injection H as <-.
    apply shape_set_node; auto. autorewrite with fb. apply upd_length.
  - destruct (nth_error (ws (node s n)) w) as [[]|] eqn:Hg; try discriminate.
    destruct (forallb wpast _); try discriminate. injection H as <-.
    apply shape_set_node; auto. autorewrite with fb. apply upd_length.
  - destruct (nth_error (ws (node s n)) w) as [[]|] eqn:Hg; try discriminate.
    destruct (once (node s n)); try discriminate. injection H as <-.
    apply shape_log. apply shape_set_node; auto. autorewrite with fb. apply upd_length.
  - destruct (nth_error (ws (node s n)) w) as [[]|] eqn:Hg; try discriminate.
    destruct (inflight (node s n)); try discriminate. destruct (existsb _ _); try discriminate. injection H as <-.
    apply shape_log. apply shape_set_node; auto. autorewrite with fb. apply upd_length.
  - destruct (nth_error (ws (node s n)) w) as [[]|] eqn:Hg; try discriminate.
    destruct (close_all s (targets (info nt n))) as [s1|] eqn:Hca; try discriminate. injection H as <-.
    apply shape_close_all with (nt := nt) in Hca; auto.
    apply shape_set_node; auto. autorewrite with fb. apply upd_length.
  - destruct (nth_error (ws (node s n)) w) as [[]|] eqn:Hg; try discriminate.
    destruct (once (node s n)); try discriminate. injection H as <-.
    apply shape_set_node; auto. autorewrite with fb. apply upd_length.
  - destruct (remove_one it (inflight (node s n))); try discriminate.
    destruct (outcome_ok _ _ _); try discriminate. injection H as <-.
    apply shape_log.
    match goal with |- context [set_node s n ?x] => assert (Hs1 : inv_shape nt (set_node s n x)) end.
    { apply shape_set_node; auto. autorewrite with fb. reflexivity. }
    destruct (deliveries nt n it o); auto.
  - destruct (nth_error (cbs s) i) as [[n [|[c it] rest]]|] eqn:Hg; try discriminate.
    destruct (try_send nt s c it) as [s1| |] eqn:Hts; try discriminate. injection H as <-.
    apply shape_try_send with (nt := nt) in Hts; auto.
  - destruct (src s); try discriminate. injection H as <-. apply shape_log. eapply shape_intro; eauto.
Qed.

(* ------------------------------------------------------------------ init, step, reachable *)
Lemma node_init : forall nt n, node (init nt) n = init_node (info nt n).
Proof.
  intros. unfold node, init, info; cbn [nodes]. change dummy_ns with (init_node dummy_info). apply map_nth.
Qed.

Lemma nth_error_repeat : forall A (a b : A) k w, nth_error (repeat a k) w = Some b -> b = a.
Proof. intros. apply nth_error_In in H. apply repeat_spec in H. auto. Qed.

Lemma filter_repeat_false : forall A (f : A -> bool) a k, f a = false -> filter f (repeat a k) = [].
Proof. induction k; cbn; intros; auto. rewrite H. auto. Qed.

Lemma shape_init : forall nt, inv_shape nt (init nt).
Proof.
  intros. split.
  - unfold init; cbn [nodes]. apply map_length.
  - intros n Hn. rewrite node_init. cbn [ws init_node]. apply repeat_length.
Qed.

Lemma life'_init : forall nt, inv_life' nt (init nt).
Proof.
  intros nt. constructor.
  - intros n Hn. unfold node_ok. rewrite node_init. cbn [ws once closed q inflight init_node init cbs existsb].
    constructor; try congruence; try (intros; split; reflexivity).
    + intros w st H Hp. apply nth_error_repeat in H. subst. discriminate.
    + rewrite filter_repeat_false; auto.
    + intros w H. apply nth_error_repeat in H. discriminate.
    + intros w p H. apply nth_error_repeat in H. discriminate.
    + intros w st w' st' H Hl. apply nth_error_repeat in H. subst. discriminate.
  - intros n c Hn Hc. rewrite node_init. cbn. discriminate.
  - intros r Hr. rewrite node_init. cbn. discriminate.
  - intros cb [].
  - intros it rs E. discriminate.
  - cbn. discriminate.
Qed.

Theorem life'_step : forall nt T s a s', wf_net nt = true -> inv_shape nt s -> inv_life' nt s ->
  step nt T s a = Ok s' -> inv_life' nt s'.
Proof.
  intros nt T s a s' Hwf Hs I H.
  destruct a;
    try (eapply life_simple; eauto; exact Logic.I).
  - eapply life_MainSend; eauto.
  - eapply life_MainCloseRoots; eauto.
  - eapply life_Deq; eauto.
  - eapply life_Return; eauto.
  - eapply life_SendW; eauto.
  - eapply life_SeeClosed; eauto.
  - eapply life_LastOut; eauto.
  - eapply life_OnceEnter; eauto.
  - eapply life_ShutdownReturn; eauto.
  - eapply life_CloseKids; eauto.
  - eapply life_OnceSkip; eauto.
  - eapply life_Callback; eauto.
  - eapply life_SendC; eauto.
Qed.

Lemma run_inv : forall nt T sch s s', wf_net nt = true -> inv_shape nt s -> inv_life' nt s ->
  run nt T s sch = Ok s' -> inv_shape nt s' /\ inv_life' nt s'.
Proof.
  induction sch as [|a sch IH]; intros s s' Hwf Hs I H; cbn [run] in H.
  - injection H as <-. auto.
  - destruct (step nt T s a) as [s1| |] eqn:Hst; try discriminate.
    apply (IH s1 s'); auto.
    + eapply shape_step; eauto.
    + eapply life'_step; eauto.
Qed.

Theorem life'_reachable : forall nt T s, wf_net nt = true -> reachable nt T s -> inv_shape nt s /\ inv_life' nt s.
Proof.
  intros nt T s Hwf [sch H]. eapply run_inv; eauto. apply shape_init. apply life'_init.
Qed.

(* ------------------------------------------------------------------ inv_life' implies inv_life *)
Theorem inv_life'_life : forall nt s, inv_life' nt s -> inv_life nt s.
Proof.
  intros nt s [A B C D E F]. unfold inv_life. repeat split.
  - intros n Hn Ho. apply forallb_of_nth_error. intros i a Hi. eapply (n1 _ _ _ _ _ _ _ _ (A n Hn)); eauto.
  - apply existsb_to_nth_error in H0. destruct H0 as (i & a & Hi & Hp).
    eapply (n2 _ _ _ _ _ _ _ _ (A n H)); eauto.
  - apply existsb_to_nth_error in H0. destruct H0 as (i & a & Hi & Hp).
    eapply (n2 _ _ _ _ _ _ _ _ (A n H)); eauto.
  - intros n Hn. apply (n3 _ _ _ _ _ _ _ _ (A n Hn)).
  - intros n Hn He. apply existsb_to_nth_error in He. destruct He as (i & a & Hi & Hp).
    destruct a; try discriminate. eapply (n4 _ _ _ _ _ _ _ _ (A n Hn)); eauto.
  - destruct H0 as [Ho|He].
    + apply (n5a _ _ _ _ _ _ _ _ (A n H) Ho).
    + apply existsb_to_nth_error in He. destruct He as (i & a & Hi & Hp).
      destruct a; try discriminate. eapply (n5b _ _ _ _ _ _ _ _ (A n H)); eauto.
  - destruct H0 as [Ho|He].
    + apply (n5a _ _ _ _ _ _ _ _ (A n H) Ho).
    + apply existsb_to_nth_error in He. destruct He as (i & a & Hi & Hp).
      destruct a; try discriminate. eapply (n5b _ _ _ _ _ _ _ _ (A n H)); eauto.
  - exact B.
  - exact C.
  - apply (D cb H).
  - apply (D cb H).
  - eapply (n9 _ _ _ _ _ _ _ _ (A n H)); eauto.
  - eapply (n9 _ _ _ _ _ _ _ _ (A n H)); eauto.
  - intros cb d Hcb Hd. apply (D cb Hcb); auto.
  - eapply E; eauto.
  - eapply E; eauto.
Qed.

Theorem life_inv_init : forall nt, wf_net nt = true -> inv_life nt (init nt).
Proof. intros. apply inv_life'_life. apply life'_init. Qed.

Theorem life_inv_reachable : forall nt T s, wf_net nt = true -> reachable nt T s -> inv_shape nt s /\ inv_life nt s.
Proof. intros nt T s Hwf Hr. destruct (life'_reachable nt T s Hwf Hr). split; auto. apply inv_life'_life; auto. Qed.

(* ------------------------------------------------------------------ C03: the model never panics *)
Lemma filter_pos : forall A (f : A -> bool) l i a, nth_error l i = Some a -> f a = true -> 1 <= length (filter f l).
Proof.
  intros. assert (In a (filter f l)) by (apply filter_In; split; auto; eapply nth_error_In; eauto).
  destruct (filter f l); [contradiction|cbn; lia].
Qed.

(* C03: no interleaving makes the framework panic: no send on a closed channel, no double close *)
Theorem step_no_panic : forall nt T s a, wf_net nt = true -> inv_shape nt s -> inv_life nt s -> step nt T s a <> Panic.
Proof.
  intros nt T s a Hwf [Hlen Hws] Hl.
  destruct Hl as (L1 & L2 & L3 & L4 & L5 & L6 & L7 & L8 & L9a & L9b & L9c).
  destruct a; cbn [step].
  - destruct (src s); try discriminate. destruct (mn s); discriminate.
  - destruct (src s); discriminate.
  - destruct (src s); discriminate.
  - destruct (src s); discriminate.
  - (* MainSend: the root is open while main is in its loop *)
    destruct (mn s) as [|it [|r rs]| | |] eqn:Hm; try discriminate.
    destruct (try_send nt s r it) eqn:Hts; try discriminate.
    exfalso. apply try_send_panic in Hts.
    destruct (L9c _ _ eq_refl) as [_ Hrs]. specialize (L7 r (Hrs r (or_introl eq_refl)) Hts).
    unfold main_past_loop in L7. rewrite Hm in L7. discriminate.
  - destruct (mn s); try discriminate. destruct (src s); discriminate.
  - (* MainCloseRoots: the roots are distinct and still open *)
    destruct (mn s) eqn:Hm; try discriminate.
    destruct (close_all_total (roots nt) s (wf_roots_NoDup nt Hwf)) as [s1 Hs1].
    { intros r Hr. destruct (closed (node s r)) eqn:Hc; auto.
      specialize (L7 r Hr Hc). unfold main_past_loop in L7. rewrite Hm in L7. discriminate. }
    rewrite Hs1. discriminate.
  - destruct (mn s); try discriminate. destruct (all_exited s); discriminate.
  - destruct (mn s); try discriminate. destruct (_ <=? _); discriminate.
  - discriminate.
  - destruct (nth_error (ws (node s n)) w) as [[]|]; try discriminate. destruct (q (node s n)); discriminate.
  - destruct (nth_error (ws (node s n)) w) as [[]|]; try discriminate.
    destruct (outcome_ok _ _ _); try discriminate. destruct o; discriminate.
  - (* SendW: a child / handler is closed only after the sender's once completed, when no worker sends *)
    destruct (nth_error (ws (node s n)) w) as [[| |[|[c it] rest]| | | | |]|] eqn:Hg; try discriminate.
    destruct (try_send nt s c it) eqn:Hts; try discriminate.
    exfalso. apply try_send_panic in Hts.
    pose proof (node_ws_some_lt _ _ _ _ Hg) as Hn. assert (Hn' : n < length nt) by lia.
    destruct (L9a n w _ Hn' Hg) as [_ Hp]. specialize (Hp (c, it) (or_introl eq_refl)). cbn [fst] in Hp.
    specialize (L6 n c Hn' Hp Hts).
    assert (Ho : once (node s n) <> ONone) by congruence.
    specialize (L1 n Hn' Ho). pose proof (forallb_nth_error _ _ _ _ _ L1 Hg). discriminate.
  - destruct (nth_error (ws (node s n)) w) as [[]|]; try discriminate.
    destruct (q (node s n)); try discriminate. destruct (closed (node s n)); discriminate.
  - destruct (nth_error (ws (node s n)) w) as [[]|]; try discriminate. destruct (forallb _ _); discriminate.
  - destruct (nth_error (ws (node s n)) w) as [[]|]; try discriminate. destruct (once (node s n)); discriminate.
  - destruct (nth_error (ws (node s n)) w) as [[]|]; try discriminate.
    destruct (inflight (node s n)); try discriminate. destruct (existsb _ _); discriminate.
  - (* CloseKids: the targets are distinct, and closed only by this very action *)
    destruct (nth_error (ws (node s n)) w) as [[]|] eqn:Hg; try discriminate.
    pose proof (node_ws_some_lt _ _ _ _ Hg) as Hn. assert (Hn' : n < length nt) by lia.
    destruct (close_all_total (targets (info nt n)) s (wf_targets_NoDup nt Hwf n Hn')) as [s1 Hs1].
    { intros c Hc. destruct (closed (node s c)) eqn:Hcl; auto.
      specialize (L6 n c Hn' Hc Hcl). specialize (L3 n Hn'). rewrite L6 in L3.
      unfold cnt_workers in L3. pose proof (filter_pos _ is_running_once _ _ _ Hg eq_refl). lia. }
    rewrite Hs1. discriminate.
  - destruct (nth_error (ws (node s n)) w) as [[]|]; try discriminate. destruct (once (node s n)); discriminate.
  - destruct (remove_one it (inflight (node s n))); try discriminate. destruct (outcome_ok _ _ _); discriminate.
  - (* SendC: a callback thread exists only until the node's Shutdown returns, before anything is closed *)
    destruct (nth_error (cbs s) i) as [[n [|[c it] rest]]|] eqn:Hg; try discriminate.
    destruct (try_send nt s c it) eqn:Hts; try discriminate.
    exfalso. apply try_send_panic in Hts.
    pose proof (nth_error_In _ _ Hg) as Hin.
    destruct (L8 _ Hin) as [Hn' _]. cbn [fst] in Hn'.
    pose proof (L9b _ (c, it) Hin (or_introl eq_refl)) as Hp. cbn [fst] in Hp.
    specialize (L6 n c Hn' Hp Hts).
    destruct (L5 n Hn' (or_introl L6)) as [_ Hex].
    pose proof (existsb_false_In _ _ _ _ Hex Hin) as Hown. unfold owns in Hown. cbn [fst] in Hown.
    rewrite Nat.eqb_refl in Hown. discriminate.
  - destruct (src s); discriminate.
Qed.

Theorem run_no_panic : forall nt T sch, wf_net nt = true -> run nt T (init nt) sch <> Panic.
Proof.
  intros nt T sch Hwf.
  assert (G : forall sch s, inv_shape nt s -> inv_life' nt s -> run nt T s sch <> Panic).
  { induction sch0 as [|a sch0 IH]; intros s Hs I; cbn [run]; [discriminate|].
    destruct (step nt T s a) as [s1| |] eqn:Hst; try discriminate.
    - apply IH. eapply shape_step; eauto. eapply life'_step; eauto.
    - exfalso. eapply step_no_panic; eauto. apply inv_life'_life; auto. }
  apply G. apply shape_init. apply life'_init.
Qed.

(* The stated invariant is inductive only together with the auxiliary clauses: this is the step theorem
   (for [inv_life'], which implies [inv_life] by [inv_life'_life]). *)
Theorem life_inv_step : forall nt T s a s', wf_net nt = true -> inv_shape nt s -> inv_life' nt s ->
  step nt T s a = Ok s' -> inv_life' nt s'.
Proof. exact life'_step. Qed.

(* ------------------------------------------------------------------ C03: the shutdown cascade, corollaries *)
(* C03: Shutdown begins only after every processing call of the node has returned (no worker is idle, in
   Process or sending), and no event is handed to the node afterwards *)
Theorem shutdown_after_calls : forall nt T s n, wf_net nt = true -> reachable nt T s ->
  n < length nt -> once (node s n) <> ONone ->
  forallb wpast (ws (node s n)) = true /\ forall w, step nt T s (Deq n w) = NotEnabled.
Proof.
  intros nt T s n Hwf Hr Hn Ho.
  destruct (life_inv_reachable nt T s Hwf Hr) as [_ Hl]. destruct Hl as (L1 & _).
  specialize (L1 n Hn Ho). split; auto.
  intros w. cbn [step]. destruct (nth_error (ws (node s n)) w) as [[]|] eqn:Hg; try reflexivity.
  pose proof (forallb_nth_error _ _ _ _ _ L1 Hg). discriminate.
Qed.

(* the once, once entered, stays entered: "afterwards" in [shutdown_after_calls] covers every later state *)
Lemma once_entered_stable_step : forall nt T s a s' n, step nt T s a = Ok s' ->
  once (node s n) <> ONone -> once (node s' n) <> ONone.
Proof.
  intros nt T s a s' n H Ho.
  assert (Hset : forall s0 m x, once (node s0 n) <> ONone -> (m = n -> once x <> ONone) ->
                                once (node (set_node s0 m x) n) <> ONone).
  { intros s0 m x H0 Hx. destruct (Nat.eq_dec m n) as [->|Hm].
    - destruct (Nat.lt_ge_cases n (length (nodes s0))).
      + rewrite node_set_node_eq by assumption. auto.
      + rewrite node_set_node_oob by assumption. auto.
    - rewrite node_set_node_neq by assumption. auto. }
  assert (Hts : forall c it s1, try_send nt s c it = Sent s1 -> once (node s1 n) <> ONone).
  { intros c it s1 E. apply try_send_sent in E. destruct E as (_ & Hsl & _).
    destruct (Hsl n) as (_ & b & _). congruence. }
  assert (Hca : forall cs s1, close_all s cs = Some s1 -> once (node s1 n) <> ONone).
  { intros cs s1 E. apply close_all_some in E. destruct E as (_ & Hsb & _).
    destruct (Hsb n) as (_ & b & _). congruence. }
  destruct a; cbn [step] in H.
  - destruct (src s); try discriminate. destruct (mn s); try discriminate. injection H as <-. exact Ho.
  - destruct (src s); try discriminate. injection H as <-. exact Ho.
  - destruct (src s); try discriminate. injection H as <-. exact Ho.
  - destruct (src s); try discriminate. injection H as <-. exact Ho.
  - destruct (mn s) as [|it [|r rs]| | |]; try discriminate.
    destruct (try_send nt s r it) eqn:E; try discriminate. injection H as <-. apply (Hts _ _ _ E).
  - destruct (mn s); try discriminate. destruct (src s); try discriminate. injection H as <-. exact Ho.
  - destruct (mn s); try discriminate. destruct (close_all s (roots nt)) eqn:E; try discriminate.
    injection H as <-. apply (Hca _ _ E).
  - destruct (mn s); try discriminate. destruct (all_exited s); try discriminate. injection H as <-. exact Ho.
  - destruct (mn s); try discriminate. destruct (_ <=? _); try discriminate. injection H as <-. exact Ho.
  - injection H as <-. exact Ho.
  - destruct (nth_error (ws (node s n0)) w) as [[]|]; try discriminate.
    destruct (q (node s n0)); try discriminate. injection H as <-.
    rewrite node_log. apply Hset; auto. intros ->. exact Ho.
  - destruct (nth_error (ws (node s n0)) w) as [[]|]; try discriminate.
    destruct (outcome_ok _ _ _); try discriminate.
    destruct o as [[|e es]| |]; injection H as <-; rewrite node_log; apply Hset; auto; intros ->; exact Ho.
  - destruct (nth_error (ws (node s n0)) w) as [[| |[|[c it] rest]| | | | |]|]; try discriminate.
    destruct (try_send nt s c it) as [s1| |] eqn:E; try discriminate. injection H as <-.
    apply Hset; [apply (Hts _ _ _ E)|]. intros ->. autorewrite with fb. apply (Hts _ _ _ E).
  - destruct (nth_error (ws (node s n0)) w) as [[]|]; try discriminate.
    destruct (q (node s n0)); try discriminate. destruct (closed (node s n0)); try discriminate. injection H as <-.
    apply Hset; auto. intros ->. exact Ho.
  - destruct (nth_error (ws (node s n0)) w) as [[]|]; try discriminate.
    destruct (forallb _ _); try discriminate. injection H as <-.
    apply Hset; auto. intros ->. exact Ho.
  - destruct (nth_error (ws (node s n0)) w) as [[]|]; try discriminate.
    destruct (once (node s n0)); try discriminate. injection H as <-.
    rewrite node_log. apply Hset; auto. intros _. autorewrite with fb. discriminate.
  - destruct (nth_error (ws (node s n0)) w) as [[]|]; try discriminate.
    destruct (inflight (node s n0)); try discriminate. destruct (existsb _ _); try discriminate. injection H as <-.
    rewrite node_log. apply Hset; auto. intros ->. exact Ho.
  - destruct (nth_error (ws (node s n0)) w) as [[]|]; try discriminate.
    destruct (close_all s (targets (info nt n0))) as [s1|] eqn:E; try discriminate. injection H as <-.
    apply Hset; [apply (Hca _ _ E)|]. intros _. autorewrite with fb. discriminate.
  - destruct (nth_error (ws (node s n0)) w) as [[]|]; try discriminate.
    destruct (once (node s n0)); try discriminate. injection H as <-.
    apply Hset; auto. intros ->. exact Ho.
  - destruct (remove_one it (inflight (node s n0))); try discriminate.
    destruct (outcome_ok _ _ _); try discriminate. injection H as <-.
    rewrite node_log.
    match goal with |- context [set_node s n0 ?x] => assert (G : once (node (set_node s n0 x) n) <> ONone) end.
    { apply Hset; auto. intros ->. autorewrite with fb. exact Ho. }
    destruct (deliveries nt n0 it o); exact G.
  - destruct (nth_error (cbs s) i) as [[m [|[c it] rest]]|]; try discriminate.
    destruct (try_send nt s c it) as [s1| |] eqn:E; try discriminate. injection H as <-.
    rewrite node_set_cbs. apply (Hts _ _ _ E).
  - destruct (src s); try discriminate. injection H as <-. exact Ho.
Qed.

Theorem once_entered_stable : forall nt T sch s s' n, run nt T s sch = Ok s' ->
  once (node s n) <> ONone -> once (node s' n) <> ONone.
Proof.
  induction sch as [|a sch IH]; intros s s' n H Ho; cbn [run] in H.
  - injection H as <-. exact Ho.
  - destruct (step nt T s a) as [s1| |] eqn:E; try discriminate.
    eapply IH; eauto. eapply once_entered_stable_step; eauto.
Qed.

(* C03: children and handler stay open until the node's Shutdown has returned and the once completes *)
Theorem kids_open_until_shutdown_returns : forall nt T s n c, wf_net nt = true -> reachable nt T s ->
  n < length nt -> In c (targets (info nt n)) -> once (node s n) <> ODone -> closed (node s c) = false.
Proof.
  intros nt T s n c Hwf Hr Hn Hc Ho.
  destruct (life_inv_reachable nt T s Hwf Hr) as [_ Hl]. destruct Hl as (_ & _ & _ & _ & _ & L6 & _).
  destruct (closed (node s c)) eqn:E; auto. destruct (Ho (L6 n c Hn Hc E)).
Qed.

(* C03: so a delivery from inside Shutdown (an async node flushing: a Callback between OnceEnter and
   ShutdownReturn) cannot hit a closed channel; in fact every delivery any goroutine has still to make
   targets an open channel *)
Theorem pending_targets_open : forall nt T s, wf_net nt = true -> reachable nt T s ->
  (forall cb d, In cb (cbs s) -> In d (snd cb) -> closed (node s (fst d)) = false)
  /\ (forall n w p d, n < length nt -> nth_error (ws (node s n)) w = Some (WSend p) -> In d p ->
        closed (node s (fst d)) = false)
  /\ (forall it rs r, mn s = MDeliver it rs -> In r rs -> closed (node s r) = false).
Proof.
  intros nt T s Hwf Hr.
  destruct (life_inv_reachable nt T s Hwf Hr) as [_ Hl].
  destruct Hl as (L1 & L2 & L3 & L4 & L5 & L6 & L7 & L8 & L9a & L9b & L9c).
  repeat split.
  - intros cb d Hcb Hd. destruct (closed (node s (fst d))) eqn:E; auto. exfalso.
    destruct (L8 _ Hcb) as [Hn _].
    specialize (L6 _ _ Hn (L9b _ _ Hcb Hd) E).
    destruct (L5 _ Hn (or_introl L6)) as [_ Hex].
    pose proof (existsb_false_In _ _ _ _ Hex Hcb) as Hown. unfold owns in Hown.
    rewrite Nat.eqb_refl in Hown. discriminate.
  - intros n w p d Hn Hg Hd. destruct (closed (node s (fst d))) eqn:E; auto. exfalso.
    destruct (L9a n w p Hn Hg) as [_ Hp].
    specialize (L6 _ _ Hn (Hp d Hd) E).
    assert (Ho : once (node s n) <> ONone) by congruence.
    pose proof (forallb_nth_error _ _ _ _ _ (L1 n Hn Ho) Hg). discriminate.
  - intros it rs r Hm Hin. destruct (closed (node s r)) eqn:E; auto. exfalso.
    destruct (L9c _ _ Hm) as [_ Hrs]. specialize (L7 r (Hrs r Hin) E).
    unfold main_past_loop in L7. rewrite Hm in L7. discriminate.
Qed.

(* C03: exactly-once: the once-function is entered at most once per node (holds in every state) *)
Theorem once_enter_once : forall nt T s n, once (node s n) <> ONone -> forall w, step nt T s (OnceEnter n w) = NotEnabled.
Proof.
  intros nt T s n Ho w. cbn [step].
  destruct (nth_error (ws (node s n)) w) as [[]|]; try reflexivity.
  destruct (once (node s n)); try reflexivity. contradiction.
Qed.

(* C03: clean end: if main is MDone without timeout then no callback thread exists, every worker of every
   node has exited and nothing is in flight; every node THAT HAS WORKERS has completed its once, and its
   channel is closed and empty.  (A node configured with zero workers never runs its once and never
   drains its channel: see [clean_done_zero_workers] below, so the restriction is necessary.) *)
Theorem clean_done : forall nt T s, wf_net nt = true -> reachable nt T s -> mn s = MDone -> timedout s = false ->
  cbs s = []
  /\ forall n, n < length nt ->
       forallb wexit (ws (node s n)) = true /\ inflight (node s n) = []
       /\ (0 < nworkers (info nt n) ->
             once (node s n) = ODone /\ q (node s n) = [] /\ closed (node s n) = true).
Proof.
  intros nt T s Hwf Hr Hm Ht.
  destruct (life'_reachable nt T s Hwf Hr) as [[Hlen Hws] I].
  assert (Hex : forall n, n < length nt -> forallb wexit (ws (node s n)) = true).
  { intros n Hn. apply forallb_of_nth_error. intros i a Hi. rewrite (i_gx _ _ I Hm Ht n i a Hn Hi). reflexivity. }
  assert (Hnode : forall n, n < length nt ->
            inflight (node s n) = [] /\ existsb (owns n) (cbs s) = false
            /\ (0 < nworkers (info nt n) -> once (node s n) = ODone /\ q (node s n) = [] /\ closed (node s n) = true)).
  { intros n Hn. pose proof (i_nodes _ _ I n Hn) as Hok. unfold node_ok in Hok.
    destruct (ws (node s n)) as [|w0 wr] eqn:Hw.
    - destruct (nx2 _ _ _ _ _ _ _ _ Hok eq_refl) as [a b]. split; auto. split; auto.
      intros Hpos. specialize (Hws n Hn). rewrite Hw in Hws. cbn in Hws. lia.
    - assert (Hg : nth_error (w0 :: wr) 0 = Some w0) by reflexivity.
      assert (w0 = WExit). { rewrite <- Hw in Hg. apply (i_gx _ _ I Hm Ht n 0 w0 Hn Hg). }
      subst w0.
      pose proof (n4 _ _ _ _ _ _ _ _ Hok 0 Hg) as Ho.
      destruct (n5a _ _ _ _ _ _ _ _ Hok Ho) as [a b].
      destruct (n2 _ _ _ _ _ _ _ _ Hok 0 _ Hg eq_refl) as [c d].
      repeat split; auto. }
  split.
  - destruct (cbs s) as [|cb l] eqn:Hc; auto. exfalso.
    assert (Hin : In cb (cbs s)) by (rewrite Hc; left; auto).
    destruct (i_g8 _ _ I cb Hin) as [Hn _].
    destruct (Hnode _ Hn) as (_ & b & _). rewrite Hc in Hin.
    pose proof (existsb_false_In _ _ _ _ b Hin) as Hown. unfold owns in Hown.
    rewrite Nat.eqb_refl in Hown. discriminate.
  - intros n Hn. destruct (Hnode n Hn) as (a & _ & c). auto.
Qed.

(* ------------------------------------------------------------------ reachability is closed under steps *)
Lemma run_app : forall nt T a b s,
  run nt T s (a ++ b) = match run nt T s a with Ok s1 => run nt T s1 b | r => r end.
Proof.
  induction a as [|x a IH]; intros b s; cbn [run app]; auto.
  destruct (step nt T s x); auto.
Qed.

Lemma reachable_run : forall nt T s sch s', reachable nt T s -> run nt T s sch = Ok s' -> reachable nt T s'.
Proof. intros nt T s sch s' [sch0 H0] H. exists (sch0 ++ sch). rewrite run_app, H0. exact H. Qed.

Lemma reachable_step : forall nt T s a s', reachable nt T s -> step nt T s a = Ok s' -> reachable nt T s'.
Proof. intros. eapply (reachable_run nt T s [a]); eauto. cbn [run]. rewrite H0. reflexivity. Qed.

(* [inv_life] is preserved by every step from a reachable state *)
Theorem life_inv_step_reachable : forall nt T s a s', wf_net nt = true -> reachable nt T s ->
  step nt T s a = Ok s' -> inv_shape nt s' /\ inv_life nt s'.
Proof. intros. eapply life_inv_reachable; eauto. eapply reachable_step; eauto. Qed.

(* C03: when Shutdown has begun no Process / ProcessAsync call of the node is in progress *)
Theorem no_call_in_progress : forall nt T s n, wf_net nt = true -> reachable nt T s ->
  n < length nt -> once (node s n) <> ONone -> forall x, sumf (wproc x) (ws (node s n)) = 0.
Proof.
  intros nt T s n Hwf Hr Hn Ho x.
  destruct (shutdown_after_calls nt T s n Hwf Hr Hn Ho) as [Hall _].
  induction (ws (node s n)) as [|a l IH]; cbn [sumf]; auto.
  cbn [forallb] in Hall. apply andb_true_iff in Hall. destruct Hall as [Ha Hl].
  rewrite (IH Hl). destruct a; cbn in *; try discriminate; reflexivity.
Qed.

(* C03: ... and no event is handed to the node in any later state *)
Theorem no_deq_after_shutdown_begins : forall nt T s n sch s', wf_net nt = true -> reachable nt T s ->
  n < length nt -> once (node s n) <> ONone -> run nt T s sch = Ok s' ->
  forall w, step nt T s' (Deq n w) = NotEnabled.
Proof.
  intros nt T s n sch s' Hwf Hr Hn Ho Hrun.
  apply (shutdown_after_calls nt T s' n Hwf); auto.
  - eapply reachable_run; eauto.
  - eapply once_entered_stable; eauto.
Qed.

(* a node with zero workers never runs its once and never drains its channel, even on a clean end *)
Definition zw_net : net :=
  [ {| nid := 1; nkind := KSync; nworkers := 1; ncap := 1; ndisc := false; nkids := [1]; nhandler := None; nrole := RRoot |};
    {| nid := 2; nkind := KSync; nworkers := 0; ncap := 1; ndisc := false; nkids := []; nhandler := None; nrole := RChild |} ].
Definition zw_sch : list action :=
  [SrcEmit 5; MainSend; Deq 0 0; Return 0 0 (ORes [7%Z]); SendW 0 0; SrcReturnNil; MainSeeClosed; MainCloseRoots;
   SeeClosed 0 0; LastOut 0 0; OnceEnter 0 0; ShutdownReturn 0 0; CloseKids 0 0; MainWgDone].
Example clean_done_zero_workers :
  wf_net zw_net = true
  /\ exists s, run zw_net 1 (init zw_net) zw_sch = Ok s /\ mn s = MDone /\ timedout s = false
       /\ once (node s 1) = ONone /\ q (node s 1) = [(7%Z, 0%Z)] /\ closed (node s 1) = true.
Proof. split; [reflexivity|]. eexists. split; [vm_compute; reflexivity|]. vm_compute. auto. Qed.

(* [inv_life] (with [inv_shape], on a well-formed net) is not inductive by itself: a state where one worker
   is past WaitGroup.Wait while another is still idle satisfies it, and OnceEnter then breaks L1.  The
   auxiliary clause [nx1] of [inv_life'] excludes such states. *)
Definition ni_net : net :=
  [ {| nid := 1; nkind := KSync; nworkers := 2; ncap := 1; ndisc := false; nkids := []; nhandler := None; nrole := RRoot |} ].
Definition ni_state : state :=
  {| nodes := [ {| q := []; closed := true; ws := [WWaited; WIdle]; once := ONone; inflight := []; offered := [];
                   dropped := []; c_recv := 0; c_proc := 0; c_filt := 0; c_fail := 0; c_disc := 0 |} ];
     cbs := []; mn := MWait; src := SClosed; clock := 0; wstart := 0; timedout := false; tr := [] |}.
Example inv_life_alone_not_inductive :
  wf_net ni_net = true /\ inv_shape ni_net ni_state /\ inv_life ni_net ni_state
  /\ exists s', step ni_net 1 ni_state (OnceEnter 0 0) = Ok s' /\ ~ inv_life ni_net s'.
Proof.
  split; [reflexivity|]. split.
  { split; [reflexivity|]. intros n Hn. destruct n; [reflexivity|cbn in Hn; lia]. }
  split.
  { unfold inv_life. repeat split; intros;
      try (destruct n as [|n]; [|cbn in *; lia]); cbn in *; try congruence; try tauto; try discriminate.
    all: try (exfalso; destruct w as [|[|[|w]]]; cbn in *; discriminate). }
  eexists. split; [reflexivity|].
  intros (L1 & _). specialize (L1 0 ltac:(cbn; lia)). cbn in L1. assert (false = true) by (apply L1; discriminate). discriminate.
Qed.

Print Assumptions life_inv_init.
Print Assumptions life_inv_step.
Print Assumptions shape_step.
Print Assumptions life_inv_reachable.
Print Assumptions step_no_panic.
Print Assumptions run_no_panic.
Print Assumptions shutdown_after_calls.
Print Assumptions once_entered_stable.
Print Assumptions kids_open_until_shutdown_returns.
Print Assumptions pending_targets_open.
Print Assumptions once_enter_once.
Print Assumptions life_inv_step_reachable.
Print Assumptions no_call_in_progress.
Print Assumptions no_deq_after_shutdown_begins.
Print Assumptions clean_done.
Print Assumptions clean_done_zero_workers.
Print Assumptions inv_life_alone_not_inductive.
