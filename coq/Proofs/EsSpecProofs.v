(* soundness of the C14 decision procedure for the model, clean Shutdown, no whole-request errors *)
From Coq Require Import List ZArith Bool Arith Lia ZifyBool.
From FB Require Import Lib.Sexp Lib.Eqb Lib.E7Lib Model.EsClient Judge.E7 Proofs.EsProofs.
Import ListNotations.
Open Scope Z_scope.

(* ---------- the batcher partitions the accepted documents ---------- *)
Lemma docs_of_app a b : docs_of (a ++ b) = docs_of a ++ docs_of b.
Proof. unfold docs_of. apply flat_map_app. Qed.
Lemma bads_of_app a b : bads_of (a ++ b) = bads_of a ++ bads_of b.
Proof. unfold bads_of. apply flat_map_app. Qed.

Definition bpart (s : bstate) (ds : list doc) (bs : list Z) : Prop :=
  concat (b_batches s) ++ b_pending s = ds /\ b_direct s = map (fun id => (id, AOther)) bs.

Lemma bpart_step cfg s o ds bs :
  bpart s ds bs -> bpart (bstep cfg s o) (ds ++ docs_of [o]) (bs ++ bads_of [o]).
Proof.
  intros [H1 H2]. destruct o as [d|id|]; cbn [bstep docs_of bads_of flat_map app].
  - destruct (length (b_pending s ++ [d]) =? batch_size cfg)%nat; split; simpl; rewrite ?app_nil_r; auto.
    + rewrite concat_app. simpl. rewrite app_nil_r, <- H1. now rewrite app_assoc.
    + rewrite <- H1. now rewrite app_assoc.
  - split; simpl; rewrite ?app_nil_r; auto. rewrite H2, map_app. reflexivity.
  - split; simpl; rewrite ?app_nil_r; auto. rewrite concat_app. simpl. now rewrite !app_nil_r.
Qed.

Lemma bpart_fold cfg ops : forall s ds bs,
  bpart s ds bs -> bpart (fold_left (bstep cfg) ops s) (ds ++ docs_of ops) (bs ++ bads_of ops).
Proof.
  induction ops as [|o ops IH]; intros s ds bs H; cbn [fold_left].
  - unfold docs_of, bads_of; simpl. now rewrite !app_nil_r.
  - specialize (IH _ _ _ (bpart_step cfg s o ds bs H)).
    change (o :: ops) with ([o] ++ ops). rewrite docs_of_app, bads_of_app, !app_assoc. exact IH.
Qed.

Lemma bpart_clean cfg ops :
  let s := bfinish cfg true (brun cfg ops) in
  concat (b_batches s) = docs_of ops /\ b_pending s = [] /\ b_direct s = map (fun id => (id, AOther)) (bads_of ops).
Proof.
  cbv zeta. assert (H : bpart (brun cfg ops) (docs_of ops) (bads_of ops)).
  { apply (bpart_fold cfg ops b_init [] []). split; reflexivity. }
  destruct H as [H1 H2]. unfold bfinish. cbn [bstep b_batches b_pending b_direct].
  split; [|split; auto]. rewrite concat_app. simpl. now rewrite app_nil_r.
Qed.

(* ---------- ids ---------- *)
Lemma op_ids_split ops id : In id (op_ids ops) <-> In id (map d_id (docs_of ops)) \/ In id (bads_of ops).
Proof.
  induction ops as [|o ops IH]; simpl; [tauto|].
  destruct o as [d|b|]; simpl; rewrite ?IH; tauto.
Qed.

Lemma op_ids_nodup ops :
  NoDup (op_ids ops) ->
  NoDup (map d_id (docs_of ops)) /\ NoDup (bads_of ops)
  /\ (forall id, In id (map d_id (docs_of ops)) -> ~ In id (bads_of ops)).
Proof.
  induction ops as [|o ops IH]; simpl; intros N.
  - repeat split; try constructor. intros id [].
  - destruct o as [d|b|]; simpl in *.
    + inversion N as [|? ? Hn Hd]; subst. destruct (IH Hd) as [A [B C]]. repeat split; auto.
      * constructor; auto. intros H. apply Hn. apply op_ids_split. now left.
      * intros id [<-|H]; [|now apply C]. intros H. apply Hn. apply op_ids_split. now right.
    + inversion N as [|? ? Hn Hd]; subst. destruct (IH Hd) as [A [B C]]. repeat split; auto.
      * constructor; auto. intros H. apply Hn. apply op_ids_split. now right.
      * intros id H [<-|H']; [|now apply (C id)]. apply Hn. apply op_ids_split. now left.
    + auto.
Qed.

(* ---------- all batches together ---------- *)
Definition run_trace cfg sc (batches : list (list doc)) : trace :=
  fold_right (fun b acc => tr_app (lineage (fuel_for cfg sc) cfg sc (fresh b)) acc) tr_empty batches.

Lemma NoDup_app_disj {A} (l1 l2 : list A) x : NoDup (l1 ++ l2) -> In x l1 -> ~ In x l2.
Proof.
  induction l1 as [|a l1 IH]; simpl; intros N H; [contradiction|].
  inversion N as [|? ? Hn Hd]; subst. destruct H as [->|H]; [|now apply IH].
  intros H2. apply Hn. apply in_or_app. now right.
Qed.

Lemma NoDup_app_parts {A} (l1 l2 : list A) : NoDup (l1 ++ l2) -> NoDup l1 /\ NoDup l2.
Proof.
  induction l1 as [|a l1 IH]; simpl; intros N; [split; [constructor|assumption]|].
  inversion N as [|? ? Hn Hd]; subst. destruct (IH Hd) as [A1 A2]. split; [|assumption].
  constructor; [|assumption]. intros H. apply Hn. apply in_or_app. now left.
Qed.

Lemma run_trace_ok cfg sc (Hnw : no_whole sc = true) : forall batches,
  NoDup (map d_id (concat batches)) ->
  tr_fuel_out (run_trace cfg sc batches) = false
  /\ (forall d, In d (concat batches) ->
        answers_of (d_id d) (tr_answers (run_trace cfg sc batches)) = [fst (fate (max_retries cfg) 0 (outcome_at sc (d_id d)))]
        /\ count_calls (d_id d) (tr_calls (run_trace cfg sc batches)) = snd (fate (max_retries cfg) 0 (outcome_at sc (d_id d))))
  /\ (forall id, ~ In id (map d_id (concat batches)) ->
        answers_of id (tr_answers (run_trace cfg sc batches)) = [] /\ count_calls id (tr_calls (run_trace cfg sc batches)) = 0%nat).
Proof.
  induction batches as [|b bs IH]; simpl; intros N.
  - repeat split; auto; contradiction.
  - rewrite map_app in N.
    destruct (NoDup_app_parts _ _ N) as [Nb Nbs].
    destruct (IH Nbs) as [F [Hin Hout]].
    destruct (batch_answered_once cfg sc b Hnw Nb) as [F1 [Hin1 Hout1]]. cbn [fresh t_docs t_n] in Hin1, Hout1.
    cbn [tr_app tr_answers tr_calls tr_fuel_out]. split; [now rewrite F1, F|]. split.
    + intros d Hd. rewrite answers_of_app, count_calls_app. apply in_app_or in Hd as [Hd|Hd].
      * destruct (Hin1 d Hd) as [A C]. unfold fate_of in A, C.
        assert (Hn : ~ In (d_id d) (map d_id (concat bs))) by (eapply NoDup_app_disj; eauto; now apply in_map).
        destruct (Hout _ Hn) as [A2 C2]. rewrite A, A2, C2. split; [reflexivity|lia].
      * destruct (Hin d Hd) as [A C].
        assert (Hn : ~ In (d_id d) (map d_id b)).
        { intros H. eapply NoDup_app_disj; eauto. now apply in_map. }
        destruct (Hout1 _ Hn) as [A2 C2]. rewrite A, A2, C2, C. split; reflexivity.
    + intros id Hid. rewrite answers_of_app, count_calls_app.
      assert (H1 : ~ In id (map d_id b)) by (intros H; apply Hid; rewrite map_app; apply in_or_app; now left).
      assert (H2 : ~ In id (map d_id (concat bs))) by (intros H; apply Hid; rewrite map_app; apply in_or_app; now right).
      destruct (Hout1 _ H1) as [A C]. destruct (Hout _ H2) as [A2 C2]. rewrite A, A2, C, C2. split; reflexivity.
Qed.

Lemma run_trace_once cfg sc : forall batches,
  NoDup (map d_id (concat batches)) ->
  tr_fuel_out (run_trace cfg sc batches) = false
  /\ (forall d, In d (concat batches) -> length (answers_of (d_id d) (tr_answers (run_trace cfg sc batches))) = 1%nat)
  /\ (forall id, ~ In id (map d_id (concat batches)) ->
        answers_of id (tr_answers (run_trace cfg sc batches)) = [] /\ count_calls id (tr_calls (run_trace cfg sc batches)) = 0%nat).
Proof.
  induction batches as [|b bs IH]; simpl; intros N.
  - repeat split; auto; contradiction.
  - rewrite map_app in N. destruct (NoDup_app_parts _ _ N) as [Nb Nbs].
    destruct (IH Nbs) as [F [Hin Hout]].
    destruct (batch_once cfg sc b Nb) as [F1 [Hin1 Hout1]]. cbn [fresh t_docs t_n] in Hin1, Hout1.
    cbn [tr_app tr_answers tr_calls tr_fuel_out]. split; [now rewrite F1, F|]. split.
    + intros d Hd. rewrite answers_of_app, app_length. apply in_app_or in Hd as [Hd|Hd].
      * assert (Hn : ~ In (d_id d) (map d_id (concat bs))) by (eapply NoDup_app_disj; eauto; now apply in_map).
        destruct (Hout _ Hn) as [A2 C2]. rewrite (Hin1 d Hd), A2. reflexivity.
      * assert (Hn : ~ In (d_id d) (map d_id b)).
        { intros H. eapply NoDup_app_disj; eauto. now apply in_map. }
        destruct (Hout1 _ Hn) as [A2 C2]. rewrite (Hin d Hd), A2. reflexivity.
    + intros id Hid. rewrite answers_of_app, count_calls_app.
      assert (H1 : ~ In id (map d_id b)) by (intros H; apply Hid; rewrite map_app; apply in_or_app; now left).
      assert (H2 : ~ In id (map d_id (concat bs))) by (intros H; apply Hid; rewrite map_app; apply in_or_app; now right).
      destruct (Hout1 _ H1) as [A C]. destruct (Hout _ H2) as [A2 C2]. rewrite A, A2, C, C2. split; reflexivity.
Qed.

(* ---------- with whole-request errors: which answer, and which batch ---------- *)
Lemma run_trace_bfate cfg sc : forall batches,
  NoDup (map d_id (concat batches)) ->
  forall b d, In b batches -> In d b ->
    answers_of (d_id d) (tr_answers (run_trace cfg sc batches))
    = [fst (bfate (fuel_for cfg sc) (max_retries cfg) sc b 0 0 d)]
    /\ count_calls (d_id d) (tr_calls (run_trace cfg sc batches))
       = snd (bfate (fuel_for cfg sc) (max_retries cfg) sc b 0 0 d).
Proof.
  induction batches as [|b0 bs IH]; simpl; intros N b d Hb Hd; [contradiction|].
  rewrite map_app in N. destruct (NoDup_app_parts _ _ N) as [Nb Nbs].
  destruct (run_trace_once cfg sc bs Nbs) as [_ [_ Hout]].
  destruct (batch_bfate cfg sc b0 Nb) as [_ [Hin1 Hout1]]. cbn [fresh t_docs t_n t_send] in Hin1, Hout1.
  cbn [tr_app tr_answers tr_calls]. rewrite answers_of_app, count_calls_app.
  destruct Hb as [->|Hb].
  - assert (Hn : ~ In (d_id d) (map d_id (concat bs))) by (eapply NoDup_app_disj; eauto; now apply in_map).
    destruct (Hout _ Hn) as [A2 C2]. destruct (Hin1 d Hd) as [A C]. rewrite A, A2, C2. split; [reflexivity|lia].
  - assert (Hdc : In d (concat bs)) by (apply in_concat; exists b; auto).
    assert (Hn : ~ In (d_id d) (map d_id b0)).
    { intros H. eapply NoDup_app_disj; eauto. now apply in_map. }
    destruct (Hout1 _ Hn) as [A2 C2]. destruct (IH Nbs b d Hb Hd) as [A C]. rewrite A, A2, C2, C. split; reflexivity.
Qed.

Lemma batch_of_acc_app id best a x : batch_of_acc id best (a ++ x) = batch_of_acc id (batch_of_acc id best a) x.
Proof. revert best; induction a as [|c a IH]; intros best; simpl; auto. Qed.

Lemma batch_of_acc_keep id best calls :
  (forall c, In c calls -> has_doc id c = true -> (length c <= length best)%nat) -> batch_of_acc id best calls = best.
Proof.
  revert best; induction calls as [|c calls IH]; intros best H; simpl; [reflexivity|].
  destruct (has_doc id c) eqn:E; simpl.
  - assert (Hl : (length c <= length best)%nat) by (apply H; [now left|assumption]).
    destruct (length best <? length c)%nat eqn:El; [apply Nat.ltb_lt in El; lia|].
    apply IH. intros c' Hc'. apply H. now right.
  - apply IH. intros c' Hc'. apply H. now right.
Qed.

Lemma count_calls_zero id calls c : count_calls id calls = 0%nat -> In c calls -> has_doc id c = false.
Proof.
  unfold count_calls. induction calls as [|x calls IH]; simpl; intros H Hin; [contradiction|].
  destruct (has_doc id x) eqn:E; simpl in H; [discriminate|]. destruct Hin as [->|Hin]; auto.
Qed.

Lemma lineage_first_call cfg sc b : b <> [] ->
  exists rest, tr_calls (lineage (fuel_for cfg sc) cfg sc (fresh b)) = b :: rest.
Proof.
  intros Hne. unfold fuel_for. replace (script_len sc + max_retries cfg + 2)%nat with (S (script_len sc + max_retries cfg + 1)) by lia.
  rewrite lineage_S. cbn [tr_app tr_calls]. unfold call_of. cbn [fresh t_docs]. destruct b; [contradiction|]. eexists; reflexivity.
Qed.

Lemma batch_of_run cfg sc : forall batches,
  NoDup (map d_id (concat batches)) ->
  forall b d, In b batches -> In d b -> batch_of (d_id d) (tr_calls (run_trace cfg sc batches)) = b.
Proof.
  unfold batch_of. induction batches as [|b0 bs IH]; simpl; intros N b d Hb Hd; [contradiction|].
  rewrite map_app in N. destruct (NoDup_app_parts _ _ N) as [Nb Nbs].
  destruct (run_trace_once cfg sc bs Nbs) as [_ [_ Hout]].
  destruct (batch_once cfg sc b0 Nb) as [_ [_ Hout1]]. cbn [fresh t_docs] in Hout1.
  rewrite batch_of_acc_app.
  assert (Hd0 : In d b0 \/ (In b bs /\ ~ In (d_id d) (map d_id b0))).
  { destruct Hb as [->|Hb]; [now left|]. destruct (in_dec Z.eq_dec (d_id d) (map d_id b0)) as [Hi|Hi]; [|now right].
    exfalso. eapply NoDup_app_disj; eauto. apply in_map. apply in_concat. exists b; auto. }
  destruct Hd0 as [Hd0 | [Hb' Hn0]].
  - (* d is in the first batch, hence b = b0 *)
    assert (b = b0).
    { destruct Hb as [->|Hb]; [reflexivity|]. exfalso.
      eapply NoDup_app_disj; eauto; [apply in_map; exact Hd0|]. apply in_map. apply in_concat. exists b; auto. }
    subst b.
    assert (Hne : b0 <> []) by (intros ->; contradiction).
    destruct (lineage_first_call cfg sc b0 Hne) as [rest Er]. rewrite Er. cbn [batch_of_acc].
    rewrite (has_doc_in d b0 Hd0). cbn [length andb].
    assert (El : (0 <? length b0)%nat = true) by (apply Nat.ltb_lt; destruct b0; [contradiction|simpl; lia]).
    rewrite El.
    rewrite (batch_of_acc_keep (d_id d) b0 rest).
    + apply batch_of_acc_keep. intros c Hc Hh.
      assert (Hn : ~ In (d_id d) (map d_id (concat bs))) by (eapply NoDup_app_disj; eauto; now apply in_map).
      destruct (Hout _ Hn) as [_ C]. rewrite (count_calls_zero _ _ c C Hc) in Hh. discriminate.
    + intros c Hc _.
      assert (Hin : In c (tr_calls (lineage (fuel_for cfg sc) cfg sc (fresh b0)))) by (rewrite Er; now right).
      apply lineage_calls_filter in Hin as [_ [p ->]]. cbn [fresh t_docs]. apply filter_length_le'.
  - rewrite (batch_of_acc_keep (d_id d) [] (tr_calls (lineage (fuel_for cfg sc) cfg sc (fresh b0)))).
    + apply (IH Nbs b d Hb' Hd).
    + intros c Hc Hh. destruct (Hout1 _ Hn0) as [_ C]. rewrite (count_calls_zero _ _ c C Hc) in Hh. discriminate.
Qed.

(* ---------- assembling the decision procedure ---------- *)
Lemma lookup_map (h : Z -> list tree) ids id :
  In id ids -> lookup_answers id (map (fun i => (i, h i)) ids) = h id.
Proof.
  induction ids as [|a ids IH]; simpl; intros H; [contradiction|].
  destruct (a =? id) eqn:E; [apply Z.eqb_eq in E; now subst|].
  destruct H as [->|H]; [rewrite Z.eqb_refl in E; discriminate|auto].
Qed.

Lemma flat_map_nil {A B} (f : A -> list B) l : (forall x, In x l -> f x = []) -> flat_map f l = [].
Proof. induction l as [|x l IH]; simpl; intros H; [reflexivity|]. rewrite (H x (or_introl eq_refl)), IH; auto. Qed.

Lemma flat_map_ext_in' {A B} (f g : A -> list B) l : (forall x, In x l -> f x = g x) -> flat_map f l = flat_map g l.
Proof. induction l as [|x l IH]; simpl; intros H; [reflexivity|]. rewrite (H x (or_introl eq_refl)), IH; auto. Qed.

Lemma answers_of_bads_out bads id : ~ In id bads -> answers_of id (map (fun i => (i, AOther)) bads) = [].
Proof.
  intros H. apply answers_of_other. intros x Hx. apply in_map_iff in Hx as [j [<- Hj]]. simpl. intros ->. contradiction.
Qed.
Lemma answers_of_bads_in bads id :
  NoDup bads -> In id bads -> answers_of id (map (fun i => (i, AOther)) bads) = [AOther].
Proof.
  induction bads as [|a bads IH]; simpl; intros N H; [contradiction|].
  inversion N as [|? ? Hn Hd]; subst. unfold answers_of in *. simpl.
  destruct H as [->|H].
  - rewrite Z.eqb_refl. simpl. f_equal. apply (answers_of_bads_out bads id Hn).
  - destruct (a =? id) eqn:E; [apply Z.eqb_eq in E; subst; contradiction|]. now apply IH.
Qed.

Lemma doc_eqb_refl d : doc_eqb d d = true.
Proof. unfold doc_eqb. now rewrite !Z.eqb_refl. Qed.

(* ---------- the closed form of "still pending when Shutdown comes" is the batcher's pending batch ---------- *)
Definition sp_step (acc : list doc) (o : op) : list doc :=
  match o with OpDoc d => acc ++ [d] | OpPause => [] | OpBad _ => acc end.

Definition pinv (cfg : ecfg) (s : bstate) (l : list doc) : Prop :=
  exists k pre, l = pre ++ b_pending s /\ length pre = (k * batch_size cfg)%nat
                /\ (length (b_pending s) < batch_size cfg)%nat.

Lemma pinv_step cfg s l o : pinv cfg s l -> pinv cfg (bstep cfg s o) (sp_step l o).
Proof.
  intros [k [pre [E [Hk Hp]]]]. destruct o as [d|id|]; cbn [bstep sp_step].
  - destruct (length (b_pending s ++ [d]) =? batch_size cfg)%nat eqn:Eb.
    + apply Nat.eqb_eq in Eb. exists (S k), (pre ++ b_pending s ++ [d]). cbn [b_pending]. repeat split.
      * now rewrite E, app_nil_r, app_assoc.
      * rewrite app_length, Eb, Hk. simpl. lia.
      * simpl; lia.
    + apply Nat.eqb_neq in Eb. exists k, pre. cbn [b_pending]. repeat split; auto.
      * now rewrite E, app_assoc.
      * rewrite app_length in *. simpl in *. lia.
  - exists k, pre. auto.
  - exists 0%nat, []. cbn [b_pending]. repeat split; simpl; lia.
Qed.

Lemma pinv_fold cfg ops : forall s l, pinv cfg s l -> pinv cfg (fold_left (bstep cfg) ops s) (fold_left sp_step ops l).
Proof. induction ops as [|o ops IH]; simpl; intros s l H; auto. apply IH. now apply pinv_step. Qed.

Lemma skipn_app_exact {A} (a b : list A) : skipn (length a) (a ++ b) = b.
Proof. induction a; simpl; auto. Qed.

Lemma pending_closed cfg ops :
  (1 <= batch_size cfg)%nat -> b_pending (brun cfg ops) = pending_at_end cfg ops.
Proof.
  intros Hb. unfold pending_at_end, brun.
  assert (H0 : pinv cfg b_init []) by (exists 0%nat, []; repeat split; simpl; lia).
  pose proof (pinv_fold cfg ops _ _ H0) as [k [pre [E [Hk Hp]]]].
  change (since_pause ops) with (fold_left sp_step ops []). rewrite E.
  set (pend := b_pending (fold_left (bstep cfg) ops b_init)) in *.
  rewrite app_length, Hk.
  replace ((k * batch_size cfg + length pend) mod batch_size cfg)%nat with (length pend).
  - replace (k * batch_size cfg + length pend - length pend)%nat with (length pre) by lia.
    now rewrite skipn_app_exact.
  - rewrite Nat.add_comm, Nat.mod_add by lia. symmetry. apply Nat.mod_small. assumption.
Qed.

Lemma bpart_any cfg ops clean :
  let s := bfinish cfg clean (brun cfg ops) in
  concat (b_batches s) ++ b_pending s = docs_of ops /\ b_direct s = map (fun id => (id, AOther)) (bads_of ops)
  /\ b_pending s = if clean then [] else b_pending (brun cfg ops).
Proof.
  cbv zeta. assert (H : bpart (brun cfg ops) (docs_of ops) (bads_of ops)).
  { apply (bpart_fold cfg ops b_init [] []). split; reflexivity. }
  destruct H as [H1 H2]. destruct clean; unfold bfinish; cbn [bstep b_batches b_pending b_direct].
  - repeat split; auto. rewrite concat_app. simpl. now rewrite !app_nil_r.
  - repeat split; auto.
Qed.

(* ---------- the model's own observation, judged by the decision procedure ---------- *)
(* On EVERY scenario of the quantifier (whole-request errors and late responses included) the only clauses the
   model fails are: clause 6, detail 1, once for each request that was still pending when Shutdown ran. *)
Theorem spec_c14_model i :
  in_domain14 i = true ->
  spec_c14 i (model_eobs i)
  = map (fun d => clause 14 6 [L 1; L (d_id d)]) (e_dropped (es_run (ei_cfg i) (ei_script i) (ei_ops i) (ei_clean i)))
    ++ (if ei_gate i
        then map (fun d => clause 14 6 [L 2; L (d_id d)])
                 (concat (b_batches (bfinish (ei_cfg i) (ei_clean i) (brun (ei_cfg i) (ei_ops i)))))
        else []).
Proof.
  intros Hd. unfold spec_c14, model_eobs. cbn [eo_unreliable eo_answers eo_calls eo_high eo_timeout eo_at_shutdown]. rewrite Hd. cbn [orb negb].
  cbv zeta.
  unfold in_domain14 in Hd. apply andb_true_iff in Hd as [Hd Hnd]. apply andb_true_iff in Hd as [Hd Hw].
  apply andb_true_iff in Hd as [Hbs Hmr]. apply Nat.leb_le in Hbs. apply nodupb_NoDup in Hnd.
  destruct (op_ids_nodup _ Hnd) as [Nd [Nb Disj]].
  set (cfg := ei_cfg i) in *. set (sc := ei_script i) in *. set (ops := ei_ops i) in *. set (clean := ei_clean i) in *.
  destruct (bpart_any cfg ops clean) as [Hcat [Hdir Hpend]]. cbv zeta in Hcat, Hdir, Hpend.
  set (s := bfinish cfg clean (brun cfg ops)) in *.
  assert (EA : e_answers (es_run cfg sc ops clean) = map (fun id => (id, AOther)) (bads_of ops) ++ tr_answers (run_trace cfg sc (b_batches s)))
    by (unfold es_run; cbn [e_answers]; fold s; now rewrite Hdir).
  assert (EC : e_calls (es_run cfg sc ops clean) = tr_calls (run_trace cfg sc (b_batches s))) by reflexivity.
  assert (ED : e_dropped (es_run cfg sc ops clean) = b_pending s) by reflexivity.
  assert (EP : (if clean then [] else pending_at_end cfg ops) = b_pending s).
  { rewrite Hpend. destruct clean; [reflexivity|]. symmetry. now apply pending_closed. }
  rewrite EP, ED. clear EP.
  set (sent := concat (b_batches s)) in *. set (pend := b_pending s) in *.
  rewrite <- Hcat in Nd. rewrite map_app in Nd. destruct (NoDup_app_parts _ _ Nd) as [Nsent Npend].
  destruct (run_trace_once cfg sc (b_batches s) Nsent) as [_ [Hlen Hout]]. fold sent in Hlen, Hout.
  assert (Hdocs : forall id, In id (map d_id (docs_of ops)) <-> In id (map d_id sent) \/ In id (map d_id pend)).
  { intros id. rewrite <- Hcat, map_app, in_app_iff. tauto. }
  (* lookups *)
  assert (LK : forall id, In id (op_ids ops) ->
            lookup_answers id (map (fun id => (id, map enc_answer (answers_of id (e_answers (es_run cfg sc ops clean))))) (op_ids ops))
            = map enc_answer (answers_of id (map (fun id => (id, AOther)) (bads_of ops))
                              ++ answers_of id (tr_answers (run_trace cfg sc (b_batches s))))).
  { intros id Hid.
    rewrite (lookup_map (fun id => map enc_answer (answers_of id (e_answers (es_run cfg sc ops clean)))) (op_ids ops) id Hid).
    now rewrite EA, answers_of_app. }
  assert (LKdoc : forall d, In (d_id d) (map d_id (docs_of ops)) ->
            lookup_answers (d_id d) (map (fun id => (id, map enc_answer (answers_of id (e_answers (es_run cfg sc ops clean))))) (op_ids ops))
            = map enc_answer (answers_of (d_id d) (tr_answers (run_trace cfg sc (b_batches s))))).
  { intros d Hdin. rewrite LK by (apply op_ids_split; now left).
    now rewrite answers_of_bads_out by (now apply Disj). }
  (* a pending document is dropped, a sent one is not *)
  assert (Dpend : forall d, In d pend ->
            has_doc (d_id d) pend && is_empty_list (lookup_answers (d_id d)
              (map (fun id => (id, map enc_answer (answers_of id (e_answers (es_run cfg sc ops clean))))) (op_ids ops))) = true).
  { intros d Hdp. rewrite (has_doc_in d pend Hdp).
    rewrite LKdoc by (apply Hdocs; right; now apply in_map).
    assert (Hn : ~ In (d_id d) (map d_id sent)).
    { intros H. eapply (NoDup_app_disj _ _ _ Nd H). now apply in_map. }
    destruct (Hout _ Hn) as [A _]. rewrite A. reflexivity. }
  assert (Dsent : forall d, In d sent -> has_doc (d_id d) pend = false).
  { intros d Hds. apply has_doc_out. eapply NoDup_app_disj; eauto. now apply in_map. }
  rewrite <- Hcat. rewrite !flat_map_app.
  assert (P1 : forall (A1 A2 B1 B2 C D E G X Y : list tree),
             A1 = [] -> A2 = X -> B1 = [] -> B2 = [] -> C = [] -> D = [] -> E = [] -> G = Y ->
             (A1 ++ A2) ++ (B1 ++ B2) ++ C ++ D ++ [] ++ E ++ G = X ++ Y)
    by (intros; subst; now rewrite !app_nil_r).
  apply P1.
  - (* clause 1 / 6 on sent documents *)
    apply flat_map_nil. intros d Hds. rewrite (Dsent d Hds). cbn [andb].
    rewrite LKdoc by (apply Hdocs; left; now apply in_map).
    destruct (no_whole sc) eqn:Hnw.
    + destruct (run_trace_ok cfg sc Hnw (b_batches s) Nsent) as [_ [Hin _]]. fold sent in Hin.
      destruct (Hin d Hds) as [A _]. rewrite A. cbn [map]. now rewrite (list_eqb_refl tree_eqb tree_eqb_refl).
    + assert (Hds' := Hds). unfold sent in Hds'. apply in_concat in Hds' as [b [Hb Hdb]].
      destruct (run_trace_bfate cfg sc (b_batches s) Nsent b d Hb Hdb) as [A _].
      rewrite EC, (batch_of_run cfg sc (b_batches s) Nsent b d Hb Hdb), A. cbn [map].
      now rewrite (list_eqb_refl tree_eqb tree_eqb_refl).
  - (* clause 6 on pending documents *)
    rewrite (map_as_flat_map (fun d : doc => clause 14 6 [L 1; L (d_id d)]) pend). apply flat_map_ext_in'. intros d0 Hd0. now rewrite (Dpend d0 Hd0).
  - apply flat_map_nil. intros d Hds. rewrite (Dsent d Hds). cbn [andb orb].
    destruct (no_whole sc) eqn:Hnw.
    + destruct (run_trace_ok cfg sc Hnw (b_batches s) Nsent) as [_ [Hin _]]. fold sent in Hin.
      destruct (Hin d Hds) as [_ C]. rewrite EC, C, Nat.eqb_refl. reflexivity.
    + assert (Hds' := Hds). unfold sent in Hds'. apply in_concat in Hds' as [b [Hb Hdb]].
      destruct (run_trace_bfate cfg sc (b_batches s) Nsent b d Hb Hdb) as [_ C].
      rewrite EC, (batch_of_run cfg sc (b_batches s) Nsent b d Hb Hdb), C, Nat.eqb_refl. reflexivity.
  - apply flat_map_nil. intros d Hdp. now rewrite (Dpend d Hdp).
  - match goal with |- (if ?b then _ else _) = _ => assert (Hb : b = true); [|now rewrite Hb] end.
    apply forallb_forall. intros c Hcin.
    destruct (run_calls_shape cfg sc ops clean c Hbs Hcin) as [b [p [Hb [-> [Hne Hlen']]]]]. fold s in Hb.
    assert (Hsub : forall x, In x b -> In x (sent ++ pend)).
    { intros x Hx. apply in_or_app. left. apply in_concat. exists b; auto. }
    assert (Nbb : NoDup (map d_id b)).
    { clear - Hb Nsent. unfold sent in Nsent. induction (b_batches s) as [|b0 l IH]; [contradiction|]. simpl in Nsent. rewrite map_app in Nsent.
      destruct (NoDup_app_parts _ _ Nsent) as [N1 N2]. destruct Hb as [->|Hb]; auto. }
    apply andb_true_iff; split; [apply andb_true_iff; split|].
    + apply Nat.leb_le; exact Hlen'.
    + apply nodupb_NoDup. now apply NoDup_map_filter.
    + apply forallb_forall. intros x Hx. apply filter_In in Hx as [Hx _]. apply existsb_exists.
      exists x. split; [now apply Hsub|apply doc_eqb_refl].
  - destruct (0 <=? Z.of_nat (workers cfg)) eqn:E; [reflexivity|lia].
  - apply flat_map_nil. intros id Hid.
    rewrite LK by (apply op_ids_split; now right).
    assert (Hno : ~ In id (map d_id sent)) by (intros H; apply (Disj id); [apply Hdocs; now left|exact Hid]).
    destruct (Hout id Hno) as [A C].
    rewrite (answers_of_bads_in _ _ Nb Hid), A, EC, C. cbn [map app enc_answer].
    rewrite (list_eqb_refl tree_eqb tree_eqb_refl). reflexivity.
  - (* requests in flight when Shutdown returned *)
    destruct (ei_gate i); [|reflexivity].
    assert (G2 : forall (G1 G2 Y : list tree), G1 = Y -> G2 = [] -> G1 ++ G2 = Y) by (intros; subst; now rewrite app_nil_r).
    apply G2.
    + rewrite (map_as_flat_map (fun d : doc => clause 14 6 [L 2; L (d_id d)]) sent). apply flat_map_ext_in'.
      intros d Hds. rewrite (Dsent d Hds). cbn [andb orb].
      assert (Hnb : existsb (Z.eqb (d_id d)) (bads_of ops) = false).
      { destruct (existsb (Z.eqb (d_id d)) (bads_of ops)) eqn:E; [|reflexivity].
        apply existsb_Zeqb_In in E. exfalso. apply (Disj (d_id d)); [apply Hdocs; left; now apply in_map|exact E]. }
      now rewrite Hnb.
    + apply flat_map_nil. intros d Hdp. now rewrite (Dpend d Hdp).
Qed.

Corollary spec_c14_sound_clean i :
  in_domain14 i = true -> ei_clean i = true -> ei_gate i = false -> spec_c14 i (model_eobs i) = [].
Proof.
  intros Hd Hc Hg. rewrite (spec_c14_model i Hd). rewrite Hg, app_nil_r.
  destruct (bpart_any (ei_cfg i) (ei_ops i) (ei_clean i)) as [_ [_ Hp]]. cbv zeta in Hp. rewrite Hc in Hp.
  unfold es_run. cbn [e_dropped]. rewrite Hc, Hp. reflexivity.
Qed.
