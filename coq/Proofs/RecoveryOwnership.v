(* E4 — ownership lemmas (C09) and truncation (C07) *)
From Coq Require Import List ZArith Bool Lia ZifyBool.
From FB Require Import Lib.Sexp Lib.Eqb Model.Tracker Model.Offsets Model.Recovery Judge.E4.
From FB Require Import Proofs.RecoveryProofs.
Import ListNotations.
Open Scope Z_scope.

(* ---------- candidates = owned /\ requested ---------- *)
Definition cand_entry (act : amap) (t : tstate) (p : Z) : option (Z * Z) :=
  match get t p with
  | Some (f, to) => Some (match pget p act with Some (af, _) => Z.max f af | None => f end, to)
  | None => None
  end.

Lemma candidates_get act t : forall ow p,
  pget p (candidates ow act t) = if existsb (Z.eqb p) ow then cand_entry act t p else None.
Proof.
  induction ow as [|q ow IH]; intros p; cbn [candidates existsb]; [reflexivity|].
  destruct (Z.eq_dec p q) as [->|Hne].
  - rewrite Z.eqb_refl. cbn [orb]. unfold cand_entry. destruct (get t q) as [[f to]|] eqn:Eg.
    + rewrite pget_pput_same. destruct (pget q act) as [[af x]|]; [|reflexivity].
      destruct (af >? f) eqn:E; do 2 f_equal; lia.
    + rewrite IH. destruct (existsb (Z.eqb q) ow); [unfold cand_entry; now rewrite Eg|reflexivity].
  - replace (p =? q) with false by lia. cbn [orb]. destruct (get t q) as [[f to]|]; [|apply IH].
    rewrite pget_pput_other by assumption. apply IH.
Qed.

(* keys of a map *)
Definition keys {A} (m : pmap A) : list Z := map fst m.

Fixpoint ssorted (l : list Z) : Prop :=
  match l with
  | [] => True
  | x :: r => (match r with [] => True | y :: _ => x < y end) /\ ssorted r
  end.

Lemma ssorted_lb x l : ssorted (x :: l) -> forall y, In y l -> x < y.
Proof.
  revert x. induction l as [|z l IH]; intros x H y Hy; [destruct Hy|].
  destruct H as [Hxz Hs]. destruct Hy as [<-|Hy]; [assumption|].
  specialize (IH z Hs y Hy). lia.
Qed.

Lemma ssorted_NoDup l : ssorted l -> NoDup l.
Proof.
  induction l as [|x l IH]; intros H; constructor.
  - intros Hin. pose proof (ssorted_lb x l H x Hin). lia.
  - apply IH. destruct H; assumption.
Qed.

Lemma pput_keys_sorted {A} p (v : A) m : ssorted (keys m) -> ssorted (keys (pput p v m)).
Proof.
  induction m as [|[q w] m IH]; intros H; cbn [pput keys map fst]; [cbn; auto|].
  destruct (p <? q) eqn:E1; [cbn [keys map fst ssorted] in *; split; [lia|exact H]|].
  destruct (q =? p) eqn:E2.
  - cbn [keys map fst] in *. replace p with q by lia. exact H.
  - cbn [keys map fst] in *. destruct H as [H1 H2]. specialize (IH H2). split; [|exact IH].
    destruct m as [|[k u] m]; cbn [pput keys map fst] in *; [lia|].
    destruct (p <? k); cbn [map fst]; [lia|]. destruct (k =? p) eqn:E3; cbn [map fst]; lia.
Qed.

Lemma candidates_sorted act t ow : ssorted (keys (candidates ow act t)).
Proof.
  induction ow as [|q ow IH]; cbn [candidates]; [exact I|]. destruct (get t q) as [[f to]|]; [|exact IH].
  apply pput_keys_sorted. exact IH.
Qed.

Lemma pget_in_keys {A} p (m : pmap A) : pget p m <> None <-> In p (keys m).
Proof.
  induction m as [|[q w] m IH]; cbn [pget keys map fst]; [split; [congruence|intros []]|].
  destruct (q =? p) eqn:E.
  - split; [intros _; left; lia|congruence].
  - rewrite IH. split; [intros H; right; exact H|intros [H|H]; [lia|exact H]].
Qed.

(* not changed: same partitions and same to offsets *)
Lemma unchanged_same_keys cand act :
  ssorted (keys cand) -> ssorted (keys act) -> changed cand act = false ->
  forall p, (pget p cand <> None <-> pget p act <> None)
            /\ (forall f t af at', pget p cand = Some (f, t) -> pget p act = Some (af, at') -> t = at').
Proof.
  intros Hc Ha H. unfold changed in H. destruct (length cand =? length act)%nat eqn:El; [|discriminate].
  assert (Hall : forall c, In c cand -> exists af, pget (fst c) act = Some (af, snd (snd c))).
  { intros c Hc'. destruct (pget (fst c) act) as [[af to]|] eqn:E.
    - exists af. do 2 f_equal. destruct (snd (snd c) =? to) eqn:E2; [lia|].
      exfalso. apply Bool.not_true_iff_false in H. apply H. apply existsb_exists. exists c. split; [assumption|]. rewrite E, E2. reflexivity.
    - exfalso. apply Bool.not_true_iff_false in H. apply H. apply existsb_exists. exists c. split; [assumption|]. now rewrite E. }
  assert (Hincl : incl (keys cand) (keys act)).
  { intros k Hk. unfold keys in Hk. apply in_map_iff in Hk as [c [<- Hc']]. destruct (Hall c Hc') as [af E].
    apply pget_in_keys. congruence. }
  assert (Hincl2 : incl (keys act) (keys cand)).
  { apply NoDup_length_incl; [apply ssorted_NoDup; assumption| |assumption].
    unfold keys. rewrite !map_length. apply Nat.eqb_eq in El. lia. }
  intros p. split.
  - rewrite !pget_in_keys. split; [apply Hincl|apply Hincl2].
  - intros f t af at' E1 E2.
    assert (Hin : exists c, In c cand /\ fst c = p /\ snd c = (f, t)).
    { clear -E1. induction cand as [|[q w] cand IH]; cbn [pget] in E1; [discriminate|].
      destruct (q =? p) eqn:E.
      - inversion E1; subst. exists (q, (f, t)). split; [left; reflexivity|split; [cbn; lia|reflexivity]].
      - destruct (IH E1) as [c [H1 H2]]. exists c. split; [right; assumption|assumption]. }
    destruct Hin as [c [Hc' [Hp Hv]]]. destruct (Hall c Hc') as [af' E]. rewrite Hp, E2 in E. rewrite Hv in E. cbn in E. congruence.
Qed.

(* C09: what a refresh establishes.  For every partition: it is active afterwards iff it is owned and has an outstanding
   request; its to is the request's to; its from is the request's from or the from it had reached, whichever is larger,
   when the client is re-assigned, and unchanged otherwise; the client is re-assigned (Unassign, Assign at exactly
   the from offsets) iff the set of partitions or some to changed. *)
Lemma refresh_exact s s' calls :
  ssorted (keys (active s)) -> refresh s = (s', calls) ->
  owned s' = owned s /\ trk s' = trk s /\ ssorted (keys (active s')) /\
  (forall p, pget p (active s') <> None <-> (In p (owned s) /\ get (trk s) p <> None)) /\
  (forall p f t, pget p (active s') = Some (f, t) -> exists rf, get (trk s) p = Some (rf, t) /\
       ((calls <> [] /\ f = match pget p (active s) with Some (af, _) => Z.max rf af | None => rf end)
        \/ (calls = [] /\ pget p (active s) = Some (f, t)))) /\
  (calls = [] \/ (calls = [CUnassign; CAssign (assign_arg (active s'))] /\ cli s' = assign_arg (active s'))) /\
  (calls = [] -> s' = s).
Proof.
  intros Hs H. unfold refresh in H.
  set (cand := candidates (owned s) (active s) (trk s)) in *.
  assert (Hget : forall p, pget p cand = if existsb (Z.eqb p) (owned s) then cand_entry (active s) (trk s) p else None)
    by (intros p; apply candidates_get).
  assert (Hdom : forall p, pget p cand <> None <-> (In p (owned s) /\ get (trk s) p <> None)).
  { intros p. rewrite Hget. destruct (existsb (Z.eqb p) (owned s)) eqn:E.
    - apply existsb_Zeqb_In in E. unfold cand_entry. destruct (get (trk s) p) as [[f t]|]; split; try congruence; try tauto.
      intros _; split; [assumption|congruence].
    - split; [congruence|]. intros [Hin _]. apply existsb_Zeqb_In in Hin. congruence. }
  destruct (changed cand (active s)) eqn:Ec; inversion H; subst; cbn [owned trk active cli].
  - split; [reflexivity|]. split; [reflexivity|]. split; [apply candidates_sorted|]. split; [exact Hdom|].
    split; [|split; [right; split; reflexivity|discriminate]].
    intros p f t E. rewrite Hget in E. destruct (existsb (Z.eqb p) (owned s)); [|discriminate].
    unfold cand_entry in E. destruct (get (trk s) p) as [[rf rt]|]; [|discriminate]. inversion E; subst.
    exists rf. split; [reflexivity|]. left. split; [discriminate|]. destruct (pget p (active s)) as [[af x]|]; reflexivity.
  - pose proof (unchanged_same_keys cand (active s') (candidates_sorted _ _ _) Hs Ec) as Hu.
    split; [reflexivity|]. split; [reflexivity|]. split; [assumption|].
    split; [intros p; rewrite <- (proj1 (Hu p)); apply Hdom|].
    split; [|split; [left; reflexivity|reflexivity]].
    intros p f t E. assert (Hc : pget p cand <> None) by (apply (proj1 (Hu p)); rewrite E; discriminate).
    destruct (pget p cand) as [[cf ct]|] eqn:E2; [|congruence].
    pose proof (proj2 (Hu p) cf ct f t E2 E) as ->.
    rewrite Hget in E2. destruct (existsb (Z.eqb p) (owned s')); [|discriminate]. unfold cand_entry in E2.
    destruct (get (trk s') p) as [[rf rt]|]; [|discriminate]. inversion E2; subst. exists rf. split; [reflexivity|]. right. split; [reflexivity|exact E].
Qed.

(* ---------- revocation ---------- *)
Lemma candidates_nil_owned act t : candidates [] act t = [].
Proof. reflexivity. Qed.

Lemma revoke_clears cfg s :
  let s' := fst (rstep cfg s Revoke) in owned s' = [] /\ active s' = [] /\ o_emits (snd (rstep cfg s Revoke)) = [].
Proof.
  cbn [rstep]. unfold refresh. cbn [owned active trk candidates].
  destruct (active s) as [|a act] eqn:Ea; cbn [changed length Nat.eqb existsb]; cbn [fst snd owned active o_emits]; auto.
Qed.

Definition assigns (op : rop) : bool := match op with SetOwned _ | MAssign _ _ => true | _ => false end.

Lemma rec_step_idle cfg s p o : active s = [] -> rec_step cfg s p o = (s, out_nil).
Proof. intros H. unfold rec_step. rewrite H. reflexivity. Qed.

Lemma pump_idle cfg : forall k s p, active s = [] ->
  active (fst (pump cfg s p k)) = [] /\ owned (fst (pump cfg s p k)) = owned s /\ o_emits (snd (pump cfg s p k)) = [].
Proof.
  induction k as [|k IH]; intros s p H; cbn [pump fst snd out_nil o_emits]; auto.
  unfold fresh_step. destruct (pget p (cli s)) as [n|].
  - rewrite rec_step_idle by assumption. cbn [o_calls out_nil].
    set (s1 := {| owned := owned s; active := active s; trk := trk s; cli := bump p (cli s); mlog := mlog s |}).
    destruct (IH s1 p H) as [H1 [H2 H3]]. destruct (pump cfg s1 p k) as [s2 o2]. cbn [fst snd out_app out_nil o_emits app] in *. auto.
  - destruct (IH s p H) as [H1 [H2 H3]]. destruct (pump cfg s p k) as [s2 o2]. cbn [fst snd out_app out_nil o_emits app] in *. auto.
Qed.

(* while nothing is owned and nothing is active, no op other than a new assignment makes the consumer recover anything *)
Lemma idle_step cfg s op :
  owned s = [] -> active s = [] -> assigns op = false ->
  owned (fst (rstep cfg s op)) = [] /\ active (fst (rstep cfg s op)) = [] /\ rec_emits (o_emits (snd (rstep cfg s op))) = [].
Proof.
  intros Ho Ha Hop. destruct op as [p k|p d|p d|p o|p o|code wm lows| |ps| |p f t|cerr pcs|m| |p|p d]; try discriminate; cbn [rstep].
  - destruct (pump_idle cfg k s p Ha) as [H1 [H2 H3]]. rewrite H1, H2, H3. auto.
  - rewrite rec_step_idle by assumption. auto.
  - unfold ahead_step. rewrite Ha. destruct (pget p (cli s)); cbn; auto.
  - rewrite rec_step_idle by assumption. auto.
  - cbn. auto.
  - unfold kerr_step. destruct ((code =? 1) || (code =? 2)); [|cbn; auto]. destruct wm; [cbn; auto|].
    rewrite Ha. cbn. auto.
  - unfold refresh. rewrite Ho, Ha. cbn. auto.
  - unfold refresh. cbn [owned active trk candidates]. rewrite Ha. cbn. auto.
  - destruct (trim _ _). cbn. auto.
  - destruct m; cbn; auto.
  - cbn. auto.
  - unfold rec_crash, would_send. rewrite Ha. cbn [pget]. destruct (pget p (cli s)); [|cbn; auto].
    rewrite rec_step_idle by assumption. cbn. auto.
  - unfold wild_step. rewrite Ha. destruct (pget p (cli s)); cbn; auto.
Qed.

Lemma idle_run cfg : forall ops s,
  owned s = [] -> active s = [] -> forallb (fun op => negb (assigns op)) ops = true ->
  forall so, In so (rrun cfg s ops) -> rec_emits (o_emits (snd so)) = [].
Proof.
  induction ops as [|op ops IH]; intros s Ho Ha Hq so Hin; cbn [rrun] in Hin; [destruct Hin|].
  cbn [forallb] in Hq. apply andb_true_iff in Hq as [Hq1 Hq2]. apply negb_true_iff in Hq1.
  destruct (idle_step cfg s op Ho Ha Hq1) as [H1 [H2 H3]].
  destruct (rstep cfg s op) as [s' out]. cbn [fst snd] in *. destruct Hin as [<-|Hin]; [exact H3|].
  eapply IH; eauto.
Qed.
