(* E3 — soundness of the decision procedure [spec_c08] for the model: on every history the
   model's own observation passes every clause. *)
From Coq Require Import List ZArith Bool Lia ZifyBool.
From FB Require Import Lib.Sexp Lib.Eqb Model.Tracker Model.TrackerWire Judge.E3 Proofs.TrackerProofs.
Import ListNotations.
Open Scope Z_scope.

Lemma reqs_eqb_refl l : reqs_eqb l l = true.
Proof. apply list_eqb_refl. apply zz_eqb_refl. Qed.
Lemma oreqs_eqb_refl o : oreqs_eqb o o = true.
Proof. apply opt_eqb_refl. apply reqs_eqb_refl. Qed.
Lemma reqs_eqb_eq a b : reqs_eqb a b = true -> a = b.
Proof. apply list_eqb_eq. apply zz_eqb_eq. Qed.
Lemma oreqs_eqb_eq a b : oreqs_eqb a b = true -> a = b.
Proof. apply opt_eqb_eq. apply reqs_eqb_eq. Qed.
Lemma chk_true c b : b = true -> chk c b = [].
Proof. intros ->. reflexivity. Qed.
Lemma same_at_refl s q : same_at s s q = true.
Proof. apply oreqs_eqb_refl. Qed.
Lemma equiv_refl s : equiv s s = true.
Proof. apply forallb_forall. intros q _. apply same_at_refl. Qed.

Lemma frame_set p v s : frame p s (set p v s) = true.
Proof.
  apply forallb_forall. intros q _. destruct (q =? p) eqn:E; cbn [orb]; [reflexivity|].
  unfold same_at. rewrite lookup_set_other by lia. apply oreqs_eqb_refl.
Qed.

Lemma memz_In x l : memz x l = true <-> In x l.
Proof. apply existsb_Zeqb_In. Qed.

Lemma gets_ok_model parts s : gets_ok parts (map (get s) parts) s = true.
Proof.
  unfold gets_ok. exact (list_eqb_refl _ (opt_eqb_refl _ zz_eqb_refl) (map (head_of s) parts)).
Qed.

Lemma sent_is_set p v s : sent_is [(p, v)] p (set p v s) = true.
Proof. unfold sent_is. rewrite lookup_set_same, Z.eqb_refl, reqs_eqb_refl. reflexivity. Qed.

Lemma cover_add_ok_model f t rs : cover_add_ok rs (merged f t rs) f t = true.
Proof.
  apply forallb_forall. intros x _. unfold cov, cov_oc, merged.
  rewrite (merged_cover in_req f t (widen_in_req f t)).
  rewrite (merged_cover in_req_oc f t (widen_in_req_oc f t)).
  now rewrite !eqb_reflx.
Qed.

Lemma contains_widen f t r : contains (widen f t r) r = true.
Proof. destruct r as [a b]. unfold contains, widen. destruct (overlaps f t (a, b)); cbn [fst snd]; lia. Qed.

Lemma order_add_ok_model f t rs : order_add_ok rs (merged f t rs) f t = true.
Proof.
  unfold order_add_ok, merged. destruct (existsb (overlaps f t) rs).
  - apply orb_true_iff. right. induction rs as [|r rs IH]; cbn [map forallb2]; [reflexivity|].
    now rewrite contains_widen, IH.
  - now rewrite reqs_eqb_refl.
Qed.

Lemma refused_model c s parts :
  refused c s (obs_of_step parts {| xs := s; xerr := true; xout := []; xack := false |}) = [].
Proof. unfold refused, obs_of_step. cbn [so_err so_snap so_sent xs xerr xout chk no_sent]. now rewrite equiv_refl. Qed.

Ltac chks := repeat (rewrite chk_true; [cbn [app]|]); try reflexivity.

Lemma step_spec_sound parts s o : step_spec parts s o (obs_of_step parts (xstep s o)) = [].
Proof.
  unfold step_spec. cbn [obs_of_step so_gets so_snap]. rewrite (chk_true 6) by apply gets_ok_model. cbn [app].
  destruct o as [p f t|p f t|p t|mt key pl].
  - (* file *)
    unfold xstep. cbn [lower tstep]. rewrite add_char. cbn [ts terr tout so_err so_ack so_sent xs xerr xout xack is_cancel obs_of_step].
    rewrite lookup_set_same, cover_add_ok_model, order_add_ok_model, frame_set, sent_is_set. reflexivity.
  - (* update *)
    unfold xstep. cbn [lower tstep is_cancel]. unfold update.
    destruct (lookup p s) as [[|[f0 t0] rest]|] eqn:E.
    + rewrite refused_model. reflexivity.
    + destruct (t0 =? t) eqn:E2.
      * cbn [ts terr tout so_err so_ack so_sent xs xerr xout xack obs_of_step].
        rewrite lookup_set_same, oreqs_eqb_refl, frame_set, sent_is_set. reflexivity.
      * rewrite refused_model. reflexivity.
    + rewrite refused_model. reflexivity.
  - (* completion *)
    unfold xstep. cbn [lower tstep is_cancel]. unfold complete.
    destruct (lookup p s) as [rs|] eqn:E.
    + destruct (existsb (fun r : Z * Z => snd r =? t) rs) eqn:E2.
      * cbn [ts terr tout so_err so_ack so_sent xs xerr xout xack obs_of_step].
        rewrite lookup_set_same, oreqs_eqb_refl, frame_set, sent_is_set. reflexivity.
      * rewrite refused_model. reflexivity.
    + rewrite refused_model. reflexivity.
  - (* message *)
    unfold xstep. cbn [lower is_cancel].
    destruct (mt =? 1) eqn:E1.
    + assert (mt =? 0 = false) as -> by lia.
      cbn [tstep cancel_all ts terr tout so_err so_ack so_sent xs xerr xout xack obs_of_step negb andb].
      rewrite (chk_true 4); [cbn [app]; rewrite (chk_true 7); [reflexivity|]|].
      * rewrite !andb_true_iff. repeat split.
        -- apply forallb_forall. intros b Hb. apply in_map_iff in Hb as (e & <- & He). cbn [fst snd].
           rewrite reqs_eqb_refl, andb_true_r. apply memz_In. apply in_map. exact He.
        -- apply forallb_forall. intros k Hk. apply memz_In. unfold keys. rewrite map_map. exact Hk.
        -- rewrite map_length. apply Nat.eqb_refl.
      * rewrite !andb_true_iff. split.
        -- apply forallb_forall. intros k Hk. apply memz_In. unfold keys in *. rewrite map_map in Hk. exact Hk.
        -- apply forallb_forall. intros k Hk. rewrite lookup_map_empty.
           destruct (lookup k s) eqn:El; [reflexivity|].
           apply lookup_None_keys in El. contradiction.
    + destruct (mt =? 0) eqn:E0.
      * destruct pl as [rs|]; cbn [tstep receive ts terr tout so_err so_ack so_sent xs xerr xout xack obs_of_step negb andb no_sent].
        -- unfold receive. rewrite lookup_set_same, oreqs_eqb_refl, frame_set, orb_true_r. reflexivity.
        -- rewrite equiv_refl. reflexivity.
      * cbn [so_err so_ack so_sent xs xerr xout xack obs_of_step negb andb no_sent].
        rewrite equiv_refl. reflexivity.
Qed.

Lemma spec_steps_sound parts : forall ops s idx,
  spec_steps parts s ops (map (obs_of_step parts) (snd (xrun s ops))) idx = [].
Proof.
  induction ops as [|o ops IH]; intros s idx; [reflexivity|].
  rewrite xrun_cons. cbn [snd map spec_steps]. rewrite step_spec_sound. cbn [map app].
  cbn [obs_of_step so_snap]. apply IH.
Qed.

(* ---------- clause 9 ---------- *)
Lemma sent_of_model parts rs : flat_map so_sent (map (obs_of_step parts) rs) = sent_of rs.
Proof. induction rs as [|r rs IH]; cbn [map flat_map sent_of]; [reflexivity|]. unfold sent_of in IH. now rewrite IH. Qed.

Lemma replica_ok_all sent : replica_ok sent (apply_all [] sent) = true.
Proof.
  apply forallb_forall. intros k _. rewrite apply_all_lookup. cbn [lookup].
  destruct (last_bcast k sent); apply oreqs_eqb_refl.
Qed.

Lemma replica_ok_last sent : replica_ok sent (apply_all [] (compact sent)) = true.
Proof.
  apply forallb_forall. intros k _. rewrite replica_all_or_last, apply_all_lookup. cbn [lookup].
  destruct (last_bcast k sent); apply oreqs_eqb_refl.
Qed.

Lemma fresh_inv parts : forall ops s acc pre,
  (forall k, In k acc -> lookup k s = last_bcast k pre) ->
  forall k, In k (fresh_keys acc ops (map (obs_of_step parts) (snd (xrun s ops)))) ->
  lookup k (fst (xrun s ops)) = last_bcast k (pre ++ sent_of (snd (xrun s ops))).
Proof.
  induction ops as [|o ops IH]; intros s acc pre Hacc k Hk.
  - cbn in *. rewrite app_nil_r. now apply Hacc.
  - rewrite xrun_cons in *. cbn [fst snd map fresh_keys sent_of flat_map] in *.
    fold (sent_of (snd (xrun (xs (xstep s o)) ops))). rewrite app_assoc.
    eapply IH; [|exact Hk]. clear k Hk. intros k Hk. cbn [obs_of_step so_sent] in Hk.
    rewrite last_bcast_app. apply in_app_or in Hk as [Hk|Hk].
    + unfold keys in Hk. destruct (last_bcast k (xout (xstep s o))) as [rs|] eqn:E.
      * apply last_bcast_In in E. now apply xstep_out_snapshot.
      * apply last_bcast_None in E. contradiction.
    + assert (recv_key o <> Some k /\ In k acc) as [Hr Hin].
      { destruct (recv_key o) as [q|].
        - apply filter_In in Hk as [Hin Hq]. split; [|assumption]. intros E; inversion E; subst.
          rewrite Z.eqb_refl in Hq. discriminate.
        - split; [discriminate|assumption]. }
      rewrite xstep_last by assumption.
      destruct (last_bcast k (xout (xstep s o))); [reflexivity|]. now apply Hacc.
Qed.

Lemma final_snap_model parts : forall ops s o,
  final_snap (map (obs_of_step parts) (snd (xrun s (o :: ops)))) = fst (xrun s (o :: ops)).
Proof.
  unfold final_snap. induction ops as [|o' ops IH]; intros s o.
  - reflexivity.
  - rewrite xrun_cons. cbn [fst snd map]. specialize (IH (xs (xstep s o)) o').
    remember (xrun (xs (xstep s o)) (o' :: ops)) as R. destruct R as [sf rs].
    cbn [fst snd] in *. destruct (map (obs_of_step parts) rs) eqn:Em.
    + rewrite xrun_cons in HeqR. inversion HeqR; subst. discriminate.
    + exact IH.
Qed.

Lemma spec_replicas_sound i : spec_replicas i (model_obs i) = [].
Proof.
  unfold spec_replicas, model_obs. cbn [o_steps o_all o_last]. rewrite sent_of_model.
  fold (sent_of (snd (xrun [] (i_ops i)))).
  rewrite (chk_true 1) by apply replica_ok_all. rewrite (chk_true 2) by apply replica_ok_last.
  rewrite (chk_true 3); [reflexivity|].
  apply forallb_forall. intros k Hk. destruct (i_ops i) as [|o ops] eqn:Eo.
  - cbn in Hk. contradiction.
  - rewrite final_snap_model.
    rewrite (fresh_inv (i_parts i) (o :: ops) [] [] []) with (k := k); [apply oreqs_eqb_refl| |exact Hk].
    intros k' [].
Qed.

Theorem spec_c08_sound i : spec_c08 i (model_obs i) = [].
Proof.
  unfold spec_c08, spec_c08_detail. rewrite spec_replicas_sound, app_nil_r.
  unfold model_obs. cbn [o_steps]. now rewrite spec_steps_sound.
Qed.

(* ---------- the endpoint test of clause 1 decides equality of the covers at EVERY offset ---------- *)
Lemma snap_point (E : list Z) x :
  (forall e, In e E -> x < e) \/ exists e, In e E /\ e <= x /\ forall e', In e' E -> e' <= x -> e' <= e.
Proof.
  induction E as [|a E IH].
  - left. intros e [].
  - destruct IH as [H|(e & He & Hle & Hmax)].
    + destruct (Z_le_gt_dec a x) as [Ha|Ha].
      * right. exists a. split; [now left|]. split; [exact Ha|].
        intros e' [<-|He'] Hx; [lia|]. specialize (H e' He'). lia.
      * left. intros e [<-|He]; [lia|auto].
    + right. destruct (Z_le_gt_dec a x) as [Ha|Ha].
      * destruct (Z_le_gt_dec a e) as [Hae|Hae].
        -- exists e. split; [now right|]. split; [exact Hle|]. intros e' [<-|He'] Hx; auto.
        -- exists a. split; [now left|]. split; [exact Ha|].
           intros e' [<-|He'] Hx; [lia|]. specialize (Hmax e' He' Hx). lia.
      * exists e. split; [now right|]. split; [exact Hle|]. intros e' [<-|He'] Hx; [lia|auto].
Qed.

Lemma endpoints_In r l : In r l ->
  In (fst r) (endpoints l) /\ In (snd r) (endpoints l) /\ In (fst r + 1) (endpoints l) /\ In (snd r + 1) (endpoints l).
Proof.
  intros H. unfold endpoints. repeat split; apply in_flat_map; exists r; (split; [exact H|]); cbn [In]; tauto.
Qed.

Lemma existsb_ext_in {A} (f g : A -> bool) l : (forall a, In a l -> f a = g a) -> existsb f l = existsb g l.
Proof.
  induction l as [|a l IH]; intros H; cbn [existsb]; [reflexivity|].
  rewrite (H a) by now left. rewrite IH; [reflexivity|]. intros b Hb. apply H. now right.
Qed.

Lemma existsb_false_in {A} (g : A -> bool) l : (forall a, In a l -> g a = false) -> existsb g l = false.
Proof.
  induction l as [|a l IH]; intros H; cbn [existsb]; [reflexivity|].
  rewrite (H a) by now left. apply IH. intros b Hb. apply H. now right.
Qed.

Theorem cover_add_ok_complete old new f t :
  cover_add_ok old new f t = true ->
  forall x, cov new x = cov old x || in_req x (f, t)
            /\ cov_oc new x = cov_oc old x || in_req_oc x (f, t).
Proof.
  intros H x. unfold cover_add_ok in H. rewrite forallb_forall in H.
  set (L := old ++ new ++ [(f, t)]) in *.
  assert (Hold : forall r, In r old -> In r L) by (intros; unfold L; apply in_or_app; now left).
  assert (Hnew : forall r, In r new -> In r L) by (intros; unfold L; apply in_or_app; right; apply in_or_app; now left).
  assert (Hft : In (f, t) L) by (unfold L; apply in_or_app; right; apply in_or_app; right; now left).
  assert (Hco : forall e, (forall r, In r L -> in_req x r = in_req e r) -> In e (endpoints L) ->
                cov new x = cov old x || in_req x (f, t)).
  { intros e Hr He. unfold cov. rewrite (existsb_ext_in (in_req x) (in_req e) new) by auto.
    rewrite (existsb_ext_in (in_req x) (in_req e) old) by auto. rewrite (Hr _ Hft).
    specialize (H e He). apply andb_true_iff in H as [H _]. now apply eqb_prop in H. }
  assert (Hoc : forall e, (forall r, In r L -> in_req_oc x r = in_req_oc e r) -> In e (endpoints L) ->
                cov_oc new x = cov_oc old x || in_req_oc x (f, t)).
  { intros e Hr He. unfold cov_oc. rewrite (existsb_ext_in (in_req_oc x) (in_req_oc e) new) by auto.
    rewrite (existsb_ext_in (in_req_oc x) (in_req_oc e) old) by auto. rewrite (Hr _ Hft).
    specialize (H e He). apply andb_true_iff in H as [_ H]. now apply eqb_prop in H. }
  destruct (snap_point (endpoints L) x) as [Hb|(e & He & Hle & Hmax)].
  - (* x is below every endpoint: nothing covers it, in either reading *)
    assert (Hf : forall r, In r L -> in_req x r = false /\ in_req_oc x r = false).
    { intros r Hr. destruct (endpoints_In r L Hr) as (H1 & _ & H3 & _).
      specialize (Hb _ H1) as Hb1. specialize (Hb _ H3) as Hb3. unfold in_req, in_req_oc. lia. }
    assert (Hz : forall l, (forall r, In r l -> In r L) -> cov l x = false /\ cov_oc l x = false).
    { intros l Hl. unfold cov, cov_oc. split; apply existsb_false_in; intros r Hr; apply Hf; auto. }
    destruct (Hz new Hnew) as [-> ->]. destruct (Hz old Hold) as [-> ->]. destruct (Hf _ Hft) as [-> ->].
    split; reflexivity.
  - split.
    + apply (Hco e); [|exact He]. intros r Hr. destruct (endpoints_In r L Hr) as (H1 & H2 & _ & _).
      pose proof (Hmax _ H1). pose proof (Hmax _ H2). unfold in_req. lia.
    + apply (Hoc e); [|exact He]. intros r Hr. destruct (endpoints_In r L Hr) as (_ & _ & H3 & H4).
      pose proof (Hmax _ H3). pose proof (Hmax _ H4). unfold in_req_oc. lia.
Qed.
