(* E4 — coverage of a requested window across refreshes, truncations, revocations and crashes (C07, C09) *)
From Coq Require Import List ZArith Bool Lia ZifyBool.
From FB Require Import Lib.Sexp Lib.Eqb Model.Tracker Model.Offsets Model.Recovery Judge.E4.
From FB Require Import Proofs.RecoveryProofs Proofs.RecoveryOwnership Proofs.RecoveryTruncation.
Import ListNotations.
Open Scope Z_scope.

(* tracker operations broadcast exactly the snapshot they store *)
Definition snap (q : Z) (t : tstate) (r : tres) : Prop :=
  (ts r = t /\ tout r = []) \/ (exists rs, ts r = set q rs t /\ tout r = [(q, rs)]).

Lemma add_snap t q f to : snap q t (add t q f to).
Proof. right. unfold add. eexists. split; reflexivity. Qed.
Lemma update_snap t q f to : snap q t (update t q f to).
Proof.
  unfold update. destruct (lookup q t) as [[|[f0 t0] rest]|]; try (left; split; reflexivity).
  destruct (t0 =? to); [right; eexists; split; reflexivity|left; split; reflexivity].
Qed.
Lemma complete_snap t q to : snap q t (complete t q to).
Proof.
  unfold complete. destruct (lookup q t) as [rs|]; [|left; split; reflexivity].
  destruct (existsb (fun r => snd r =? to) rs); [right; eexists; split; reflexivity|left; split; reflexivity].
Qed.
Lemma noop_snap t q : snap q t {| ts := t; terr := false; tout := [] |}.
Proof. left. split; reflexivity. Qed.

Lemma replay_app l m : replay (l ++ m) = fold_left (fun t x => receive t (fst x) (snd x)) m (replay l).
Proof. unfold replay. apply fold_left_app. Qed.

Lemma pget_In {A} p (v : A) m : pget p m = Some v -> In (p, v) m.
Proof.
  induction m as [|[q w] m IH]; cbn [pget]; [discriminate|]. destruct (q =? p) eqn:E.
  - intros H; inversion H; subst. left. f_equal. lia.
  - intros H. right. apply IH. exact H.
Qed.

Lemma In_pget {A} p (v : A) m : ssorted (keys m) -> In (p, v) m -> pget p m = Some v.
Proof.
  induction m as [|[q w] m IH]; intros Hs Hin; [destruct Hin|]. cbn [pget].
  destruct Hin as [Heq|Hin].
  - inversion Heq; subst. now rewrite Z.eqb_refl.
  - cbn [keys map fst] in Hs. pose proof (ssorted_lb q (map fst m) Hs p) as Hlb.
    assert (q < p) by (apply Hlb; apply in_map_iff; exists (p, v); auto).
    replace (q =? p) with false by lia. apply IH; [destruct Hs; assumption|assumption].
Qed.

Lemma pget_assign_arg p m : pget p (assign_arg m) = option_map fst (pget p m).
Proof.
  induction m as [|[q [f to]] m IH]; [reflexivity|]. cbn [assign_arg map pget fst snd].
  destruct (q =? p); [reflexivity|exact IH].
Qed.

Section Cover.
  Variable cfg : rcfg.
  Variables p f0 t LB : Z.     (* the watched partition, its request (after trimming), a bound on truncation lows *)

  Definition cov (em : list Z) (x : Z) : Prop := forall o, f0 < o -> o <= x -> o <= t -> LB < o -> In o em.

  Lemma cov_mono em em' x : cov em x -> cov (em ++ em') x.
  Proof. intros H o H1 H2 H3 H4. apply in_or_app. left. apply H; assumption. Qed.
  Lemma cov_le em x y : cov em x -> y <= x -> cov em y.
  Proof. intros H Hy o H1 H2 H3 H4. apply H; lia. Qed.

  Definition I1 (s : rstate) (em : list Z) : Prop :=
    (exists rf, lookup p (trk s) = Some [(rf, t)] /\ cov em rf) \/ (lookup p (trk s) = Some [] /\ cov em t).
  Definition I2 (s : rstate) (em : list Z) : Prop :=
    forall a t', In (p, (a, t')) (active s) ->
      t' = t /\ cov em a /\ exists n, pget p (cli s) = Some n /\ a <= n /\ (forall o, a < o -> o < n -> o <= t -> In o em).
  Definition I3 (s : rstate) : Prop := ssorted (keys (active s)).
  Definition I4 (s : rstate) : Prop := lookup p (replay (mlog s)) = lookup p (trk s).
  Definition Inv (s : rstate) (em : list Z) : Prop := I1 s em /\ I2 s em /\ I3 s /\ I4 s.

  Lemma I1_mono s em em' : I1 s em -> I1 s (em ++ em').
  Proof. intros [[rf [H1 H2]]|[H1 H2]]; [left; exists rf|right]; split; auto using cov_mono. Qed.
  Lemma I2_mono s em em' : I2 s em -> I2 s (em ++ em').
  Proof.
    intros H a t' Hin. destruct (H a t' Hin) as [H1 [H2 [n [H3 [H4 H5]]]]]. split; [assumption|]. split; [apply cov_mono; assumption|].
    exists n. split; [assumption|]. split; [assumption|]. intros o Ha Hb Hc. apply in_or_app. left. apply H5; assumption.
  Qed.
  Lemma Inv_mono s em em' : Inv s em -> Inv s (em ++ em').
  Proof. intros [H1 [H2 [H3 H4]]]. split; [apply I1_mono; assumption|]. split; [apply I2_mono; assumption|]. split; assumption. Qed.

  (* a tracker operation on another partition *)
  Lemma inv_trk_other s em q r : q <> p -> snap q (trk s) r -> Inv s em -> Inv (with_trk s (ts r) (tout r)) em.
  Proof.
    intros Hq Hsn [H1 [H2 [H3 H4]]].
    assert (Hl : lookup p (ts r) = lookup p (trk s)).
    { destruct Hsn as [[-> _]|[rs [-> _]]]; [reflexivity|]. apply r_lookup_set_other. congruence. }
    unfold Inv, I1, I2, I3, I4, with_trk. cbn [trk active cli mlog]. rewrite Hl. split; [exact H1|]. split; [exact H2|]. split; [exact H3|].
    destruct Hsn as [[_ ->]|[rs [_ ->]]]; [now rewrite app_nil_r|].
    rewrite replay_app. cbn [fold_left fst snd]. unfold receive. rewrite r_lookup_set_other by congruence. exact H4.
  Qed.

  (* I4 survives any snapshotting tracker operation *)
  Lemma I4_snap s q r : snap q (trk s) r -> I4 s -> I4 (with_trk s (ts r) (tout r)).
  Proof.
    intros Hsn H4. unfold I4, with_trk. cbn [trk mlog].
    destruct Hsn as [[-> ->]|[rs [-> ->]]]; [now rewrite app_nil_r|].
    rewrite replay_app. cbn [fold_left fst snd]. unfold receive.
    destruct (Z.eq_dec p q) as [->|Hne]; [now rewrite !r_lookup_set_same|now rewrite !r_lookup_set_other].
  Qed.

  (* RefreshAssignments keeps the invariant: a (re)assignment starts at the broadcast progress point or at the from
     already reached, both of which are covered *)
  Lemma inv_refresh s em : Inv s em -> Inv (fst (refresh s)) em.
  Proof.
    intros [H1 [H2 [H3 H4]]]. unfold refresh. destruct (changed _ _); [|cbn [fst]; split; [exact H1|split; [exact H2|split; [exact H3|exact H4]]]]. cbn [fst].
    set (cand := candidates (owned s) (active s) (trk s)).
    unfold Inv, I1, I2, I3, I4. cbn [trk active cli mlog]. split; [exact H1|]. split; [|split; [apply candidates_sorted|exact H4]].
    intros a t' Hin. apply In_pget in Hin; [|apply candidates_sorted]. pose proof Hin as Hin0. unfold cand in Hin. rewrite candidates_get in Hin.
    destruct (existsb (Z.eqb p) (owned s)); [|discriminate]. unfold cand_entry in Hin.
    destruct (get (trk s) p) as [[rf rt]|] eqn:Eg; [|discriminate].
    assert (Hrf : rt = t /\ cov em rf).
    { unfold get in Eg. destruct H1 as [[rf' [Hl Hc]]|[Hl Hc]]; rewrite Hl in Eg; [|discriminate]. inversion Eg; subst. auto. }
    destruct Hrf as [-> Hcrf].
    assert (Ha : cov em a /\ t' = t).
    { destruct (pget p (active s)) as [[af ax]|] eqn:Ea.
      - inversion Hin; subst. split; [|reflexivity]. apply pget_In in Ea. destruct (H2 af ax Ea) as [_ [Hc _]].
        destruct (Z.max_spec rf af) as [[_ ->]|[_ ->]]; assumption.
      - inversion Hin; subst. auto. }
    destruct Ha as [Hca ->]. split; [reflexivity|]. split; [exact Hca|]. exists a. split.
    - rewrite pget_assign_arg, Hin0. reflexivity.
    - split; [lia|]. intros o Ho1 Ho2. lia.
  Qed.


  Definition emits_p (out : rout) : list Z :=
    flat_map (fun e : Z * Z * bool => if (fst (fst e) =? p) && snd e then [snd (fst e)] else []) (o_emits out).

  Lemma emits_p_app a b : emits_p (out_app a b) = emits_p a ++ emits_p b.
  Proof. unfold emits_p. cbn [out_app o_emits]. apply flat_map_app. Qed.

  Lemma inv_rec_other s em q o : q <> p -> Inv s em ->
    Inv (fst (rec_step cfg s q o)) em /\ emits_p (snd (rec_step cfg s q o)) = [].
  Proof.
    intros Hq HI. destruct (rec_step_case cfg s q o) as [Ha|f t1 Ha Hlt|f t1 s' calls Ha H1 H2 Hr|f t1 r Ha H1 H2 Hr].
    - split; [exact HI|reflexivity].
    - split; [exact HI|reflexivity].
    - split; [|reflexivity]. replace s' with (fst (refresh (with_trk s (ts (complete (trk s) q t1)) (tout (complete (trk s) q t1))))) by now rewrite Hr.
      apply inv_refresh. apply (inv_trk_other _ _ q); [assumption|apply complete_snap|assumption].
    - split.
      + apply (inv_trk_other _ _ q); [assumption| |assumption]. subst r. destruct (_ && _); [apply update_snap|apply noop_snap].
      + unfold emits_p. cbn [o_emits]. destruct (o >? f); [|reflexivity]. cbn [flat_map fst snd]. replace (q =? p) with false by lia. reflexivity.
  Qed.

  Lemma active_entry s a t' f t1 : I3 s -> pget p (active s) = Some (f, t1) -> In (p, (a, t')) (active s) -> a = f /\ t' = t1.
  Proof. intros H3 Hg Hin. apply (In_pget _ _ _ H3) in Hin. rewrite Hg in Hin. inversion Hin. auto. Qed.

  Lemma inv_rec_p s em o : Inv s em -> (forall n, pget p (cli s) = Some n -> o <= n) ->
    Inv (fst (rec_step cfg s p o)) (em ++ emits_p (snd (rec_step cfg s p o))) /\
    (o_calls (snd (rec_step cfg s p o)) = [] ->
       cli (fst (rec_step cfg s p o)) = cli s /\ active (fst (rec_step cfg s p o)) = active s /\
       forall a t', In (p, (a, t')) (active s) -> a < o -> o <= t -> In o (em ++ emits_p (snd (rec_step cfg s p o)))).
  Proof.
    intros HI Hadm. pose proof HI as [H1 [H2 [H3 H4]]].
    destruct (rec_step_case cfg s p o) as [Ha|f t1 Ha Hlt|f t1 s' calls Ha Hfo Hto Hr|f t1 r Ha Hfo Hot Hr].
    - split; [apply Inv_mono; exact HI|]. intros _. split; [reflexivity|]. split; [reflexivity|].
      intros a t' Hin. apply (In_pget _ _ _ H3) in Hin. congruence.
    - split; [apply Inv_mono; exact HI|]. intros _. split; [reflexivity|]. split; [reflexivity|].
      intros a t' Hin Hao. destruct (active_entry s a t' f t1 H3 Ha Hin) as [-> _]. lia.
    - destruct (H2 f t1 (pget_In _ _ _ Ha)) as [-> [Hcf [n [Hn [Hfn Hrange]]]]]. specialize (Hadm n Hn).
      set (c := complete (trk s) p t) in *.
      assert (HIc : Inv (with_trk s (ts c) (tout c)) em).
      { split; [|split; [exact H2|split; [exact H3|apply (I4_snap _ p); [apply complete_snap|exact H4]]]].
        unfold I1, with_trk. cbn [trk]. right. unfold c, complete.
        assert (Hcov : cov em t).
        { intros o' Ho1 Ho2 Ho3 Ho4. destruct (Z_le_gt_dec o' f); [apply Hcf; assumption|apply Hrange; lia]. }
        destruct H1 as [[rf [Hl Hc]]|[Hl Hc]]; rewrite Hl.
        - cbn [existsb snd]. rewrite Z.eqb_refl. cbn [orb filter snd negb ts]. rewrite Z.eqb_refl. cbn [negb].
          split; [apply r_lookup_set_same|exact Hcov].
        - cbn [existsb ts]. split; [exact Hl|exact Hcov]. }
      cbn [o_emits o_calls]. unfold emits_p at 1. cbn [o_emits flat_map]. rewrite app_nil_r.
      assert (Hs' : s' = fst (refresh (with_trk s (ts c) (tout c)))) by now rewrite Hr.
      split; [rewrite Hs'; apply inv_refresh; exact HIc|].
      intros Hc. destruct (refresh_cases _ _ _ Hr) as [[_ ->]|[Hx _]]; [|congruence].
      split; [reflexivity|]. split; [reflexivity|]. intros a t' Hin Hao Hot. lia.
    - destruct (H2 f t1 (pget_In _ _ _ Ha)) as [-> [Hcf [n [Hn [Hfn Hrange]]]]]. specialize (Hadm n Hn).
      cbn [o_emits o_calls].
      assert (Hem : emits_p {| o_emits := if o >? f then [(p, o, true)] else []; o_calls := []; o_sent := tout r; o_err := false;
                               o_acks := 0; o_waits := if o >? f then [0] else [] |} = if o >? f then [o] else []).
      { unfold emits_p. cbn [o_emits]. destruct (o >? f); [|reflexivity]. cbn [flat_map fst snd]. rewrite Z.eqb_refl. reflexivity. }
      rewrite Hem. set (em' := em ++ (if o >? f then [o] else [])).
      assert (Hcovo : cov em' o).
      { intros o' Ho1 Ho2 Ho3 Ho4. unfold em'. destruct (Z_le_gt_dec o' f); [apply in_or_app; left; apply Hcf; assumption|].
        destruct (Z.eq_dec o' o) as [->|Hne].
        - replace (o >? f) with true by lia. apply in_or_app. right. left. reflexivity.
        - apply in_or_app. left. apply Hrange; lia. }
      split.
      + split; [|split; [apply I2_mono; exact H2|split; [exact H3|apply (I4_snap _ p); [|exact H4]]]].
        * unfold I1, with_trk. cbn [trk]. subst r. destruct ((o mod c_every cfg =? 0) && (t - o >? 0)).
          -- unfold update. destruct H1 as [[rf [Hl Hc]]|[Hl Hc]]; rewrite Hl.
             ++ rewrite Z.eqb_refl. cbn [ts]. left. exists o. split; [apply r_lookup_set_same|exact Hcovo].
             ++ cbn [ts]. right. split; [exact Hl|apply cov_mono; exact Hc].
          -- cbn [ts]. apply I1_mono. exact H1.
        * subst r. destruct (_ && _); [apply update_snap|apply noop_snap].
      + intros _. split; [reflexivity|]. split; [reflexivity|]. intros a t' Hin Hao _.
        destruct (active_entry s a t' f t H3 Ha Hin) as [-> _]. unfold em'. replace (o >? f) with true by lia.
        apply in_or_app. right. left. reflexivity.
  Qed.

  Lemma I2_bump_other s em q :
    q <> p -> I2 s em -> I2 {| owned := owned s; active := active s; trk := trk s; cli := bump q (cli s); mlog := mlog s |} em.
  Proof.
    intros Hq H a t' Hin. cbn [active] in Hin. destruct (H a t' Hin) as [H1 [H2 [n [H3 H5]]]]. split; [assumption|]. split; [assumption|].
    exists n. split; [|assumption]. cbn [cli]. unfold bump. destruct (pget q (cli s)); [|assumption]. rewrite pget_pput_other by congruence. assumption.
  Qed.

  Lemma inv_fresh s em q : Inv s em ->
    Inv (fst (fresh_step cfg s q)) (em ++ emits_p (snd (fresh_step cfg s q))).
  Proof.
    intros HI. unfold fresh_step. destruct (pget q (cli s)) as [n|] eqn:En; [|apply Inv_mono; exact HI].
    destruct (Z.eq_dec q p) as [->|Hq].
    - destruct (inv_rec_p s em n HI) as [HI' Hrest]; [intros n' Hn'; rewrite En in Hn'; inversion Hn'; lia|].
      destruct (rec_step cfg s p n) as [s1 out]. cbn [fst snd] in *.
      destruct (o_calls out) eqn:Ec; [|exact HI']. cbn [fst snd].
      destruct (Hrest eq_refl) as [Hcli [Hact Hin]]. destruct HI' as [H1 [H2 [H3 H4]]].
      split; [exact H1|]. split; [|split; [exact H3|exact H4]].
      intros a t' Hin'. cbn [active] in Hin'. destruct (H2 a t' Hin') as [Ht [Hc [n' [Hn' [Han Hr]]]]].
      rewrite Hcli, En in Hn'. inversion Hn'; subst n'.
      split; [exact Ht|]. split; [exact Hc|]. exists (n + 1). cbn [cli]. split.
      + unfold bump. rewrite Hcli, En. apply pget_pput_same.
      + split; [lia|]. intros o Ho1 Ho2 Ho3. destruct (Z.eq_dec o n) as [->|Hne]; [|apply Hr; lia].
        apply (Hin a t'); [rewrite <- Hact; exact Hin'|lia|lia].
    - destruct (inv_rec_other s em q n Hq HI) as [HI' He]. destruct (rec_step cfg s q n) as [s1 out]. cbn [fst snd] in *.
      destruct (o_calls out); cbn [fst snd]; rewrite He, app_nil_r; [|exact HI'].
      destruct HI' as [H1 [H2 [H3 H4]]]. split; [exact H1|]. split; [apply I2_bump_other; assumption|split; [exact H3|exact H4]].
  Qed.

  Lemma inv_pump : forall k s em q, Inv s em -> Inv (fst (pump cfg s q k)) (em ++ emits_p (snd (pump cfg s q k))).
  Proof.
    induction k as [|k IH]; intros s em q HI; cbn [pump].
    - cbn [fst snd]. apply Inv_mono. exact HI.
    - pose proof (inv_fresh s em q HI) as H1. destruct (fresh_step cfg s q) as [s1 o1]. cbn [fst snd] in H1.
      pose proof (IH s1 _ q H1) as H2. destruct (pump cfg s1 q k) as [s2 o2]. cbn [fst snd] in *.
      rewrite emits_p_app, app_assoc. exact H2.
  Qed.
  (* a straggler ahead of the client's position, inside the window, off the broadcast grid: it is emitted and changes
     nothing else - the from of the active entry is NOT moved (recoveryconsumer.go:307 assigns to a local copy), so the
     records between the position and the straggler are still emitted when the client delivers them *)
  Lemma inv_ahead s em q d : Inv s em -> Inv (fst (ahead_step cfg s q d)) (em ++ emits_p (snd (ahead_step cfg s q d))).
  Proof.
    intros HI. unfold ahead_step. destruct (pget q (cli s)) as [n|] eqn:En; [|apply Inv_mono; exact HI].
    destruct (pget q (active s)) as [[f to]|] eqn:Ea; [|apply Inv_mono; exact HI].
    destruct ((n + 1 + Z.abs d <=? to) && negb ((n + 1 + Z.abs d) mod c_every cfg =? 0)) eqn:Eg; [|apply Inv_mono; exact HI].
    set (o := n + 1 + Z.abs d) in *.
    destruct (Z.eq_dec q p) as [->|Hq].
    - pose proof HI as [H1 [H2 [H3 H4]]].
      destruct (H2 f to (pget_In _ _ _ Ea)) as [-> [Hcf [n' [Hn' [Hfn Hrange]]]]]. rewrite En in Hn'. inversion Hn'; subst n'.
      assert (Hgrid : (o mod c_every cfg =? 0) = false) by lia.
      destruct (rec_step_case cfg s p o) as [Ha|f1 t1 Ha Hlt|f1 t1 s' calls Ha Hfo Hto Hr|f1 t1 r Ha Hfo Hot Hr];
        try (rewrite Ea in Ha; inversion Ha; subst); try congruence; try (exfalso; unfold o in *; lia).
      rewrite Hgrid. cbn [andb ts tout].
      apply Inv_mono. split; [exact H1|]. split; [exact H2|]. split; [exact H3|].
      unfold I4, with_trk. cbn [mlog trk]. rewrite app_nil_r. exact H4.
    - destruct (inv_rec_other s em q o Hq HI) as [Ha Hb]. rewrite Hb, app_nil_r. exact Ha.
  Qed.
End Cover.

Lemma last_indep {A} (l : list A) d d' : l <> [] -> last l d = last l d'.
Proof.
  induction l as [|x l IH]; intros H; [congruence|]. destruct l as [|y l]; [reflexivity|].
  change (last (x :: y :: l) d) with (last (y :: l) d). change (last (x :: y :: l) d') with (last (y :: l) d'). apply IH. discriminate.
Qed.
Lemma last_cons_default {A} (x : A) l d : last (x :: l) d = last l x.
Proof.
  destruct l as [|y l]; [reflexivity|]. change (last (x :: y :: l) d) with (last (y :: l) d). apply last_indep. discriminate.
Qed.

Section CoverRun.
  Variable cfg : rcfg.
  Variables p f0 t LB : Z.

  (* ops that leave the watched request to the consumer itself: no arbitrary record on p, no second request / foreign
     snapshot / cancel-all / main assignment, truncation lows of p at most LB *)
  Definition ok_op (op : rop) : bool :=
    match op with
    | RawRec q _ => negb (q =? p)
    | Request q _ _ => negb (q =? p)
    | Deliver (MReq q _) => negb (q =? p)
    | Deliver MCancel => false
    | MAssign _ _ => false
    | Wild q _ => negb (q =? p)       (* unrestricted stragglers on the watched partition: known finding F11 *)
    | KErr code wm lows => wm || negb ((code =? 1) || (code =? 2)) || (low_of lows p <=? LB)
    | _ => true
    end.

  Notation Inv := (Inv p f0 t LB).

  Lemma inv_kerr_loop lows : low_of lows p <= LB ->
    forall act tr log em,
      (forall a t', In (p, (a, t')) act -> t' = t) ->
      I1 p f0 t LB {| owned := []; active := []; trk := tr; cli := []; mlog := log |} em ->
      lookup p (replay log) = lookup p tr ->
      I1 p f0 t LB {| owned := []; active := []; trk := fst (kerr_loop tr act lows); cli := []; mlog := log |} em
      /\ lookup p (replay (log ++ snd (kerr_loop tr act lows))) = lookup p (fst (kerr_loop tr act lows)).
  Proof.
    intros Hlow. induction act as [|[q [a t1]] act IH]; intros tr log em Hact H1 H4.
    - cbn [kerr_loop fst snd]. rewrite app_nil_r. auto.
    - rewrite kerr_loop_unfold. cbn [fst snd].
      set (r := trunc_one tr q a t1 (low_of lows q)).
      assert (Hsn : snap q tr r).
      { unfold r, trunc_one. destruct (a <? low_of lows q); [|apply noop_snap]. destruct (low_of lows q >=? t1); [apply complete_snap|apply update_snap]. }
      assert (H1' : I1 p f0 t LB {| owned := []; active := []; trk := ts r; cli := []; mlog := log ++ tout r |} em).
      { unfold I1 in *. cbn [trk] in *. destruct (Z.eq_dec q p) as [->|Hq].
        - assert (t1 = t) by (apply (Hact a t1); left; reflexivity). subst t1.
          assert (Hvac : forall x, x <= LB -> cov f0 t LB em x) by (intros x Hx o Ho1 Ho2 Ho3 Ho4; lia).
          unfold r, trunc_one. destruct (a <? low_of lows p) eqn:E1; [|exact H1]. destruct (low_of lows p >=? t) eqn:E2.
          + unfold complete. destruct H1 as [[rf [Hl Hc]]|[Hl Hc]]; rewrite Hl.
            * cbn [existsb snd]. rewrite Z.eqb_refl. cbn [orb filter snd negb ts]. rewrite Z.eqb_refl. cbn [negb].
              right. split; [apply r_lookup_set_same|]. intros o Ho1 Ho2 Ho3 Ho4. lia.
            * cbn [existsb ts]. right. split; assumption.
          + unfold update. destruct H1 as [[rf [Hl Hc]]|[Hl Hc]]; rewrite Hl.
            * rewrite Z.eqb_refl. cbn [ts]. left. exists (low_of lows p). split; [apply r_lookup_set_same|apply Hvac; lia].
            * cbn [ts]. right. split; assumption.
        - assert (Hl : lookup p (ts r) = lookup p tr) by (apply trunc_one_other; congruence). rewrite Hl. exact H1. }
      assert (H4' : lookup p (replay (log ++ tout r)) = lookup p (ts r)).
      { destruct Hsn as [[-> ->]|[rs [-> ->]]]; [now rewrite app_nil_r|].
        rewrite replay_app. cbn [fold_left fst snd]. unfold receive.
        destruct (Z.eq_dec p q) as [->|Hne]; [now rewrite !r_lookup_set_same|now rewrite !r_lookup_set_other]. }
      destruct (IH (ts r) (log ++ tout r) em) as [Ha Hb].
      + intros a' t' Hin. apply (Hact a' t'). right. exact Hin.
      + unfold I1 in *. cbn [trk] in *. exact H1'.
      + exact H4'.
      + split; [unfold I1 in *; cbn [trk] in *; exact Ha|]. rewrite app_assoc. exact Hb.
  Qed.

  (* a crash: the successor has read the compacted topic, which agrees with the tracker about p *)
  Lemma inv_crash s em : Inv s em -> Inv (crash_state s) em.
  Proof.
    intros [H1 [H2 [H3 H4]]]. split; [|split; [intros a t' []|split; [exact I|reflexivity]]].
    unfold I1 in *. cbn [crash_state trk]. unfold I4 in H4. rewrite !H4. exact H1.
  Qed.

  Definition emp (out : rout) := emits_p p out.

  Lemma inv_rstep s em op : Inv s em -> ok_op op = true ->
    Inv (fst (rstep cfg s op)) (em ++ emp (snd (rstep cfg s op))).
  Proof.
    intros HI Hok. pose proof HI as [H1 [H2 [H3 H4]]].
    destruct op as [q k|q d|q d|q o|q o|code wm lows| |ps| |q f tt|cerr pcs|m| |q|q d]; cbn [rstep ok_op] in *.
    - apply inv_pump. exact HI.
    - destruct (Z.eq_dec q p) as [->|Hq].
      + apply inv_rec_p; [exact HI|]. intros n Hn. unfold stale_offset. rewrite Hn. lia.
      + destruct (inv_rec_other cfg p f0 t LB s em q (stale_offset s q d) Hq HI) as [Ha Hb]. unfold emp. rewrite Hb, app_nil_r. exact Ha.
    - apply inv_ahead. exact HI.
    - assert (Hq : q <> p) by lia.
      destruct (inv_rec_other cfg p f0 t LB s em q o Hq HI) as [Ha Hb]. unfold emp. rewrite Hb, app_nil_r. exact Ha.
    - cbn [fst snd]. unfold emp, emits_p. cbn [o_emits flat_map snd]. rewrite andb_false_r. cbn [app]. rewrite app_nil_r. exact HI.
    - unfold kerr_step. destruct ((code =? 1) || (code =? 2)) eqn:Ec; [|cbn [fst snd]; apply Inv_mono; exact HI].
      destruct wm.
      + cbn [fst snd]. apply Inv_mono. split; [exact H1|]. split; [intros a t' []|]. split; [exact I|exact H4].
      + cbn [orb negb] in Hok. assert (Hlow : low_of lows p <= LB) by lia.
        destruct (inv_kerr_loop lows Hlow (active s) (trk s) (mlog s) em) as [Ha Hb].
        * intros a t' Hin. apply (H2 a t' Hin).
        * exact H1.
        * exact H4.
        * destruct (kerr_loop (trk s) (active s) lows) as [t' sent]. cbn [fst snd] in *. apply Inv_mono.
          split; [exact Ha|]. split; [intros a t'' []|]. split; [exact I|exact Hb].
    - pose proof (inv_refresh p f0 t LB s em HI) as Hr. destruct (refresh s) as [s' calls]. cbn [fst snd] in *. apply Inv_mono. exact Hr.
    - cbn [fst snd]. apply Inv_mono. exact HI.
    - set (s1 := {| owned := []; active := active s; trk := trk s; cli := cli s; mlog := mlog s |}).
      assert (HI1 : Inv s1 em) by (split; [exact H1|split; [exact H2|split; [exact H3|exact H4]]]).
      pose proof (inv_refresh p f0 t LB s1 em HI1) as Hr. destruct (refresh s1) as [s' calls]. cbn [fst snd] in *. apply Inv_mono. exact Hr.
    - destruct (trim _ (f, tt)) as [f' t'] eqn:Et. cbn [fst snd]. apply Inv_mono.
      apply (inv_trk_other p f0 t LB s em q); [lia|apply add_snap|exact HI].
    - discriminate.
    - destruct m as [q rs|q| |]; cbn [fst snd]; try discriminate; try (apply Inv_mono; exact HI).
      apply Inv_mono. assert (Hq : q <> p) by lia.
      assert (Hsn : snap q (trk s) {| ts := receive (trk s) q rs; terr := false; tout := [(q, rs)] |}) by (right; exists rs; split; reflexivity).
      exact (inv_trk_other p f0 t LB s em q _ Hq Hsn HI).
    - cbn [fst snd]. apply Inv_mono. apply inv_crash. exact HI.
    - unfold rec_crash. destruct (pget q (cli s)) as [n|] eqn:En; [|cbn [fst snd]; apply Inv_mono; apply inv_crash; exact HI].
      destruct (would_send s q n); [cbn [fst snd]; apply Inv_mono; apply inv_crash; exact HI|].
      destruct (Z.eq_dec q p) as [->|Hq].
      + destruct (inv_rec_p cfg p f0 t LB s em n HI) as [HI' _]; [intros n' Hn'; rewrite En in Hn'; inversion Hn'; lia|].
        destruct (rec_step cfg s p n) as [s1 out]. cbn [fst snd] in *. apply inv_crash. exact HI'.
      + destruct (inv_rec_other cfg p f0 t LB s em q n Hq HI) as [Ha Hb].
        destruct (rec_step cfg s q n) as [s1 out]. cbn [fst snd] in *. unfold emp. rewrite Hb, app_nil_r. apply inv_crash. exact Ha.
    - assert (Hq : q <> p) by lia. unfold wild_step.
      destruct (pget q (cli s)) as [n|]; [|cbn [fst snd]; apply Inv_mono; exact HI].
      destruct (pget q (active s)); [|cbn [fst snd]; apply Inv_mono; exact HI].
      destruct (inv_rec_other cfg p f0 t LB s em q (n + 1 + Z.abs d) Hq HI) as [Ha Hb]. unfold emp. rewrite Hb, app_nil_r. exact Ha.
  Qed.

  (* all recovery events of p emitted during a run *)
  Definition run_emits (l : list (rstate * rout)) : list Z := flat_map (fun so => emp (snd so)) l.

  Lemma inv_run : forall ops s em, Inv s em -> forallb ok_op ops = true ->
    Inv (last (map fst (rrun cfg s ops)) s) (em ++ run_emits (rrun cfg s ops)).
  Proof.
    induction ops as [|op ops IH]; intros s em HI Hok; cbn [rrun].
    - cbn. rewrite app_nil_r. exact HI.
    - cbn [forallb] in Hok. apply andb_true_iff in Hok as [Hok1 Hok2].
      pose proof (inv_rstep s em op HI Hok1) as H. destruct (rstep cfg s op) as [s' out]. cbn [fst snd] in H.
      specialize (IH s' _ H Hok2). unfold run_emits in *. cbn [flat_map map snd fst]. rewrite app_assoc.
      rewrite last_cons_default. exact IH.
  Qed.
End CoverRun.
