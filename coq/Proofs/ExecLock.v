(* E1 — the clause evaluated on lockstep snapshots (Judge/E1.lock_clauses_node: the C16 accounting identity
   received = processed + filtered + failed + calls at the gate + async events in flight) holds of the snapshot
   of every node in every reachable state of the model. *)
From Coq Require Import List ZArith Bool Arith Lia.
From FB Require Import Lib.Sexp Model.Exec Model.Settle Model.ExecInv Judge.E1.
From FB Require Proofs.ExecCount.
Import ListNotations.

Lemma insert_item_length x l : length (insert_item x l) = S (length l).
Proof.
  induction l as [|y l IH]; cbn; [reflexivity|].
  destruct ((fst x <? fst y)%Z || ((fst x =? fst y)%Z && (snd x <=? snd y)%Z)); cbn; [reflexivity|]. now rewrite IH.
Qed.
Lemma sort_items_length l : length (sort_items l) = length l.
Proof. induction l as [|x l IH]; [reflexivity|]. unfold sort_items in *. cbn [fold_right]. rewrite insert_item_length. cbn [length]. now rewrite IH. Qed.

Lemma gate_length ws0 :
  length (flat_map (fun w => match w with WProc it => [it] | _ => [] end) ws0)
  = length (filter (fun w => match w with WProc _ => true | _ => false end) ws0).
Proof. induction ws0 as [|w l IH]; cbn; [reflexivity|]. destruct w; cbn; auto. Qed.

Lemma map_length_enc (l : list item) : length (map enc_item l) = length l.
Proof. apply map_length. Qed.

Theorem lock_clause_sound : forall nt T s n, reachable nt T s -> (n < length nt)%nat ->
  lock_clauses_node (snap_node (node s n)) = [].
Proof.
  intros nt T s n Hr Hn.
  pose proof (ExecCount.accounting_identity nt T s n Hr Hn) as A.
  unfold snap_node, lock_clauses_node, ofList, ofNat.
  set (g := map enc_item (at_gate (node s n))). set (f := map enc_item (sort_items (inflight (node s n)))).
  assert (Lg : length g = length (filter (fun w => match w with WProc _ => true | _ => false end) (ws (node s n)))).
  { unfold g, at_gate. rewrite map_length, sort_items_length. apply gate_length. }
  assert (Lf : length f = length (inflight (node s n))).
  { unfold f. rewrite map_length, sort_items_length. reflexivity. }
  assert (E : (Z.of_nat (c_recv (node s n))
               =? Z.of_nat (c_proc (node s n)) + Z.of_nat (c_filt (node s n)) + Z.of_nat (c_fail (node s n))
                  + Z.of_nat (length g) + Z.of_nat (length f))%Z = true).
  { apply Z.eqb_eq. rewrite Lg, Lf. lia. }
  destruct g as [|g0 g'] eqn:Eg; destruct f as [|f0 f'] eqn:Ef; cbn [length] in E |- *;
    try (rewrite E; reflexivity).
  replace (Z.of_nat (c_proc (node s n)) + Z.of_nat (c_filt (node s n)) + Z.of_nat (c_fail (node s n)))%Z
    with (Z.of_nat (c_proc (node s n)) + Z.of_nat (c_filt (node s n)) + Z.of_nat (c_fail (node s n)) + Z.of_nat 0 + Z.of_nat 0)%Z by (cbn; lia).
  rewrite E. reflexivity.
Qed.

Print Assumptions lock_clause_sound.
