(* E3 — lemmas about Model/Tracker.v and Model/TrackerWire.v: association-list facts, the
   characterisation of every tracker operation, exact cover on filing, the replica lemmas,
   and the history theorem "a broadcast key holds the last broadcast list". *)
From Coq Require Import List ZArith Bool Lia ZifyBool.
From FB Require Import Lib.Eqb Model.Tracker Model.TrackerWire.
Import ListNotations.
Open Scope Z_scope.

Ltac dif := match goal with |- context [if ?c then _ else _] => destruct c eqn:? end.
Ltac bool_cases :=
  repeat match goal with
         | |- context [?b && _] => destruct b eqn:?; cbn [andb orb negb]
         | |- context [?b || _] => destruct b eqn:?; cbn [andb orb negb]
         end; try reflexivity; try discriminate.

(* ---------- association lists ---------- *)
Lemma lookup_set_same p v s : lookup p (set p v s) = Some v.
Proof.
  induction s as [|[q rs] s IH]; cbn [set lookup].
  - now rewrite Z.eqb_refl.
  - destruct (q =? p) eqn:E; cbn [lookup]; rewrite E; auto.
Qed.

Lemma lookup_set_other p q v s : q <> p -> lookup q (set p v s) = lookup q s.
Proof.
  intros Hn. induction s as [|[k rs] s IH]; cbn [set lookup].
  - destruct (p =? q) eqn:E; [lia|reflexivity].
  - destruct (k =? p) eqn:E; cbn [lookup].
    + destruct (k =? q) eqn:E2; [lia|reflexivity].
    + destruct (k =? q); auto.
Qed.

Lemma lookup_set p q v s : lookup q (set p v s) = if q =? p then Some v else lookup q s.
Proof.
  destruct (q =? p) eqn:E.
  - apply Z.eqb_eq in E; subst. apply lookup_set_same.
  - apply lookup_set_other. lia.
Qed.

Lemma lookup_In_keys p s rs : lookup p s = Some rs -> In p (map fst s).
Proof.
  induction s as [|[q r] s IH]; cbn [lookup map fst]; [discriminate|].
  destruct (q =? p) eqn:E; intros H.
  - left. lia.
  - right. auto.
Qed.

Lemma lookup_None_keys p s : lookup p s = None <-> ~ In p (map fst s).
Proof.
  induction s as [|[q r] s IH]; cbn [lookup map fst].
  - split; auto.
  - destruct (q =? p) eqn:E; split; intros H.
    + discriminate.
    + exfalso. apply H. left. lia.
    + intros [H1|H1]; [lia|]. now apply IH in H.
    + apply IH. intros H1. apply H. now right.
Qed.

Lemma keys_set p v s : forall q, In q (map fst (set p v s)) <-> q = p \/ In q (map fst s).
Proof.
  intros q. induction s as [|[k r] s IH]; cbn [set map fst].
  - cbn. intuition.
  - destruct (k =? p) eqn:E; cbn [map fst In].
    + assert (k = p) by lia. subst. intuition.
    + rewrite IH. intuition.
Qed.

Lemma lookup_map_empty (s : tstate) q :
  lookup q (map (fun e => (fst e, @nil req)) s) = match lookup q s with Some _ => Some [] | None => None end.
Proof.
  induction s as [|[k r] s IH]; cbn [map lookup fst]; [reflexivity|].
  destruct (k =? q); auto.
Qed.

(* ---------- exact cover on filing ---------- *)
(* one request, both readings of a range: the hull of two ranges that pass the overlap test
   is exactly their union (no wf assumption is needed: an inverted range covers nothing and
   can only overlap a range that contains its end points) *)
Lemma widen_in_req f t r x :
  in_req x (widen f t r) = in_req x r || (overlaps f t r && in_req x (f, t)).
Proof.
  destruct r as [a b]. unfold widen, overlaps, in_req. cbn [fst snd].
  destruct ((f <=? b) && (a <=? t)) eqn:E; cbn [fst snd]; lia.
Qed.

Lemma widen_in_req_oc f t r x :
  in_req_oc x (widen f t r) = in_req_oc x r || (overlaps f t r && in_req_oc x (f, t)).
Proof.
  destruct r as [a b]. unfold widen, overlaps, in_req_oc. cbn [fst snd].
  destruct ((f <=? b) && (a <=? t)) eqn:E; cbn [fst snd]; lia.
Qed.

Section Cover.
  Variable inr : Z -> req -> bool.
  Variables f t : Z.
  Hypothesis widen_inr : forall r x, inr x (widen f t r) = inr x r || (overlaps f t r && inr x (f, t)).

  Lemma existsb_widen x rs :
    existsb (inr x) (map (widen f t) rs)
    = existsb (inr x) rs || (existsb (overlaps f t) rs && inr x (f, t)).
  Proof.
    induction rs as [|r rs IH]; cbn [map existsb]; [reflexivity|].
    rewrite IH, widen_inr.
    destruct (inr x r), (existsb (inr x) rs), (overlaps f t r), (existsb (overlaps f t) rs), (inr x (f, t));
      reflexivity.
  Qed.

  Lemma merged_cover x rs :
    existsb (inr x) (if existsb (overlaps f t) rs then map (widen f t) rs else rs ++ [(f, t)])
    = existsb (inr x) rs || inr x (f, t).
  Proof.
    destruct (existsb (overlaps f t) rs) eqn:E.
    - rewrite existsb_widen, E. reflexivity.
    - rewrite existsb_app. cbn [existsb]. now rewrite orb_false_r.
  Qed.
End Cover.


Lemma add_char s p f t :
  add s p f t = {| ts := set p (merged f t (lk p s)) s; terr := false; tout := [(p, merged f t (lk p s))] |}.
Proof. unfold add, merged, lk. destruct (lookup p s); reflexivity. Qed.

Lemma add_cover s p f t x :
  covered (ts (add s p f t)) p x = covered s p x || in_req x (f, t).
Proof.
  rewrite add_char. cbn [ts]. unfold covered. rewrite lookup_set_same. unfold merged.
  rewrite (merged_cover in_req f t (widen_in_req f t)). unfold lk.
  destruct (lookup p s); reflexivity.
Qed.

Lemma add_cover_oc s p f t x :
  covered_oc (ts (add s p f t)) p x = covered_oc s p x || in_req_oc x (f, t).
Proof.
  rewrite add_char. cbn [ts]. unfold covered_oc. rewrite lookup_set_same. unfold merged.
  rewrite (merged_cover in_req_oc f t (widen_in_req_oc f t)). unfold lk.
  destruct (lookup p s); reflexivity.
Qed.

Lemma add_frame s p f t q : q <> p -> lookup q (ts (add s p f t)) = lookup q s.
Proof. intros H. rewrite add_char. cbn [ts]. now apply lookup_set_other. Qed.

(* birth order: appended as the youngest, or every request keeps its place and is widened
   exactly when it passes the overlap test *)
Lemma add_order s p f t :
  lookup p (ts (add s p f t)) = Some (merged f t (lk p s))
  /\ (existsb (overlaps f t) (lk p s) = false -> merged f t (lk p s) = lk p s ++ [(f, t)])
  /\ (existsb (overlaps f t) (lk p s) = true ->
      merged f t (lk p s)
      = map (fun r => if overlaps f t r then (Z.min f (fst r), Z.max t (snd r)) else r) (lk p s)).
Proof.
  rewrite add_char. cbn [ts]. rewrite lookup_set_same. unfold merged. split; [reflexivity|].
  split; intros E; rewrite E; reflexivity.
Qed.

(* ---------- update / complete / cancel / receive ---------- *)
Lemma update_ok s p f t f0 rest :
  lookup p s = Some ((f0, t) :: rest) ->
  update s p f t = {| ts := set p ((f, t) :: rest) s; terr := false; tout := [(p, (f, t) :: rest)] |}.
Proof. intros H. unfold update. rewrite H. cbv beta iota. rewrite Z.eqb_refl. reflexivity. Qed.

Lemma update_refused s p f t :
  (forall f0 rest, lookup p s <> Some ((f0, t) :: rest)) ->
  update s p f t = {| ts := s; terr := true; tout := [] |}.
Proof.
  intros H. unfold update. destruct (lookup p s) as [[|[f0 t0] rest]|] eqn:E; try reflexivity.
  destruct (t0 =? t) eqn:E2; [|reflexivity]. exfalso. apply (H f0 rest). f_equal. f_equal. f_equal. lia.
Qed.

Lemma update_err_iff s p f t :
  terr (update s p f t) = false <-> exists f0 rest, lookup p s = Some ((f0, t) :: rest).
Proof.
  unfold update. destruct (lookup p s) as [[|[f0 t0] rest]|] eqn:E; cbn [terr].
  - split; [discriminate|]. intros (? & ? & ?); discriminate.
  - destruct (t0 =? t) eqn:E2; cbn [terr]; split; intros H; try discriminate; try reflexivity.
    + exists f0, rest. repeat f_equal. lia.
    + destruct H as (a & b & H). inversion H; subst. lia.
  - split; [discriminate|]. intros (? & ? & ?); discriminate.
Qed.

Lemma complete_ok s p t rs :
  lookup p s = Some rs -> existsb (ends_at t) rs = true ->
  complete s p t = {| ts := set p (filter (fun r => negb (ends_at t r)) rs) s; terr := false;
                      tout := [(p, filter (fun r => negb (ends_at t r)) rs)] |}.
Proof.
  intros H E. unfold complete. rewrite H. cbv beta iota.
  match goal with |- (if ?c then _ else _) = _ => change c with (existsb (ends_at t) rs) end.
  rewrite E. reflexivity.
Qed.

Lemma complete_refused s p t :
  (forall rs, lookup p s = Some rs -> existsb (ends_at t) rs = false) ->
  complete s p t = {| ts := s; terr := true; tout := [] |}.
Proof.
  intros H. unfold complete. destruct (lookup p s) as [rs|]; [|reflexivity].
  specialize (H rs eq_refl).
  match goal with |- (if ?c then _ else _) = _ => change c with (existsb (ends_at t) rs) end.
  rewrite H. reflexivity.
Qed.

(* a refused operation changes nothing and broadcasts nothing (every operation) *)
Lemma tstep_err s o : terr (tstep s o) = true -> ts (tstep s o) = s /\ tout (tstep s o) = [].
Proof.
  destruct o as [p f t|p f t|p t| |p rs|]; cbn [tstep].
  - rewrite add_char. cbn [terr]. discriminate.
  - unfold update. destruct (lookup p s) as [[|[f0 t0] rest]|]; cbn [terr ts tout]; auto.
    dif; cbn [terr ts tout]; auto. discriminate.
  - unfold complete. destruct (lookup p s) as [rs|]; cbn [terr ts tout]; auto.
    dif; cbn [terr ts tout]; auto. discriminate.
  - cbn [cancel_all terr]. discriminate.
  - cbn [terr]. discriminate.
  - cbn [terr]. discriminate.
Qed.

Lemma tstep_frame s o p q :
  op_part o = Some p -> q <> p -> lookup q (ts (tstep s o)) = lookup q s.
Proof.
  intros Ho Hq. destruct o as [p' f t|p' f t|p' t| |p' rs|]; cbn in Ho; inversion Ho; subst; cbn [tstep].
  - now apply add_frame.
  - unfold update. destruct (lookup p s) as [[|[f0 t0] rest]|]; cbn [ts]; auto.
    destruct (t0 =? t); cbn [ts]; auto. now apply lookup_set_other.
  - unfold complete. destruct (lookup p s) as [rs|]; cbn [ts]; auto.
    dif; cbn [ts]; auto. now apply lookup_set_other.
  - cbn [ts]. unfold receive. now apply lookup_set_other.
Qed.

(* every broadcast is the complete list now held for its key *)
Lemma tstep_out_snapshot s o k rs :
  In (k, rs) (tout (tstep s o)) -> lookup k (ts (tstep s o)) = Some rs.
Proof.
  destruct o as [p f t|p f t|p t| |p rs'|]; cbn [tstep].
  - rewrite add_char. cbn [tout ts]. intros [H|[]]. inversion H; subst. apply lookup_set_same.
  - unfold update. destruct (lookup p s) as [[|[f0 t0] rest]|]; cbn [tout ts In]; try tauto.
    destruct (t0 =? t); cbn [tout ts In]; try tauto.
    intros [H|[]]. inversion H; subst. apply lookup_set_same.
  - unfold complete. destruct (lookup p s) as [rs'|]; cbn [tout ts In]; try tauto.
    dif; cbn [tout ts In]; try tauto.
    intros [H|[]]. inversion H; subst. apply lookup_set_same.
  - cbn [cancel_all tout ts]. intros H. apply in_map_iff in H as ([k' r'] & E & Hin).
    cbn [fst] in E. inversion E; subst. rewrite lookup_map_empty.
    destruct (lookup k s) eqn:El; [reflexivity|].
    apply lookup_None_keys in El. exfalso. apply El. apply in_map_iff. now exists (k, r').
  - cbn [tout In]. tauto.
  - cbn [tout In]. tauto.
Qed.

(* a key that is neither broadcast nor overwritten by a received snapshot keeps its list *)
Lemma tstep_quiet s o k :
  ~ In k (map fst (tout (tstep s o))) -> recv_part o <> Some k ->
  lookup k (ts (tstep s o)) = lookup k s.
Proof.
  intros Hn Hr. destruct o as [p f t|p f t|p t| |p rs'|]; cbn [tstep] in *.
  - rewrite add_char in *. cbn [tout ts map fst] in *. apply lookup_set_other. intros ->. apply Hn. now left.
  - unfold update in *. destruct (lookup p s) as [[|[f0 t0] rest]|]; cbn [tout ts] in *; auto.
    destruct (t0 =? t); cbn [tout ts map fst] in *; auto.
    apply lookup_set_other. intros ->. apply Hn. now left.
  - unfold complete in *. destruct (lookup p s) as [rs'|]; cbn [tout ts] in *; auto.
    destruct (existsb (fun r : Z * Z => snd r =? t) rs'); cbn [tout ts map fst] in *; auto.
    apply lookup_set_other. intros ->. apply Hn. now left.
  - cbn [cancel_all tout ts] in *. rewrite lookup_map_empty.
    destruct (lookup k s) eqn:El; [|reflexivity].
    exfalso. apply Hn. rewrite map_map. cbn [fst]. eapply lookup_In_keys; eauto.
  - cbn [ts recv_part] in *. unfold receive. apply lookup_set_other. intros ->. now apply Hr.
  - reflexivity.
Qed.

(* ---------- the replica side ---------- *)
Lemma last_bcast_app p a b :
  last_bcast p (a ++ b) = match last_bcast p b with Some rs => Some rs | None => last_bcast p a end.
Proof.
  induction a as [|x a IH]; cbn [app last_bcast].
  - destruct (last_bcast p b); reflexivity.
  - rewrite IH. destruct (last_bcast p b); reflexivity.
Qed.

Lemma last_bcast_None p msgs : last_bcast p msgs = None <-> ~ In p (map fst msgs).
Proof.
  induction msgs as [|b msgs IH]; cbn [last_bcast map In].
  - tauto.
  - destruct (last_bcast p msgs) eqn:E.
    + destruct (in_dec Z.eq_dec p (map fst msgs)) as [Hi|Hn]; [|apply IH in Hn; congruence].
      split; [discriminate|]. intros H. exfalso. apply H. now right.
    + destruct (fst b =? p) eqn:E2; split; intros H; try discriminate.
      * exfalso. apply H. left. lia.
      * intros [H1|H1]; [lia|]. now apply IH.
      * reflexivity.
Qed.

Lemma last_bcast_In p msgs rs : last_bcast p msgs = Some rs -> In (p, rs) msgs.
Proof.
  induction msgs as [|[k r] msgs IH]; cbn [last_bcast fst snd]; [discriminate|].
  destruct (last_bcast p msgs) eqn:E.
  - intros H. inversion H; subst. right. now apply IH.
  - destruct (k =? p) eqn:E2; [|discriminate]. intros H; inversion H; subst. left. f_equal. lia.
Qed.

(* a replica applying messages in order holds, for every key, the last list sent under it *)
Lemma apply_all_lookup r msgs p :
  lookup p (apply_all r msgs) = match last_bcast p msgs with Some rs => Some rs | None => lookup p r end.
Proof.
  revert r. induction msgs as [|b msgs IH]; intros r; cbn [apply_all fold_left last_bcast].
  - reflexivity.
  - fold (apply_all (receive r (fst b) (snd b)) msgs). rewrite IH.
    destruct (last_bcast p msgs); [reflexivity|].
    unfold receive. rewrite lookup_set. rewrite (Z.eqb_sym p). destruct (fst b =? p); reflexivity.
Qed.

(* compaction keeps, for every key, its last message *)
Lemma last_bcast_compact p msgs : last_bcast p (compact msgs) = last_bcast p msgs.
Proof.
  induction msgs as [|b msgs IH]; cbn [compact last_bcast]; [reflexivity|].
  destruct (existsb (fun b' => fst b' =? fst b) msgs) eqn:E.
  - rewrite IH. destruct (last_bcast p msgs) eqn:E2; [reflexivity|].
    destruct (fst b =? p) eqn:E3; [|reflexivity].
    exfalso. apply last_bcast_None in E2. apply E2.
    apply existsb_exists in E as (b' & Hin & Hb). apply in_map_iff. exists b'. split; [lia|assumption].
  - cbn [last_bcast]. rewrite IH. reflexivity.
Qed.

Lemma replica_all_or_last r msgs p :
  lookup p (apply_all r (compact msgs)) = lookup p (apply_all r msgs).
Proof. now rewrite !apply_all_lookup, last_bcast_compact. Qed.

(* ---------- histories: a broadcast key holds the last list broadcast under it ---------- *)
Lemma tstep_last s o p :
  recv_part o <> Some p ->
  lookup p (ts (tstep s o))
  = match last_bcast p (tout (tstep s o)) with Some rs => Some rs | None => lookup p s end.
Proof.
  intros Hr. destruct (last_bcast p (tout (tstep s o))) as [rs|] eqn:E.
  - apply last_bcast_In in E. now apply tstep_out_snapshot.
  - apply last_bcast_None in E. now apply tstep_quiet.
Qed.

Lemma xstep_last s o p :
  recv_key o <> Some p ->
  lookup p (xs (xstep s o))
  = match last_bcast p (xout (xstep s o)) with Some rs => Some rs | None => lookup p s end.
Proof.
  intros Hr. unfold xstep. destruct (lower o) as [t|] eqn:El; cbn [xs xout last_bcast]; [|reflexivity].
  apply tstep_last. intros Hp. apply Hr.
  destruct o as [a b c|a b c|a b|mt key pl]; cbn [lower] in El.
  - inversion El; subst. discriminate.
  - inversion El; subst. discriminate.
  - inversion El; subst. discriminate.
  - cbn [recv_key]. destruct (mt =? 0).
    + destruct pl; inversion El; subst; cbn [recv_part] in Hp; [assumption|discriminate].
    + destruct (mt =? 1); inversion El; subst. discriminate.
Qed.

Lemma xstep_out_snapshot s o k rs :
  In (k, rs) (xout (xstep s o)) -> lookup k (xs (xstep s o)) = Some rs.
Proof.
  unfold xstep. destruct (lower o); cbn [xs xout In]; [|tauto]. apply tstep_out_snapshot.
Qed.

Definition sent_of (rs : list xres) : list bcast := flat_map xout rs.

Lemma xrun_cons s o ops :
  xrun s (o :: ops) = (fst (xrun (xs (xstep s o)) ops), xstep s o :: snd (xrun (xs (xstep s o)) ops)).
Proof. cbn [xrun]. destruct (xrun (xs (xstep s o)) ops). reflexivity. Qed.

(* the general form: for a key p that no call of the history overwrites with a received snapshot,
   the final list of p is the last list broadcast under p (or the initial one if none was) *)
Lemma xrun_last p : forall ops s,
  forallb (fun o => match recv_key o with Some q => negb (q =? p) | None => true end) ops = true ->
  lookup p (fst (xrun s ops))
  = match last_bcast p (sent_of (snd (xrun s ops))) with Some rs => Some rs | None => lookup p s end.
Proof.
  induction ops as [|o ops IH]; intros s H.
  - reflexivity.
  - cbn [forallb] in H. apply andb_true_iff in H as [H1 H2].
    rewrite xrun_cons. cbn [fst snd]. unfold sent_of. cbn [flat_map].
    rewrite last_bcast_app. fold (sent_of (snd (xrun (xs (xstep s o)) ops))).
    rewrite (IH _ H2). destruct (last_bcast p (sent_of _)); [reflexivity|].
    apply xstep_last. intros E. rewrite E in H1. rewrite Z.eqb_refl in H1. discriminate.
Qed.

Lemma xrun_app : forall h1 h2 s,
  xrun s (h1 ++ h2)
  = (fst (xrun (fst (xrun s h1)) h2), snd (xrun s h1) ++ snd (xrun (fst (xrun s h1)) h2)).
Proof.
  induction h1 as [|o h1 IH]; intros h2 s.
  - cbn [app xrun fst snd]. now destruct (xrun s h2).
  - cbn [app]. rewrite !xrun_cons. cbn [fst snd]. rewrite IH. reflexivity.
Qed.

Lemma sent_of_app a b : sent_of (a ++ b) = sent_of a ++ sent_of b.
Proof. unfold sent_of. apply flat_map_app. Qed.

Definition no_recv_on (p : Z) (ops : list xop) : bool :=
  forallb (fun o => match recv_key o with Some q => negb (q =? p) | None => true end) ops.

(* The snapshot-replica theorem.  Take ANY history h1 ++ h2 run from any state s, such that
   during h2 partition p is broadcast at least once and is not overwritten by a snapshot
   received from elsewhere.  Then an instance that started from any state r and applied every
   message of the history in order, and an instance that applied only the last message of
   every key, both hold for p exactly the list the origin holds. *)
Lemma snapshot_replica h1 h2 s r p :
  no_recv_on p h2 = true ->
  In p (map fst (sent_of (snd (xrun (fst (xrun s h1)) h2)))) ->
  let origin := fst (xrun s (h1 ++ h2)) in
  let msgs := sent_of (snd (xrun s (h1 ++ h2))) in
  lookup p (apply_all r msgs) = lookup p origin
  /\ lookup p (apply_all r (compact msgs)) = lookup p origin
  /\ exists rs, lookup p origin = Some rs.
Proof.
  intros Hn Hin origin msgs. subst origin msgs.
  rewrite xrun_app. cbn [fst snd]. rewrite sent_of_app.
  rewrite replica_all_or_last, apply_all_lookup, last_bcast_app.
  rewrite (xrun_last p h2 _ Hn).
  destruct (last_bcast p (sent_of (snd (xrun (fst (xrun s h1)) h2)))) as [rs|] eqn:E.
  - repeat split; eauto.
  - apply last_bcast_None in E. contradiction.
Qed.

(* ---------- packaged statements used by Props/C08.v ---------- *)
Lemma add_frame_full s p f t :
  terr (add s p f t) = false
  /\ tout (add s p f t) = [(p, merged f t (lk p s))]
  /\ lookup p (ts (add s p f t)) = Some (merged f t (lk p s))
  /\ forall q, q <> p -> lookup q (ts (add s p f t)) = lookup q s.
Proof.
  rewrite add_char. cbn [terr tout ts]. repeat split.
  - apply lookup_set_same.
  - intros q Hq. now apply lookup_set_other.
Qed.

Lemma update_only_head s p f t :
  (forall f0 rest, lookup p s = Some ((f0, t) :: rest) ->
     update s p f t = {| ts := set p ((f, t) :: rest) s; terr := false; tout := [(p, (f, t) :: rest)] |})
  /\ ((forall f0 rest, lookup p s <> Some ((f0, t) :: rest)) ->
     update s p f t = {| ts := s; terr := true; tout := [] |})
  /\ (terr (update s p f t) = false <-> exists f0 rest, lookup p s = Some ((f0, t) :: rest)).
Proof.
  split; [|split].
  - intros f0 rest H. eapply update_ok; eauto.
  - apply update_refused.
  - apply update_err_iff.
Qed.

Lemma complete_only_named s p t :
  (forall rs, lookup p s = Some rs -> existsb (ends_at t) rs = true ->
     complete s p t = {| ts := set p (filter (fun r => negb (ends_at t r)) rs) s; terr := false;
                         tout := [(p, filter (fun r => negb (ends_at t r)) rs)] |})
  /\ ((forall rs, lookup p s = Some rs -> existsb (ends_at t) rs = false) ->
     complete s p t = {| ts := s; terr := true; tout := [] |}).
Proof. split; [apply complete_ok | apply complete_refused]. Qed.
