(* Lemmas for C12: what a receiver delivers from a log written by senders, from its compaction,
   and soundness of [spec_c12]. *)
From Coq Require Import List ZArith Bool Lia.
From FB Require Import Lib.Eqb Model.Wire Model.Receiver Judge.E5 Proofs.WireProofs Proofs.ReceiverProofs.
Import ListNotations.
Open Scope Z_scope.

Definition rec_some (w : wire) : rop := Rec (Some w).
Definition unacked (ws : list wire) : list msg := map w_msg (filter (fun w => negb (w_ack w)) ws).

(* ---------- a receiver that is still catching up only buffers ---------- *)
Lemma buf_put_latest l w : buf_put w (latest l) = latest (l ++ [w]).
Proof. unfold buf_put, same_slot. now rewrite latest_snoc. Qed.

Lemma fold_buf_latest : forall ws l,
  fold_left (fun b w => buf_put w b) ws (latest l) = latest (l ++ ws).
Proof.
  induction ws as [|w ws IH]; intros l; cbn [fold_left]; [now rewrite app_nil_r|].
  rewrite buf_put_latest, IH, <- app_assoc. reflexivity.
Qed.

Lemma rrun_records : forall ws rest e n b,
  rrun {| r_init := false; r_eofs := e; r_pcount := n; r_buf := b |} (map rec_some ws ++ rest)
  = map (fun _ => (false, [])) ws
    ++ rrun {| r_init := false; r_eofs := e; r_pcount := n; r_buf := fold_left (fun b w => buf_put w b) ws b |} rest.
Proof.
  induction ws as [|w ws IH]; intros rest e n b; [reflexivity|].
  cbn [map app rrun rstep rec_some r_init r_eofs r_pcount r_buf fold_left]. f_equal. apply IH.
Qed.

Lemma concat_silent {A} (ws : list A) : concat (map snd (map (fun _ => (false, @nil msg)) ws)) = [].
Proof. induction ws; cbn; auto. Qed.

(* a fresh single-partition receiver fed records and then the end-of-partition signal *)
Lemma deliveries_full ws : deliveries (map rec_some ws ++ [Eof 0]) = latest_unacked ws.
Proof.
  unfold deliveries, rinit. rewrite rrun_records, map_app, concat_app, concat_silent.
  change (@nil wire) with (latest []). rewrite fold_buf_latest. cbn. now rewrite app_nil_r.
Qed.

(* an initialised receiver delivers every unacknowledged record as it arrives *)
Lemma rrun_live : forall ws s, r_init s = true ->
  rrun s (map rec_some ws) = map (fun w => (true, if w_ack w then [] else [w_msg w])) ws.
Proof.
  induction ws as [|w ws IH]; intros s Hs; [reflexivity|].
  cbn [map rrun rstep rec_some]. rewrite Hs. cbn [r_init]. rewrite Hs. f_equal. now apply IH.
Qed.

Lemma concat_live ws :
  concat (map snd (map (fun w => (true, if w_ack w then [] else [w_msg w])) ws)) = unacked ws.
Proof.
  unfold unacked. induction ws as [|w ws IH]; [reflexivity|].
  cbn [map concat snd filter]. rewrite IH. now destruct (w_ack w).
Qed.

Lemma deliveries_live ws : deliveries (Eof 0 :: map rec_some ws) = unacked ws.
Proof.
  unfold deliveries. cbn [rrun rstep rinit r_init r_eofs r_pcount r_buf set_add existsb length Nat.leb negb andb
                          process_init_buffer filter map concat app snd].
  rewrite rrun_live by reflexivity. apply concat_live.
Qed.

(* ---------- compaction ---------- *)
Lemma latest_unacked_latest ws : latest_unacked (latest ws) = latest_unacked ws.
Proof. unfold latest_unacked. now rewrite latest_idem. Qed.

Lemma compaction_then_receive ws :
  forallb (fun w => no_dash (m_type (w_msg w))) ws = true ->
  deliveries (map rec_some (map snd (compact (keyed ws))) ++ [Eof 0]) = latest_unacked ws
  /\ deliveries (map rec_some ws ++ [Eof 0]) = latest_unacked ws.
Proof.
  intros H. split; [|apply deliveries_full].
  rewrite deliveries_full, (compact_keyed ws H). apply latest_unacked_latest.
Qed.

(* ---------- the sender part of the model ---------- *)
Lemma log_of_sops topics sops :
  map (fun r => (r_key r, r_value r))
      (flat_map (fun s => produce (topic_of topics s) (so_msg s) (so_ack s)) sops)
  = keyed (map wire_of sops).
Proof. induction sops as [|s sops IH]; [reflexivity|]. cbn. now rewrite IH. Qed.

Lemma rec_of_keyed (l : list (bytes * wire)) : map (fun r => Rec (Some (snd r))) l = map rec_some (map snd l).
Proof. now rewrite map_map. Qed.
Lemma snd_keyed ws : map snd (keyed ws) = ws.
Proof. unfold keyed. rewrite map_map. cbn. apply map_id. Qed.

Lemma dom12_no_dash i : dom12 i = true ->
  forallb (fun w => no_dash (m_type (w_msg w))) (map wire_of (i_sops i)) = true.
Proof.
  unfold dom12. rewrite !forallb_forall. intros H w Hw. apply in_map_iff in Hw as [s [<- Hs]].
  specialize (H s Hs). unfold dom12_op in H. cbn.
  apply andb_true_iff in H as [H _]. apply andb_true_iff in H as [H _]. apply andb_true_iff in H as [_ H]. exact H.
Qed.

Lemma In_combine_map {A B} (f : A -> B) l x : In x (combine l (map f l)) -> exists a, In a l /\ x = (a, f a).
Proof.
  induction l as [|a l IH]; cbn; [intros []|]. intros [<-|H]; [exists a; auto|].
  destruct (IH H) as [a' [Ha' ->]]. exists a'. auto.
Qed.

Lemma spec_c12_sound i : spec_c12 i (model_obs12 i) = [].
Proof.
  unfold spec_c12. destruct (dom12 i) eqn:D; [|reflexivity].
  pose proof (dom12_no_dash i D) as ND.
  unfold model_obs12. cbn [o_prod o_live o_full o_comp].
  rewrite map_length, Nat.eqb_refl, log_of_sops, !rec_of_keyed, snd_keyed.
  rewrite deliveries_live, deliveries_full.
  destruct (compaction_then_receive _ ND) as [-> _].
  fold (unacked (map wire_of (i_sops i))).
  rewrite (list_eqb_refl msg_eqb msg_eqb_refl), !perm_eqb_refl. cbn [andb].
  set (f := fun s => (false, map orec_of (produce (topic_of (i_topics i) s) (so_msg s) (so_ack s)))).
  assert (C1 : forallb (fun x => one_record (i_topics i) (fst x) (snd x)) (combine (i_sops i) (map f (i_sops i))) = true).
  { apply forallb_forall. intros x Hx. apply In_combine_map in Hx as [s [_ ->]].
    unfold f, one_record. cbn. now rewrite !Z.eqb_refl. }
  assert (C2 : forallb (fun x => decodes_back (fst x) (snd x)) (combine (i_sops i) (map f (i_sops i))) = true).
  { apply forallb_forall. intros x Hx. apply In_combine_map in Hx as [s [_ ->]].
    unfold f, decodes_back. cbn. apply wire_eqb_refl. }
  assert (C3 : keys_consistent (combine (i_sops i) (map f (i_sops i))) = true).
  { unfold keys_consistent. apply forallb_forall. intros a Ha. apply forallb_forall. intros b Hb.
    apply In_combine_map in Ha as [sa [Hsa ->]]. apply In_combine_map in Hb as [sb [Hsb ->]].
    unfold f. cbn [key_of snd fst produce map orec_of or_key r_key].
    rewrite forallb_forall in ND.
    rewrite unique_key_inj.
    - now destruct (same_id (so_msg sa) (so_msg sb)).
    - apply (ND (wire_of sa)). now apply in_map.
    - apply (ND (wire_of sb)). now apply in_map. }
  rewrite C1, C2, C3. reflexivity.
Qed.
