(* E1 — the states the prediction pass (Model/Play.v) shows to the lockstep driver are REACHABLE states of the
   scheduled model (so every invariant proved for [reachable] applies to every predicted snapshot), and they are
   quiescent: no internal action is enabled. *)
From Coq Require Import List ZArith Bool Arith Lia.
From FB Require Import Lib.Sexp Model.Exec Model.Settle Model.Play Model.ExecInv.
From FB Require Proofs.ExecMain.
Import ListNotations.

Lemma first_enabled_spec nt T s l r :
  first_enabled nt T s l = Some r -> exists a, In a l /\ step nt T s a = r /\ r <> NotEnabled.
Proof.
  induction l as [|a l IH]; cbn; [discriminate|].
  destruct (step nt T s a) eqn:E.
  - intros H; inversion H; subst. exists a. split; [left; reflexivity|]. split; [exact E|discriminate].
  - intros H. destruct (IH H) as (b & Hb & Hs & Hn). exists b. split; [right; exact Hb|]. auto.
  - intros H; inversion H; subst. exists a. split; [left; reflexivity|]. split; [exact E|discriminate].
Qed.

Lemma first_enabled_none nt T s l :
  first_enabled nt T s l = None -> forall a, In a l -> step nt T s a = NotEnabled.
Proof.
  induction l as [|b l IH]; cbn; [intros _ a []|].
  destruct (step nt T s b) eqn:E; try discriminate.
  intros H a [<-|Ha]; [exact E|apply IH; assumption].
Qed.

Lemma settle_S f nt T s :
  settle (S f) nt T s = match first_enabled nt T s (candidates nt s) with
                        | None => SOk s
                        | Some (Ok s') => settle f nt T s'
                        | Some _ => SPanic
                        end.
Proof. reflexivity. Qed.

Lemma settle_run fuel : forall nt T s s',
  settle fuel nt T s = SOk s' ->
  (exists sch, run nt T s sch = Ok s') /\ forall a, In a (candidates nt s') -> step nt T s' a = NotEnabled.
Proof.
  induction fuel as [|f IH]; intros nt T s s' H; [discriminate|]. rewrite settle_S in H.
  destruct (first_enabled nt T s (candidates nt s)) as [r|] eqn:E.
  - destruct r as [s1| |]; try discriminate.
    destruct (first_enabled_spec _ _ _ _ _ E) as (a & _ & Hs & _).
    destruct (IH nt T s1 s' H) as [[sch Hr] Hq]. split; [|exact Hq].
    exists (a :: sch). cbn. rewrite Hs. exact Hr.
  - inversion H; subst. split; [exists []; reflexivity|]. apply first_enabled_none. exact E.
Qed.

Lemma reachable_run nt T s sch s' : reachable nt T s -> run nt T s sch = Ok s' -> reachable nt T s'.
Proof.
  intros [sch0 H0] H. exists (sch0 ++ sch). rewrite ExecMain.run_app, H0. exact H.
Qed.

Lemma apply_all_run nt T l : forall s s', apply_all nt T s l = Some s' -> run nt T s l = Ok s'.
Proof.
  induction l as [|a l IH]; intros s s' H; cbn in *; [inversion H; reflexivity|].
  destruct (step nt T s a); try discriminate. apply IH. exact H.
Qed.

(* one scenario step keeps the model in a reachable state *)
Theorem play1_reachable nt T p i :
  reachable nt T (st p) -> reachable nt T (st (fst (fst (play1 nt T p i)))).
Proof.
  intros Hr. unfold play1.
  destruct (stopped p || bad p); [exact Hr|].
  (* every branch is either [skip] (state unchanged) or [attempt acts ...] *)
  assert (Att : forall acts c used rel,
            reachable nt T (st (fst (fst (
              match apply_all nt T (st p) acts with
              | None => (p, CSkip, snapshot (st p))
              | Some s1 =>
                  match settle fuel0 nt T s1 with
                  | SOk s2 =>
                      if ambiguous_blocked s2 || ambiguous_discard nt (st p) s2 rel || order_sensitive nt T s1 s2
                      then ({| st := st p; next_id := next_id p; stopped := true; bad := false |}, CSkip, snapshot (st p))
                      else ({| st := s2; next_id := (next_id p + used)%Z; stopped := false; bad := false |}, c, snapshot s2)
                  | _ => ({| st := st p; next_id := next_id p; stopped := true; bad := true |}, CSkip, snapshot (st p))
                  end
              end))))).
  { intros acts c used rel. destruct (apply_all nt T (st p) acts) as [s1|] eqn:Ea; [|exact Hr].
    destruct (settle fuel0 nt T s1) as [s2| |] eqn:Es; try exact Hr.
    destruct (ambiguous_blocked s2 || ambiguous_discard nt (st p) s2 rel || order_sensitive nt T s1 s2); [exact Hr|]. cbn.
    destruct (settle_run _ _ _ _ _ Es) as [[sch Hrun] _].
    eapply reachable_run; [|exact Hrun]. eapply reachable_run; [exact Hr|]. apply apply_all_run. exact Ea. }
  destruct i as [|n k okind arg|n k okind arg| | |].
  - apply Att.
  - destruct (length nt) eqn:El; [exact Hr|].
    destruct (at_gate (node (st p) (n mod S n0))) eqn:Eg; [exact Hr|].
    destruct (find_worker _ _ 0); [apply Att|exact Hr].
  - destruct (length nt) eqn:El; [exact Hr|].
    destruct (sort_items (inflight (node (st p) (n mod S n0)))) eqn:Eg; [exact Hr|]. apply Att.
  - apply Att.
  - apply Att.
  - destruct (src (st p)); try exact Hr. destruct (mn (st p)); try exact Hr. apply Att.
Qed.

(* ... and leaves it quiescent whenever it moved *)
Theorem play_states_reachable nt T : forall l p,
  reachable nt T (st p) -> reachable nt T (st (fst (play nt T p l))).
Proof.
  induction l as [|i l IH]; intros p Hr; cbn; [exact Hr|].
  pose proof (play1_reachable nt T p i Hr) as H1.
  destruct (play1 nt T p i) as [[p1 c] sn]. cbn in H1.
  specialize (IH p1 H1). destruct (play nt T p1 l) as [p2 out]. exact IH.
Qed.

Theorem play_from_init_reachable nt T l :
  reachable nt T (st (fst (fst (play_from_init nt T l)))).
Proof.
  unfold play_from_init.
  destruct (settle fuel0 nt T (init nt)) as [s0| |] eqn:Es; try (exists []; reflexivity).
  destruct (settle_run _ _ _ _ _ Es) as [[sch Hrun] _].
  pose proof (play_states_reachable nt T l {| st := s0; next_id := 1000%Z; stopped := false; bad := false |}) as H.
  cbn in H. specialize (H (ex_intro _ sch Hrun)).
  destruct (play nt T _ l) as [p out]. exact H.
Qed.

(* the result of [settle] is quiescent: no internal action of the framework is enabled *)
Theorem settle_quiescent fuel nt T s s' :
  settle fuel nt T s = SOk s' -> forall a, In a (candidates nt s') -> step nt T s' a = NotEnabled.
Proof. intros H. exact (proj2 (settle_run fuel nt T s s' H)). Qed.

Print Assumptions play_from_init_reachable.
Print Assumptions settle_quiescent.
