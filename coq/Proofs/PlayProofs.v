(* E1 — the states the prediction pass (Model/Play.v) shows to the lockstep driver are REACHABLE states of the
   scheduled model (so every invariant proved for [reachable] applies to every predicted snapshot), and they are
   quiescent: no internal action is enabled. *)
From Coq Require Import List ZArith Bool Arith Lia.
From FB Require Import Lib.Sexp Model.Exec Model.Settle Model.Play Model.ExecInv.
From FB Require Proofs.ExecMain.
Import ListNotations.

Lemma first_enabled_spec nt T s l r :
  first_enabled nt T s l = Some r -> exists a, In a l /\ step nt T s a = r /\ r <> NotEnabled.
Proof.
  induction l as [|a l IH]; cbn; [discriminate|].
  destruct (step nt T s a) eqn:E.
  - intros H; inversion H; subst. exists a. split; [left; reflexivity|]. split; [exact E|discriminate].
  - intros H. destruct (IH H) as (b & Hb & Hs & Hn). exists b. split; [right; exact Hb|]. auto.
  - intros H; inversion H; subst. exists a. split; [left; reflexivity|]. split; [exact E|discriminate].
Qed.

Lemma first_enabled_none nt T s l :
  first_enabled nt T s l = None -> forall a, In a l -> step nt T s a = NotEnabled.
Proof.
  induction l as [|b l IH]; cbn; [intros _ a []|].
  destruct (step nt T s b) eqn:E; try discriminate.
  intros H a [<-|Ha]; [exact E|apply IH; assumption].
Qed.

Lemma settle_S f nt T s :
  settle (S f) nt T s = match first_enabled nt T s (candidates nt s) with
                        | None => SOk s
                        | Some (Ok s') => settle f nt T s'
                        | Some _ => SPanic
                        end.
Proof. reflexivity. Qed.

Lemma settle_run fuel : forall nt T s s',
  settle fuel nt T s = SOk s' ->
  (exists sch, run nt T s sch = Ok s') /\ forall a, In a (candidates nt s') -> step nt T s' a = NotEnabled.
Proof.
  induction fuel as [|f IH]; intros nt T s s' H; [discriminate|]. rewrite settle_S in H.
  destruct (first_enabled nt T s (candidates nt s)) as [r|] eqn:E.
  - destruct r as [s1| |]; try discriminate.
    destruct (first_enabled_spec _ _ _ _ _ E) as (a & _ & Hs & _).
    destruct (IH nt T s1 s' H) as [[sch Hr] Hq]. split; [|exact Hq].
    exists (a :: sch). cbn. rewrite Hs. exact Hr.
  - inversion H; subst. split; [exists []; reflexivity|]. apply first_enabled_none. exact E.
Qed.

Lemma reachable_run nt T s sch s' : reachable nt T s -> run nt T s sch = Ok s' -> reachable nt T s'.
Proof.
  intros [sch0 H0] H. exists (sch0 ++ sch). rewrite ExecMain.run_app, H0. exact H.
Qed.

Lemma apply_all_run nt T l : forall s s', apply_all nt T s l = Some s' -> run nt T s l = Ok s'.
Proof.
  induction l as [|a l IH]; intros s s' H; cbn in *; [inversion H; reflexivity|].
  destruct (step nt T s a); try discriminate. apply IH. exact H.
Qed.

Lemma R_apply nt T s acts s1 : reachable nt T s -> apply_all nt T s acts = Some s1 -> reachable nt T s1.
Proof. intros Hr H. eapply reachable_run; [exact Hr|]. apply apply_all_run. exact H. Qed.
Lemma R_settle nt T f s1 s2 : reachable nt T s1 -> settle f nt T s1 = SOk s2 -> reachable nt T s2.
Proof. intros Hr H. destruct (settle_run _ _ _ _ _ H) as [[sch Hrun] _]. eapply reachable_run; eassumption. Qed.
Lemma R_step nt T s a s' : reachable nt T s -> step nt T s a = Ok s' -> reachable nt T s'.
Proof. intros Hr H. eapply reachable_run with (sch := [a]); [exact Hr|]. cbn. rewrite H. reflexivity. Qed.

Lemma R_post nt T sg s2 s5 b : reachable nt T s2 -> post_signal nt T sg s2 = Some (s5, b) -> reachable nt T s5.
Proof.
  intros Hr. unfold post_signal. destruct sg; [|intros H; inversion H; subst; exact Hr].
  destruct (mn s2); try (intros H; inversion H; subst; exact Hr).
  destruct (src s2); try (intros H; inversion H; subst; exact Hr).
  destruct (step nt T s2 SrcReturnNil) as [s3| |] eqn:Es; try discriminate.
  destruct (settle fuel0 nt T s3) as [s4| |] eqn:E4; try discriminate.
  intros H; inversion H; subst. eapply R_settle; [|exact E4]. eapply R_step; eassumption.
Qed.

(* one scenario step keeps the model in a reachable state *)
Theorem play1_reachable nt T p i :
  reachable nt T (st p) -> reachable nt T (st (fst (fst (play1 nt T p i)))).
Proof.
  intros Hr. unfold play1.
  repeat match goal with
         | |- reachable _ _ (st (fst (fst (if ?b then _ else _)))) => destruct b eqn:?
         | |- reachable _ _ (st (fst (fst (match ?x with _ => _ end)))) => destruct x eqn:?
         | |- reachable _ _ (st (fst (fst (let _ := _ in _)))) => cbv zeta
         end; cbn [fst snd st]; try exact Hr;
  repeat match goal with
         | H : apply_all nt T (st p) _ = Some ?s1 |- _ =>
             lazymatch goal with
             | _ : reachable nt T s1 |- _ => fail
             | _ => pose proof (R_apply nt T (st p) _ s1 Hr H)
             end
         | R : reachable nt T ?s1, H : settle _ nt T ?s1 = SOk ?s2 |- _ =>
             lazymatch goal with
             | _ : reachable nt T s2 |- _ => fail
             | _ => pose proof (R_settle nt T _ s1 s2 R H)
             end
         | R : reachable nt T ?s1, H : step nt T ?s1 _ = Ok ?s2 |- _ =>
             lazymatch goal with
             | _ : reachable nt T s2 |- _ => fail
             | _ => pose proof (R_step nt T s1 _ s2 R H)
             end
         | R : reachable nt T ?s2, H : post_signal nt T _ ?s2 = Some (?s5, _) |- _ =>
             lazymatch goal with
             | _ : reachable nt T s5 |- _ => fail
             | _ => pose proof (R_post nt T _ s2 s5 _ R H)
             end
         | H : Some _ = Some _ |- _ => inversion H; subst; clear H
         | H : (_, _) = (_, _) |- _ => inversion H; subst; clear H
         end; try assumption; try discriminate.
Qed.

(* ... and leaves it quiescent whenever it moved *)
Theorem play_states_reachable nt T : forall l p,
  reachable nt T (st p) -> reachable nt T (st (fst (play nt T p l))).
Proof.
  induction l as [|i l IH]; intros p Hr; cbn; [exact Hr|].
  pose proof (play1_reachable nt T p i Hr) as H1.
  destruct (play1 nt T p i) as [[p1 c] sn]. cbn in H1.
  specialize (IH p1 H1). destruct (play nt T p1 l) as [p2 out]. exact IH.
Qed.

Theorem play_from_init_reachable nt T l :
  reachable nt T (st (fst (fst (play_from_init nt T l)))).
Proof.
  unfold play_from_init.
  destruct (settle fuel0 nt T (init nt)) as [s0| |] eqn:Es; try (exists []; reflexivity).
  destruct (settle_run _ _ _ _ _ Es) as [[sch Hrun] _].
  pose proof (play_states_reachable nt T l {| st := s0; next_id := 1000%Z; stopped := false; bad := false; sigp := false |}) as H.
  cbn in H. specialize (H (ex_intro _ sch Hrun)).
  destruct (play nt T _ l) as [p out]. exact H.
Qed.

(* the result of [settle] is quiescent: no internal action of the framework is enabled *)
Theorem settle_quiescent fuel nt T s s' :
  settle fuel nt T s = SOk s' -> forall a, In a (candidates nt s') -> step nt T s' a = NotEnabled.
Proof. intros H. exact (proj2 (settle_run fuel nt T s s' H)). Qed.

Print Assumptions play_from_init_reachable.
Print Assumptions settle_quiescent.
