(* E1 — flattening of configuration trees ([Settle.flatten]): induction principle for the nested
   inductive [cfg], unfolding equations of the nested fixes, list plumbing.
   Used by Proofs/FlattenProofs.v. *)
From Coq Require Import List ZArith Bool Arith Lia.
From FB Require Import Lib.Sexp Model.Exec Model.TraceSpec Model.ExecInv Model.Settle.
Import ListNotations.
Local Open Scope nat_scope.

(* ------------------------------------------------------------------ induction over cfg *)
Section CfgInd.
  Variable P : cfg -> Prop.
  Hypothesis H : forall id k w b dis d kids h, Forall P kids -> P (Cfg id k w b dis d kids h).
  Fixpoint cfg_ind' (c : cfg) : P c :=
    match c with
    | Cfg id k w b dis d kids h =>
        H id k w b dis d kids h
          ((fix go (l : list cfg) : Forall P l :=
              match l with
              | [] => Forall_nil P
              | x :: r => Forall_cons x (cfg_ind' x) (go r)
              end) kids)
    end.
End CfgInd.

Lemma Forall_all : forall (P : cfg -> Prop), (forall c, P c) -> forall l, Forall P l.
Proof. intros P H l. apply Forall_forall. intros; apply H. Qed.

(* ------------------------------------------------------------------ own list-recursive versions *)
Definition hn (h : option hcfg) : nat := match h with Some _ => 1 | None => 0 end.
Definition dis (c : cfg) : bool := match c with Cfg _ _ _ _ d _ _ _ => d end.
Definition cid (c : cfg) : Z := match c with Cfg id _ _ _ _ _ _ _ => id end.

Fixpoint sum_sizes (l : list cfg) : nat :=
  match l with [] => 0 | x :: r => size x + sum_sizes r end.

Definition hrow (x : hcfg) : ninfo :=
  {| nid := h_id x; nkind := h_kind x; nworkers := h_workers x; ncap := h_buf x;
     ndisc := h_disc x; nkids := []; nhandler := None; nrole := RHandler |}.
Definition hrows (h : option hcfg) : net := match h with Some x => [hrow x] | None => [] end.
Definition hidx (base : nat) (h : option hcfg) : option nat :=
  match h with Some _ => Some (base + 1) | None => None end.

(* [flat_list r] generalises both the inner fix of [flat] (r = RChild) and [flatten_from] (r = RRoot) *)
Fixpoint flat_list (r : role) (b : nat) (l : list cfg) : net :=
  match l with [] => [] | x :: rest => flat r b x ++ flat_list r (b + size x) rest end.

Lemma size_eq : forall id k w b d dc kids h,
  size (Cfg id k w b d dc kids h) = if d then 0 else 1 + hn h + sum_sizes kids.
Proof.
  intros. destruct d; reflexivity.
Qed.

Lemma flat_eq : forall r base id k w b d dc kids h,
  flat r base (Cfg id k w b d dc kids h) =
  if d then []
  else {| nid := id; nkind := k; nworkers := w; ncap := b; ndisc := dc;
          nkids := kid_indices (base + 1 + hn h) kids; nhandler := hidx base h; nrole := r |}
       :: hrows h ++ flat_list RChild (base + 1 + hn h) kids.
Proof.
  intros. destruct d; [reflexivity|]. simpl. unfold hn, hidx, hrows, hrow. f_equal. f_equal.
  generalize (base + 1 + match h with Some _ => 1 | None => 0 end).
  induction kids as [|a kids IH]; intros n; simpl; [reflexivity| now rewrite IH].
Qed.

Lemma flatten_from_eq : forall l b, flatten_from b l = flat_list RRoot b l.
Proof. induction l as [|a l IH]; intros; simpl; [reflexivity| now rewrite IH]. Qed.

Lemma sum_sizes_list_sum : forall l, sum_sizes l = list_sum (map size l).
Proof. induction l as [|a l IH]; simpl; [reflexivity| now rewrite IH]. Qed.

Lemma sum_sizes_app : forall a b, sum_sizes (a ++ b) = sum_sizes a + sum_sizes b.
Proof. induction a as [|x a IH]; intros; simpl; [reflexivity| rewrite IH; lia]. Qed.

(* disabled / enabled *)
Lemma size_dis : forall c, dis c = true -> size c = 0.
Proof. intros [id k w b d dc kids h] H. simpl in H. subst. apply size_eq. Qed.
Lemma size_en : forall c, dis c = false -> 1 <= size c.
Proof. intros [id k w b d dc kids h] H. simpl in H. subst. rewrite size_eq. lia. Qed.
Lemma flat_dis : forall r b c, dis c = true -> flat r b c = [].
Proof. intros r b [id k w b0 d dc kids h] H. simpl in H. subst. apply flat_eq. Qed.

Lemma kid_indices_cons : forall b c rest,
  kid_indices b (c :: rest) = if dis c then kid_indices b rest else b :: kid_indices (b + size c) rest.
Proof. intros b [id k w b0 d dc kids h] rest. reflexivity. Qed.

(* ------------------------------------------------------------------ list plumbing *)
Lemma nodup_nat_NoDup : forall l, nodup_nat l = true <-> NoDup l.
Proof.
  induction l as [|x l IH]; simpl.
  - split; [constructor| reflexivity].
  - rewrite andb_true_iff, negb_true_iff, IH. split.
    + intros [Hx Hl]. constructor; [|assumption]. intros Hin.
      assert (existsb (Nat.eqb x) l = true) as E.
      { apply existsb_exists. exists x. split; [assumption| apply Nat.eqb_refl]. }
      congruence.
    + intros Hn. inversion Hn as [|y l' Hx Hl]; subst. split; [|assumption].
      destruct (existsb (Nat.eqb x) l) eqn:E; [|reflexivity].
      apply existsb_exists in E. destruct E as [y [Hy E]]. apply Nat.eqb_eq in E. subst. contradiction.
Qed.

Lemma NoDup_app_iff : forall (A : Type) (a b : list A),
  NoDup (a ++ b) <-> NoDup a /\ NoDup b /\ (forall x, In x a -> In x b -> False).
Proof.
  induction a as [|x a IH]; intros b; simpl.
  - split; [intros H; repeat split; [constructor| assumption| tauto] | tauto].
  - split.
    + intros H. inversion H as [|y l Hx Hl]; subst. apply IH in Hl. destruct Hl as [Ha [Hb Hd]].
      rewrite in_app_iff in Hx. repeat split.
      * constructor; tauto.
      * assumption.
      * intros y [Hy|Hy] Hyb; [subst; tauto| eauto].
    + intros [Ha [Hb Hd]]. inversion Ha as [|y l Hx Hl]; subst. constructor.
      * rewrite in_app_iff. intros [Hi|Hi]; [tauto| eapply Hd; eauto].
      * apply IH. repeat split; [assumption| assumption| intros; eapply Hd; eauto].
Qed.

Lemma forallb_flat_map : forall (A B : Type) (p : B -> bool) (f : A -> list B) (l : list A),
  forallb (fun x => forallb p (f x)) l = forallb p (flat_map f l).
Proof. induction l as [|x l IH]; simpl; [reflexivity| now rewrite forallb_app, IH]. Qed.

Lemma roots_from_app : forall a b i,
  roots_from i (a ++ b) = roots_from i a ++ roots_from (i + length a) b.
Proof.
  induction a as [|x a IH]; intros b i; simpl.
  - now rewrite Nat.add_0_r.
  - rewrite IH. replace (S i + length a) with (i + S (length a)) by lia.
    destruct (nrole x); reflexivity.
Qed.

(* [info] of a table split into a prefix of known length and the rest *)
Lemma info_app_r : forall (pre rest : net) n j, length pre = n -> info (pre ++ rest) (n + j) = info rest j.
Proof.
  intros pre rest n j H. unfold info. rewrite app_nth2 by lia. f_equal. lia.
Qed.
Lemma info_app_r0 : forall (pre rest : net) n, length pre = n -> info (pre ++ rest) n = info rest 0.
Proof. intros pre rest n H. rewrite <- (info_app_r pre rest n 0 H). now rewrite Nat.add_0_r. Qed.
