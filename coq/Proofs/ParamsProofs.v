(* E8 — lemmas about Model/Params.v and the decision procedure of Judge/E8.v *)
From Coq Require Import List ZArith Bool Lia ZifyBool Permutation.
From FB Require Import Lib.Eqb Model.Literals Model.Atoi Model.Params Judge.E8 Proofs.AtoiProofs.
Import ListNotations.
Open Scope Z_scope.

(* ---------- association lists ---------- *)
Lemma lookup_cons {A} k k' (v : A) r :
  lookup k ((k', v) :: r) = if bytes_eqb k k' then Some v else lookup k r.
Proof. reflexivity. Qed.

Lemma lookup_set_eq {A} k (v : A) m : lookup k (set k v m) = Some v.
Proof.
  induction m as [|[k' v'] r IH]; cbn [set lookup].
  - now rewrite bytes_eqb_refl.
  - destruct (bytes_eqb k k') eqn:E; cbn [lookup]; rewrite ?bytes_eqb_refl, ?E; auto.
Qed.

Lemma lookup_set_neq {A} k k' (v : A) m : k <> k' -> lookup k (set k' v m) = lookup k m.
Proof.
  intros N. induction m as [|[k2 v2] r IH]; cbn [set lookup].
  - destruct (bytes_eqb_spec k k'); congruence.
  - destruct (bytes_eqb_spec k' k2) as [->|N2]; cbn [lookup].
    + destruct (bytes_eqb_spec k k2); congruence.
    + destruct (bytes_eqb_spec k k2); congruence.
Qed.

Lemma keys_nodup_cons {A} k (v : A) r :
  keys_nodup ((k, v) :: r) = negb (isSome (lookup k r)) && keys_nodup r.
Proof. reflexivity. Qed.

Lemma in_lookup {A} k (v : A) m : In (k, v) m -> isSome (lookup k m) = true.
Proof.
  induction m as [|[k' v'] r IH]; [contradiction|]. intros [H|H]; cbn [lookup].
  - inversion H; subst. now rewrite bytes_eqb_refl.
  - destruct (bytes_eqb k k'); [reflexivity|auto].
Qed.

Lemma in_lookup_nodup {A} k (v : A) m : keys_nodup m = true -> In (k, v) m -> lookup k m = Some v.
Proof.
  induction m as [|[k' v'] r IH]; [contradiction|]. rewrite keys_nodup_cons.
  intros ND [H|H]; apply andb_true_iff in ND as [N1 N2]; cbn [lookup].
  - inversion H; subst. now rewrite bytes_eqb_refl.
  - destruct (bytes_eqb_spec k k') as [->|]; [|auto].
    apply in_lookup in H. destruct (lookup k' r); discriminate.
Qed.

Lemma lookup_in {A} k (v : A) m : lookup k m = Some v -> In (k, v) m.
Proof.
  induction m as [|[k' v'] r IH]; [discriminate|]. cbn [lookup].
  destruct (bytes_eqb_spec k k') as [->|]; intros H; [inversion H; left; reflexivity|right; auto].
Qed.

(* ---------- prefixes ---------- *)
Lemma has_prefix_app p r : has_prefix p (p ++ r) = true.
Proof. induction p as [|x p IH]; cbn; [reflexivity|]. now rewrite Z.eqb_refl, IH. Qed.

Lemma has_prefix_split p s : has_prefix p s = true -> s = p ++ skipn (length p) s.
Proof.
  revert s; induction p as [|x p IH]; intros s; [reflexivity|].
  destruct s as [|y s]; cbn; [discriminate|]. intros H. apply andb_true_iff in H as [H1 H2].
  apply Z.eqb_eq in H1. subst. f_equal. auto.
Qed.

Lemma trim_prefix_app p r : trim_prefix p (p ++ r) = r.
Proof.
  unfold trim_prefix. rewrite has_prefix_app.
  induction p as [|x p IH]; cbn; auto.
Qed.

Lemma has_prefix_eq p s : has_prefix p s = true -> s = p ++ trim_prefix p s.
Proof. intros H. unfold trim_prefix. rewrite H. now apply has_prefix_split. Qed.

(* ---------- SetKey / ApplyLibrdkafkaConf ---------- *)
Definition nested (m : cmap) : list (bytes * sval) :=
  match lookup dtc m with Some (VMap s) => s | _ => [] end.
Definition dtc_ok (m : cmap) : Prop :=
  match lookup dtc m with Some (VS _) => False | _ => True end.

Lemma dtc_not_topic : has_prefix tp dtc = false.
Proof. reflexivity. Qed.

Lemma is_topic_key_app k' : is_topic_key (lp ++ k') = has_prefix tp k'.
Proof. unfold is_topic_key. now rewrite has_prefix_app, trim_prefix_app. Qed.

Lemma has_topic_cons k v r : has_topic ((k, v) :: r) = is_topic_key k || has_topic r.
Proof. reflexivity. Qed.

Lemma lookup_topic_has_topic k v (ps : pmap) :
  lookup k ps = Some v -> is_topic_key k = true -> has_topic ps = true.
Proof.
  intros H T. apply lookup_in in H. unfold has_topic. apply existsb_exists.
  exists (k, v). auto.
Qed.

Lemma no_topic_lookup x (ps : pmap) : has_topic ps = false -> lookup (lp ++ tp ++ x) ps = None.
Proof.
  intros H. destruct (lookup (lp ++ tp ++ x) ps) eqn:E; [|reflexivity].
  apply lookup_topic_has_topic in E; [congruence|].
  rewrite is_topic_key_app. apply has_prefix_app.
Qed.

Lemma set_key_topic k v m : has_prefix tp k = true -> dtc_ok m ->
  set_key k v m = Some (set dtc (VMap (set (trim_prefix tp k) v (nested m))) m).
Proof.
  intros H Ok. unfold set_key, nested. rewrite H. unfold dtc_ok in Ok.
  destruct (lookup dtc m) as [[?|?]|]; [contradiction| |]; reflexivity.
Qed.

Lemma set_key_plain k v m : has_prefix tp k = false -> set_key k v m = Some (set k (VS v) m).
Proof. intros H. unfold set_key. now rewrite H. Qed.

(* the characterisation of the overlay, by lookups only (hence independent of the iteration order) *)
Record overlay_char (ps : pmap) (m cm : cmap) : Prop := {
  (* verbatim, prefix removed once, wins over whatever was there *)
  oc_param : forall k v, has_prefix tp k = false -> lookup (lp ++ k) ps = Some v ->
                         lookup k cm = Some (VS (SStr v));
  (* every other top-level key is untouched (in particular nothing un-prefixed gets in) *)
  oc_other : forall k, k <> dtc -> has_prefix tp k = true \/ lookup (lp ++ k) ps = None ->
                       lookup k cm = lookup k m;
  oc_dtc_same : lookup (lp ++ dtc) ps = None -> has_topic ps = false -> lookup dtc cm = lookup dtc m;
  (* {topic}.x parameters go to the nested default.topic.config map, over its defaults *)
  oc_dtc_topic : has_topic ps = true ->
                 exists sub, lookup dtc cm = Some (VMap sub) /\
                   forall x, lookup x sub = match lookup (lp ++ tp ++ x) ps with
                                            | Some v => Some (SStr v)
                                            | None => lookup x (nested m)
                                            end
}.

Lemma apply_conf_char : forall (ps : pmap) (m : cmap),
  keys_nodup ps = true ->
  (has_topic ps = true -> dtc_ok m /\ lookup (lp ++ dtc) ps = None) ->
  exists cm, apply_conf ps m = Some cm /\ overlay_char ps m cm.
Proof.
  induction ps as [|[k0 v0] r IH]; intros m ND Pre.
  - exists m. split; [reflexivity|]. constructor; cbn; intros; try discriminate; auto.
  - rewrite keys_nodup_cons in ND. apply andb_true_iff in ND as [ND0 ND].
    assert (lookup k0 r = None) as Fresh by (destruct (lookup k0 r); [discriminate|reflexivity]). clear ND0.
    cbn [apply_conf]. destruct (has_prefix lp k0) eqn:HP.
    + (* a prefixed parameter *)
      pose proof (has_prefix_eq _ _ HP) as Ek. set (k0' := trim_prefix lp k0) in *.
      rewrite has_topic_cons in Pre. rewrite Ek, is_topic_key_app in Pre.
      destruct (has_prefix tp k0') eqn:HT.
      * (* redirected into default.topic.config *)
        destruct (Pre eq_refl) as [Ok Nd]. clear Pre.
        rewrite lookup_cons in Nd. destruct (bytes_eqb_spec (lp ++ dtc) (lp ++ k0')) as [|Nk]; [discriminate|].
        pose proof (has_prefix_eq _ _ HT) as Ex. set (x0 := trim_prefix tp k0') in *.
        set (m' := set dtc (VMap (set x0 (SStr v0) (nested m))) m).
        rewrite (set_key_topic _ _ _ HT Ok). fold x0. fold m'.
        destruct (IH m' ND) as (cm & Hcm & C).
        { intros _. split; [|assumption]. unfold dtc_ok, m'. now rewrite lookup_set_eq. }
        assert (nested m' = set x0 (SStr v0) (nested m)) as Nm' by (unfold nested at 1, m'; now rewrite lookup_set_eq).
        exists cm. split; [assumption|]. constructor.
        -- intros k v Tk Hk. rewrite Ek, lookup_cons in Hk.
           destruct (bytes_eqb_spec (lp ++ k) (lp ++ k0')) as [E|]; [apply app_inv_head in E; congruence|].
           now apply (oc_param _ _ _ C).
        -- intros k Nk' Hk. rewrite (oc_other _ _ _ C k Nk').
           ++ unfold m'. now apply lookup_set_neq.
           ++ destruct Hk as [Hk|Hk]; [left; assumption|right].
              rewrite Ek, lookup_cons in Hk. destruct (bytes_eqb (lp ++ k) (lp ++ k0')); [discriminate|assumption].
        -- intros _ H. rewrite has_topic_cons, Ek, is_topic_key_app, HT in H. discriminate.
        -- intros _. destruct (has_topic r) eqn:Tr.
           ++ destruct (oc_dtc_topic _ _ _ C Tr) as (sub & Hs & Hx). exists sub. split; [assumption|].
              intros x. rewrite Hx, Nm', Ek, Ex, lookup_cons.
              destruct (bytes_eqb_spec (lp ++ tp ++ x) (lp ++ tp ++ x0)) as [E|N].
              ** apply app_inv_head in E. apply app_inv_head in E. subst x.
                 rewrite Ek, Ex in Fresh. rewrite Fresh. apply lookup_set_eq.
              ** destruct (lookup (lp ++ tp ++ x) r); [reflexivity|].
                 apply lookup_set_neq. congruence.
           ++ exists (set x0 (SStr v0) (nested m)). split.
              ** rewrite (oc_dtc_same _ _ _ C Nd Tr). unfold m'. apply lookup_set_eq.
              ** intros x. rewrite Ek, Ex, lookup_cons.
                 destruct (bytes_eqb_spec (lp ++ tp ++ x) (lp ++ tp ++ x0)) as [E|N].
                 --- apply app_inv_head in E. apply app_inv_head in E. subst x. apply lookup_set_eq.
                 --- rewrite (no_topic_lookup x r Tr). apply lookup_set_neq. congruence.
      * (* an ordinary client property *)
        cbn [orb] in Pre. rewrite (set_key_plain _ _ _ HT). set (m' := set k0' (VS (SStr v0)) m).
        assert (has_topic r = true -> k0' <> dtc /\ dtc_ok m /\ lookup (lp ++ dtc) r = None) as Pre'.
        { intros T. destruct (Pre T) as [Ok Nd]. rewrite lookup_cons in Nd.
          destruct (bytes_eqb_spec (lp ++ dtc) (lp ++ k0')) as [|Nk]; [discriminate|].
          repeat split; auto. congruence. }
        destruct (IH m' ND) as (cm & Hcm & C).
        { intros T. destruct (Pre' T) as (Nk & Ok & Nd). split; [|assumption].
          unfold dtc_ok, m'. rewrite lookup_set_neq by congruence. exact Ok. }
        exists cm. split; [assumption|]. constructor.
        -- intros k v Tk Hk. rewrite Ek, lookup_cons in Hk.
           destruct (bytes_eqb_spec (lp ++ k) (lp ++ k0')) as [E|N].
           ++ apply app_inv_head in E. subst k. inversion Hk; subst v. rewrite Ek in Fresh.
              destruct (bytes_eqb_spec k0' dtc) as [Ed|Nd].
              ** destruct (has_topic r) eqn:Tr; [destruct (Pre' eq_refl); congruence|].
                 rewrite Ed in *. rewrite (oc_dtc_same _ _ _ C Fresh Tr). unfold m'. rewrite Ed. apply lookup_set_eq.
              ** rewrite (oc_other _ _ _ C k0' Nd (or_intror Fresh)). apply lookup_set_eq.
           ++ now apply (oc_param _ _ _ C).
        -- intros k Nk Hk. rewrite (oc_other _ _ _ C k Nk).
           ++ unfold m'. apply lookup_set_neq. destruct Hk as [Hk|Hk]; [congruence|].
              rewrite Ek, lookup_cons in Hk. destruct (bytes_eqb_spec (lp ++ k) (lp ++ k0')); [discriminate|congruence].
           ++ destruct Hk as [Hk|Hk]; [left; assumption|right].
              rewrite Ek, lookup_cons in Hk. destruct (bytes_eqb (lp ++ k) (lp ++ k0')); [discriminate|assumption].
        -- intros Nd T. rewrite has_topic_cons, Ek, is_topic_key_app, HT in T. cbn [orb] in T.
           rewrite Ek, lookup_cons in Nd.
           destruct (bytes_eqb_spec (lp ++ dtc) (lp ++ k0')) as [|Nk]; [discriminate|].
           rewrite (oc_dtc_same _ _ _ C Nd T). unfold m'. apply lookup_set_neq. congruence.
        -- intros T. rewrite has_topic_cons, Ek, is_topic_key_app, HT in T. cbn [orb] in T.
           destruct (Pre' T) as (Nk & Ok & Nd).
           destruct (oc_dtc_topic _ _ _ C T) as (sub & Hs & Hx). exists sub. split; [assumption|].
           intros x. rewrite Hx, Ek, lookup_cons.
           destruct (bytes_eqb_spec (lp ++ tp ++ x) (lp ++ k0')) as [E|N].
           ++ apply app_inv_head in E. rewrite <- E in HT. rewrite has_prefix_app in HT. discriminate.
           ++ destruct (lookup (lp ++ tp ++ x) r); [reflexivity|].
              unfold nested, m'. now rewrite lookup_set_neq by congruence.
    + (* not prefixed: ignored *)
      assert (forall k, lookup (lp ++ k) ((k0, v0) :: r) = lookup (lp ++ k) r) as Lk.
      { intros k. rewrite lookup_cons. destruct (bytes_eqb_spec (lp ++ k) k0) as [<-|]; [|reflexivity].
        rewrite has_prefix_app in HP. discriminate. }
      assert (has_topic ((k0, v0) :: r) = has_topic r) as Tk.
      { rewrite has_topic_cons. unfold is_topic_key. now rewrite HP. }
      destruct (IH m ND) as (cm & Hcm & C).
      { intros T. rewrite Tk, Lk in Pre. auto. }
      exists cm. split; [assumption|]. constructor.
      * intros k v T. rewrite Lk. now apply (oc_param _ _ _ C).
      * intros k N. rewrite Lk. now apply (oc_other _ _ _ C).
      * rewrite Lk, Tk. apply (oc_dtc_same _ _ _ C).
      * rewrite Tk. intros T. destruct (oc_dtc_topic _ _ _ C T) as (sub & Hs & Hx).
        exists sub. split; [assumption|]. intros x. rewrite Hx. now rewrite (Lk (tp ++ x)).
Qed.

(* ---------- the four default tables ---------- *)
Definition only_dtc_nested (d : cmap) : bool :=
  forallb (fun kc => match snd kc with VMap _ => bytes_eqb (fst kc) dtc | VS _ => true end) d.

Record wf_defaults (d : cmap) : Prop := {
  wd_nodup : keys_nodup d = true;
  wd_dtc : dtc_ok d;
  wd_nested_nodup : keys_nodup (nested d) = true;
  wd_only : only_dtc_nested d = true
}.

Lemma wf_only d k sub : wf_defaults d -> lookup k d = Some (VMap sub) -> k = dtc.
Proof.
  intros W H. apply lookup_in in H. pose proof (wd_only _ W) as O. unfold only_dtc_nested in O.
  rewrite forallb_forall in O. specialize (O _ H). cbn in O. now apply bytes_eqb_eq.
Qed.

Lemma defaults_wf w p d : defaults_of w p = Some d -> wf_defaults d.
Proof.
  unfold defaults_of. destruct (w =? 0); [|destruct (w =? 1); [|destruct (w =? 2)]].
  - destruct (atoi _); [|discriminate]. intros H; inversion H; subst. constructor; vm_compute; auto.
  - destruct (atoi _); [|discriminate]. intros H; inversion H; subst. constructor; vm_compute; auto.
  - intros H; inversion H; subst. constructor; vm_compute; auto.
  - destruct (is_empty _); [discriminate|]. intros H; inversion H; subst. constructor; vm_compute; auto.
Qed.

Lemma conflict_pre p d : conflict p = false -> wf_defaults d ->
  has_topic p = true -> dtc_ok d /\ lookup (lp ++ dtc) p = None.
Proof.
  unfold conflict. intros C W T. rewrite T, andb_true_r in C. split; [apply (wd_dtc _ W)|].
  destruct (lookup (lp ++ dtc) p); [discriminate|reflexivity].
Qed.

Lemma build_char w p d :
  keys_nodup p = true -> conflict p = false -> defaults_of w p = Some d ->
  exists cm, build_config_map w p = BOk cm /\ overlay_char p d cm.
Proof.
  intros ND C D. pose proof (defaults_wf _ _ _ D) as W.
  destruct (apply_conf_char p d ND (conflict_pre p d C W)) as (cm & H & Ch).
  exists cm. split; [|assumption]. unfold build_config_map. now rewrite D, H.
Qed.

Lemma build_err w p : defaults_of w p = None -> build_config_map w p = BErr.
Proof. intros D. unfold build_config_map. now rewrite D. Qed.

(* ---------- soundness of clauses 1 and 2 for any map with the overlay characterisation ---------- *)
Lemma sval_eqb_refl s : sval_eqb s s = true.
Proof. destruct s; cbn; [apply bytes_eqb_refl|apply Z.eqb_refl|apply eqb_reflx]. Qed.

Lemma clause1_sound p d cm :
  keys_nodup p = true -> conflict p = false -> wf_defaults d -> overlay_char p d cm ->
  clause1 p d cm = true.
Proof.
  intros ND C W Ch. unfold clause1. apply andb_true_iff. split; apply forallb_forall.
  - intros [k v] Hin. unfold c1_param. pose proof (in_lookup_nodup _ _ _ ND Hin) as L.
    destruct (has_prefix lp k) eqn:HP; [|reflexivity].
    pose proof (has_prefix_eq _ _ HP) as Ek. set (k' := trim_prefix lp k) in *. rewrite Ek in L.
    destruct (has_prefix tp k') eqn:HT.
    + pose proof (has_prefix_eq _ _ HT) as Ex. set (x := trim_prefix tp k') in *. rewrite Ex in L.
      assert (has_topic p = true) as T.
      { apply (lookup_topic_has_topic _ _ _ L). rewrite is_topic_key_app. apply has_prefix_app. }
      destruct (oc_dtc_topic _ _ _ Ch T) as (sub & Hs & Hx). rewrite Hs, Hx, L. cbn. apply bytes_eqb_refl.
    + rewrite (oc_param _ _ _ Ch k' v HT L). cbn. apply bytes_eqb_refl.
  - intros [k dv] Hin. unfold c1_default. pose proof (in_lookup_nodup _ _ _ (wd_nodup _ W) Hin) as L.
    destruct (lookup (lp ++ k) p) eqn:Lp; [reflexivity|]. cbn [isSome].
    destruct dv as [s|dsub].
    + assert (k <> dtc) as Nk.
      { intros ->. pose proof (wd_dtc _ W) as O. unfold dtc_ok in O. now rewrite L in O. }
      rewrite (oc_other _ _ _ Ch k Nk (or_intror Lp)), L. cbn. apply sval_eqb_refl.
    + pose proof (wf_only _ _ _ W L). subst k.
      assert (nested d = dsub) as Nd by (unfold nested; now rewrite L).
      assert (forall x dx, In (x, dx) dsub -> lookup x dsub = Some dx) as Ld.
      { intros x dx Hx. apply in_lookup_nodup; [|assumption]. rewrite <- Nd. apply (wd_nested_nodup _ W). }
      destruct (has_topic p) eqn:T.
      * destruct (oc_dtc_topic _ _ _ Ch T) as (sub & Hs & Hx). rewrite Hs. apply forallb_forall.
        intros [x dx] Hxin. cbn [fst snd]. rewrite Hx, Nd.
        destruct (lookup (lp ++ tp ++ x) p); [reflexivity|]. cbn [isSome orb].
        rewrite (Ld _ _ Hxin). cbn. apply sval_eqb_refl.
      * rewrite (oc_dtc_same _ _ _ Ch Lp T), L. apply forallb_forall.
        intros [x dx] Hxin. cbn [fst snd]. rewrite (Ld _ _ Hxin). cbn. rewrite sval_eqb_refl. apply orb_true_r.
Qed.

Lemma clause2_sound p d cm :
  conflict p = false -> wf_defaults d -> overlay_char p d cm ->
  clause2 p d cm = true.
Proof.
  intros C W Ch. unfold clause2. apply forallb_forall. intros [k cv0] Hin. unfold c2_entry. cbn [fst].
  apply in_lookup in Hin. destruct (lookup k cm) as [cv|] eqn:L; [clear Hin|discriminate].
  destruct (bytes_eqb_spec k dtc) as [->|Nk].
  - (* default.topic.config *)
    cbn [andb]. destruct (lookup (lp ++ dtc) p) as [v|] eqn:Lp.
    + rewrite (oc_param _ _ _ Ch dtc v dtc_not_topic Lp) in L. inversion L; subst.
      cbn. now rewrite orb_true_r.
    + destruct (has_topic p) eqn:T.
      * rewrite !orb_true_r. cbn [andb].
        destruct (oc_dtc_topic _ _ _ Ch T) as (sub & Hs & Hx). rewrite Hs in L. inversion L; subst.
        apply forallb_forall. intros [x sv] Hxin. cbn [fst]. apply in_lookup in Hxin. rewrite Hx in Hxin.
        destruct (lookup (lp ++ tp ++ x) p); [reflexivity|]. cbn [isSome orb].
        unfold nested_default. unfold nested in Hxin. destruct (lookup dtc d) as [[?|?]|]; auto.
      * rewrite (oc_dtc_same _ _ _ Ch Lp T) in L. rewrite L. cbn [isSome orb andb].
        destruct cv as [s|sub]; [reflexivity|].
        apply forallb_forall. intros [x sv] Hxin. cbn [fst]. apply in_lookup in Hxin.
        unfold nested_default. rewrite L. rewrite Hxin. apply orb_true_r.
  - cbn [andb]. rewrite orb_false_r.
    destruct (lookup (lp ++ k) p) as [v|] eqn:Lp.
    + rewrite orb_true_r. cbn [andb].
      destruct (has_prefix tp k) eqn:HT.
      * rewrite (oc_other _ _ _ Ch k Nk (or_introl HT)) in L.
        destruct cv as [s|sub]; [reflexivity|]. exfalso. apply Nk. apply (wf_only _ _ _ W L).
      * rewrite (oc_param _ _ _ Ch k v HT Lp) in L. inversion L; subst. reflexivity.
    + rewrite (oc_other _ _ _ Ch k Nk (or_intror Lp)) in L. rewrite L. cbn [isSome orb andb].
      destruct cv as [s|sub]; [reflexivity|]. exfalso. apply Nk. apply (wf_only _ _ _ W L).
Qed.

(* ---------- checkConfig ---------- *)
Lemma is_empty_nil s : is_empty s = true <-> s = [].
Proof. destruct s; cbn; split; congruence. Qed.

Lemma pget_set_eq k v m : pget k (set k v m) = v.
Proof. unfold pget. now rewrite lookup_set_eq. Qed.
Lemma pget_set_neq k k' v m : k <> k' -> pget k (set k' v m) = pget k m.
Proof. intros N. unfold pget. now rewrite lookup_set_neq. Qed.

Lemma itoa_max : itoa max_int64 = [57; 50; 50; 51; 51; 55; 50; 48; 51; 54; 56; 53; 52; 55; 55; 53; 56; 48; 55].
Proof. vm_compute. reflexivity. Qed.   (* "9223372036854775807" *)

Lemma check_config_fst p : fst (check_config p) = expected_accept p.
Proof.
  unfold check_config, expected_accept.
  destruct (is_empty (pget k_brokers p)); [reflexivity|].
  destruct (is_empty (pget k_group p)); [reflexivity|].
  destruct (is_empty (pget k_topic p)); [reflexivity|].
  cbn [negb andb].
  destruct (is_empty (pget k_bufsize p)) eqn:EB.
  { apply is_empty_nil in EB. rewrite EB. reflexivity. }
  destruct (atoi (pget k_bufsize p)) as [b|]; [|reflexivity].
  destruct (b <? 1) eqn:Eb.
  { replace (1 <=? b) with false by lia. reflexivity. }
  replace (1 <=? b) with true by lia. cbn [andb]. cbv zeta.
  destruct (is_empty (pget k_maxlag p)) eqn:EM.
  - rewrite pget_set_eq, pget_set_neq by discriminate.
    replace (atoi (itoa max_int64)) with (Some max_int64) by (vm_compute; reflexivity).
    replace (max_int64 <? 0) with false by reflexivity. cbn [orb andb].
    destruct (is_empty (pget k_par p)); cbn [negb orb]; [reflexivity|].
    destruct (parse_bool _); reflexivity.
  - cbn [orb]. destruct (atoi (pget k_maxlag p)) as [l|]; [|reflexivity].
    destruct (l <? 0) eqn:El.
    { replace (0 <=? l) with false by lia. reflexivity. }
    replace (0 <=? l) with true by lia. cbn [andb].
    destruct (is_empty (pget k_par p)); cbn [negb orb]; [reflexivity|].
    destruct (parse_bool _); reflexivity.
Qed.

(* the only mutation: an empty/absent maxpartitionlag is set to MaxInt64 once the earlier checks passed *)
Definition maxlag_defaulted (p : pmap) : bool :=
  negb (is_empty (pget k_brokers p)) && negb (is_empty (pget k_group p)) && negb (is_empty (pget k_topic p))
  && match atoi (pget k_bufsize p) with Some b => 1 <=? b | None => false end
  && is_empty (pget k_maxlag p).

Lemma check_config_snd p :
  snd (check_config p) = if maxlag_defaulted p then set k_maxlag (itoa max_int64) p else p.
Proof.
  unfold check_config, maxlag_defaulted.
  destruct (is_empty (pget k_brokers p)); [reflexivity|].
  destruct (is_empty (pget k_group p)); [reflexivity|].
  destruct (is_empty (pget k_topic p)); [reflexivity|].
  cbn [negb andb].
  destruct (is_empty (pget k_bufsize p)) eqn:EB.
  { apply is_empty_nil in EB. rewrite EB. reflexivity. }
  destruct (atoi (pget k_bufsize p)) as [b|]; [|reflexivity].
  destruct (b <? 1) eqn:Eb.
  { replace (1 <=? b) with false by lia. reflexivity. }
  replace (1 <=? b) with true by lia. cbn [andb]. cbv zeta.
  destruct (is_empty (pget k_maxlag p)) eqn:EM.
  - destruct (atoi _); [|reflexivity]. destruct (_ <? 0); [reflexivity|].
    destruct (negb _); [|reflexivity]. destruct (parse_bool _); reflexivity.
  - destruct (atoi _); [|reflexivity]. destruct (_ <? 0); [reflexivity|].
    destruct (negb _); [|reflexivity]. destruct (parse_bool _); reflexivity.
Qed.

(* ---------- getters ---------- *)
Lemma with_default_lookup req name txt p :
  lookup name (with_default req name txt p)
  = match lookup name p with Some t => Some t | None => if req then None else Some txt end.
Proof.
  unfold with_default. destruct req; destruct (lookup name p) eqn:L; rewrite ?L; auto. apply lookup_set_eq.
Qed.

Lemma int_getter_snd req p name d mn mx :
  snd (int_getter req p name d mn mx) = with_default req name (itoa d) p.
Proof.
  unfold int_getter. cbv zeta. destruct (lookup _ _); [|reflexivity].
  destruct (atoi _); [|reflexivity]. destruct (_ || _); reflexivity.
Qed.

Lemma bounds_flip v mn mx : (if (v >? mx) || (v <? mn) then None else Some v) = if (mn <=? v) && (v <=? mx) then Some v else None.
Proof. destruct ((v >? mx) || (v <? mn)) eqn:A, ((mn <=? v) && (v <=? mx)) eqn:B; try reflexivity; lia. Qed.

Lemma int_getter_fst req p name d mn mx : int64 d ->
  fst (int_getter req p name d mn mx) = expected_int req p name d mn mx.
Proof.
  intros Hd. unfold int_getter, expected_int. cbv zeta. rewrite with_default_lookup.
  destruct (lookup name p) as [t|].
  - destruct (atoi t) as [v|]; [|reflexivity]. rewrite <- bounds_flip. destruct (_ || _); reflexivity.
  - destruct req; [reflexivity|]. rewrite (atoi_itoa d Hd). rewrite <- bounds_flip. destruct (_ || _); reflexivity.
Qed.

Lemma string_getter_fst req p name d : fst (string_getter req p name d) = expected_str req p name d.
Proof. unfold string_getter, expected_str. cbn [fst]. apply with_default_lookup. Qed.

Lemma string_getter_snd req p name d : snd (string_getter req p name d) = with_default req name d p.
Proof. reflexivity. Qed.

Lemma fv_eqb_eq a b : fv_eqb a b = true <-> a = b.
Proof. destruct a, b; cbn; split; try congruence; [intros H; f_equal; lia|intros H; inversion H; lia]. Qed.

Lemma float_roundtrip_spec req p name d dtxt parse :
  float_roundtrip req p name d dtxt parse = true ->
  req = true \/ lookup name p <> None \/ lookup dtxt parse = Some (Some d).
Proof.
  unfold float_roundtrip. intros H. apply orb_true_iff in H as [H|H]; [apply orb_true_iff in H as [H|H]|].
  - now left.
  - right; left. destruct (lookup name p); [discriminate|discriminate].
  - right; right. destruct (lookup dtxt parse) as [[v|]|]; cbn in H; try discriminate.
    apply fv_eqb_eq in H. now subst.
Qed.

Lemma float_getter_fst req p name d dtxt parse mn mx :
  float_roundtrip req p name d dtxt parse = true ->
  fst (float_getter req p name dtxt parse mn mx) = expected_float req p name d parse mn mx.
Proof.
  intros R. apply float_roundtrip_spec in R.
  unfold float_getter, expected_float. cbv zeta. rewrite with_default_lookup.
  destruct (lookup name p) as [t|].
  - destruct (lookup t parse) as [[v|]|]; try reflexivity. destruct (fle mn v && fle v mx); reflexivity.
  - destruct req; [reflexivity|]. destruct R as [R|[R|R]]; [discriminate|congruence|].
    rewrite R. destruct (fle mn d && fle d mx); reflexivity.
Qed.

Lemma float_getter_snd req p name dtxt parse mn mx :
  snd (float_getter req p name dtxt parse mn mx) = with_default req name dtxt p.
Proof.
  unfold float_getter. cbv zeta. destruct (lookup _ _); [|reflexivity].
  destruct (lookup _ parse) as [[v|]|]; try reflexivity. destruct (negb _); reflexivity.
Qed.

(* ---------- the decision procedure accepts the model on every well-formed input ---------- *)
Lemma opt_Z_eqb_refl (o : option Z) : opt_eqb Z.eqb o o = true.
Proof. apply opt_eqb_refl. apply Z.eqb_refl. Qed.

Lemma spec_c20_sound i : well_formed i = true -> spec_c20 i (model_obs i) = [].
Proof.
  intros WF. destruct i as [w p|p|req p name d mn mx|req p name d|req p name d dtxt parse mn mx]; cbn [spec_c20 model_obs].
  - destruct (defaults_of w p) as [dflt|] eqn:D; [|reflexivity].
    destruct (conflict p) eqn:C; [reflexivity|].
    assert (keys_nodup p = true) as ND.
    { unfold well_formed in WF. cbn [params_of] in WF.
      apply andb_true_iff in WF as [WF _]. apply andb_true_iff in WF as [WF _]. apply andb_true_iff in WF as [WF _]. exact WF. }
    destruct (build_char w p dflt ND C D) as (cm & B & Ch). rewrite B.
    pose proof (defaults_wf _ _ _ D) as W.
    now rewrite (clause1_sound p dflt cm ND C W Ch), (clause2_sound p dflt cm C W Ch).
  - pose proof (check_config_fst p) as F. destruct (check_config p) as [ok m]. cbn [fst] in F. subst ok.
    now rewrite eqb_reflx.
  - destruct (int64b d) eqn:I; [|reflexivity].
    assert (int64 d) as Hd by (unfold int64b in I; unfold int64; lia).
    pose proof (int_getter_fst req p name d mn mx Hd) as F.
    destruct (int_getter req p name d mn mx) as [r m]. cbn [fst] in F. subst r. now rewrite opt_Z_eqb_refl.
  - pose proof (string_getter_fst req p name d) as F.
    destruct (string_getter req p name d) as [r m]. cbn [fst] in F. subst r.
    rewrite (opt_eqb_refl bytes_eqb bytes_eqb_refl). reflexivity.
  - destruct (float_roundtrip req p name d dtxt parse) eqn:R; [|reflexivity].
    pose proof (float_getter_fst req p name d dtxt parse mn mx R) as F.
    destruct (float_getter req p name dtxt parse mn mx) as [r m]. cbn [fst] in F. subst r.
    rewrite (opt_eqb_refl fv_eqb); [reflexivity|]. intros x. now apply fv_eqb_eq.
Qed.

(* ---------- statements in the form Props/C20.v exposes ---------- *)
Definition overlay_statement (p : pmap) (d cm : cmap) : Prop :=
  (forall k v, has_prefix tp k = false -> lookup (lp ++ k) p = Some v -> lookup k cm = Some (VS (SStr v)))
  /\ (forall k, k <> dtc -> has_prefix tp k = true \/ lookup (lp ++ k) p = None -> lookup k cm = lookup k d)
  /\ (lookup (lp ++ dtc) p = None -> has_topic p = false -> lookup dtc cm = lookup dtc d)
  /\ (has_topic p = true ->
      exists sub, lookup dtc cm = Some (VMap sub) /\
        forall x, lookup x sub = match lookup (lp ++ tp ++ x) p with
                                 | Some v => Some (SStr v)
                                 | None => lookup x (nested d)
                                 end).

Lemma overlay_char_statement p d cm : overlay_char p d cm <-> overlay_statement p d cm.
Proof.
  split.
  - intros [A B C D]. repeat split; assumption.
  - intros (A & B & C & D). constructor; assumption.
Qed.

Lemma build_overlay w p d :
  keys_nodup p = true -> conflict p = false -> defaults_of w p = Some d ->
  exists cm, build_config_map w p = BOk cm /\ overlay_statement p d cm.
Proof.
  intros ND C D. destruct (build_char w p d ND C D) as (cm & B & Ch).
  exists cm. split; [assumption|]. now apply overlay_char_statement.
Qed.

(* DESIGN.md's form, for parameters whose stripped name does not start with {topic}. and is not default.topic.config *)
Lemma build_overlay_plain w p d cm k :
  keys_nodup p = true -> conflict p = false -> defaults_of w p = Some d -> build_config_map w p = BOk cm ->
  has_prefix tp k = false -> k <> dtc ->
  lookup k cm = match lookup (lp ++ k) p with Some v => Some (VS (SStr v)) | None => lookup k d end.
Proof.
  intros ND C D B T Nk. destruct (build_char w p d ND C D) as (cm' & B' & Ch).
  rewrite B in B'. inversion B'; subst cm'.
  destruct (lookup (lp ++ k) p) as [v|] eqn:L.
  - apply (oc_param _ _ _ Ch k v T L).
  - apply (oc_other _ _ _ Ch k Nk (or_intror L)).
Qed.

Lemma build_no_leak w p d cm k cv :
  keys_nodup p = true -> conflict p = false -> defaults_of w p = Some d -> build_config_map w p = BOk cm ->
  lookup k cm = Some cv ->
  lookup k d <> None \/ lookup (lp ++ k) p <> None \/ (k = dtc /\ has_topic p = true).
Proof.
  intros ND C D B L. destruct (build_char w p d ND C D) as (cm' & B' & Ch).
  rewrite B in B'. inversion B'; subst cm'.
  destruct (lookup (lp ++ k) p) as [v|] eqn:Lp; [right; left; discriminate|].
  destruct (bytes_eqb_spec k dtc) as [->|Nk].
  - destruct (has_topic p) eqn:T; [right; right; auto|].
    left. rewrite <- (oc_dtc_same _ _ _ Ch Lp T). congruence.
  - left. rewrite <- (oc_other _ _ _ Ch k Nk (or_intror Lp)). congruence.
Qed.

(* an un-prefixed parameter name is never a key of the result unless it is (also) a default key / a stripped name *)
Lemma defaults_none_iff w p :
  defaults_of w p = None <->
  ((w = 0 \/ w = 1) /\ atoi (pget s_buffersize p) = None)
  \/ (w <> 0 /\ w <> 1 /\ w <> 2 /\ pget s_brokers p = []).
Proof.
  unfold defaults_of.
  destruct (w =? 0) eqn:E0; [|destruct (w =? 1) eqn:E1; [|destruct (w =? 2) eqn:E2]].
  - destruct (atoi _) eqn:A; split.
    + discriminate.
    + intros [[_ H]|H]; [discriminate|lia].
    + intros _. left. split; [lia|reflexivity].
    + reflexivity.
  - destruct (atoi _) eqn:A; split.
    + discriminate.
    + intros [[_ H]|H]; [discriminate|lia].
    + intros _. left. split; [lia|reflexivity].
    + reflexivity.
  - split; [discriminate|]. intros [[H _]|H]; lia.
  - destruct (is_empty _) eqn:E; split.
    + intros _. right. apply is_empty_nil in E. repeat split; auto; lia.
    + reflexivity.
    + discriminate.
    + intros [[H _]|(_ & _ & _ & H)]; [lia|]. apply is_empty_nil in H. congruence.
Qed.

Lemma isSome_true {A} (o : option A) : isSome o = true <-> o <> None.
Proof. destruct o; cbn; split; congruence. Qed.

Lemma check_config_iff p :
  fst (check_config p) = true <->
  pget k_brokers p <> [] /\ pget k_group p <> [] /\ pget k_topic p <> []
  /\ (exists b, atoi (pget k_bufsize p) = Some b /\ 1 <= b)
  /\ (pget k_maxlag p = [] \/ exists l, atoi (pget k_maxlag p) = Some l /\ 0 <= l)
  /\ (pget k_par p = [] \/ parse_bool (pget k_par p) <> None).
Proof.
  rewrite check_config_fst. unfold expected_accept.
  rewrite !andb_true_iff, !orb_true_iff, !negb_true_iff, !is_empty_nil, isSome_true.
  assert (forall s, is_empty s = false <-> s <> []) as NE by (intros [|? ?]; cbn; split; congruence).
  rewrite !NE.
  assert (forall s lo, match atoi s with Some b => lo <=? b | None => false end = true
                       <-> exists b, atoi s = Some b /\ lo <= b) as AT.
  { intros s lo. destruct (atoi s) as [b|]; split.
    - intros H. exists b. split; [reflexivity|lia].
    - intros (b' & E & H). inversion E; subst. lia.
    - discriminate.
    - intros (b' & E & _). discriminate. }
  rewrite !AT. tauto.
Qed.

Lemma expected_int_some req p name d mn mx v :
  expected_int req p name d mn mx = Some v <->
  (exists t, lookup name p = Some t /\ atoi t = Some v /\ mn <= v <= mx)
  \/ (lookup name p = None /\ req = false /\ v = d /\ mn <= d <= mx).
Proof.
  unfold expected_int. destruct (lookup name p) as [t|] eqn:L.
  - destruct (atoi t) as [v'|] eqn:A.
    + destruct ((mn <=? v') && (v' <=? mx)) eqn:B; split.
      * intros H; inversion H; subst. left. exists t. repeat split; auto; lia.
      * intros [(t' & E & A' & Hb)|(E & _)]; [|discriminate]. inversion E; subst. congruence.
      * discriminate.
      * intros [(t' & E & A' & Hb)|(E & _)]; [|discriminate]. inversion E; subst.
        rewrite A in A'. inversion A'; subst. lia.
    + split; [discriminate|]. intros [(t' & E & A' & _)|(E & _)]; [|discriminate].
      inversion E; subst. congruence.
  - destruct req.
    + split; [discriminate|]. intros [(t' & E & _)|(_ & E & _)]; discriminate.
    + destruct ((mn <=? d) && (d <=? mx)) eqn:B; split.
      * intros H; inversion H; subst. right. repeat split; auto; lia.
      * intros [(t' & E & _)|(_ & _ & -> & _)]; [discriminate|reflexivity].
      * discriminate.
      * intros [(t' & E & _)|(_ & _ & -> & Hb)]; [discriminate|lia].
Qed.

Lemma int_getter_eq req p name d mn mx : int64 d ->
  int_getter req p name d mn mx = (expected_int req p name d mn mx, with_default req name (itoa d) p).
Proof.
  intros H. rewrite <- (int_getter_fst req p name d mn mx H), <- (int_getter_snd req p name d mn mx).
  now destruct (int_getter req p name d mn mx).
Qed.

Lemma string_getter_eq req p name d :
  string_getter req p name d = (expected_str req p name d, with_default req name d p).
Proof. unfold string_getter, expected_str. now rewrite with_default_lookup. Qed.

Lemma float_getter_eq req p name d dtxt parse mn mx :
  float_roundtrip req p name d dtxt parse = true ->
  float_getter req p name dtxt parse mn mx = (expected_float req p name d parse mn mx, with_default req name dtxt p).
Proof.
  intros H. rewrite <- (float_getter_fst req p name d dtxt parse mn mx H), <- (float_getter_snd req p name dtxt parse mn mx).
  now destruct (float_getter req p name dtxt parse mn mx).
Qed.

(* the float bounds test: only ordered numbers pass; NaN in any position rejects *)
Lemma float_bounds mn v mx :
  fle mn v && fle v mx = true <-> exists a b c, mn = FNum a /\ v = FNum b /\ mx = FNum c /\ a <= b <= c.
Proof.
  split.
  - intros H. apply andb_true_iff in H as [H1 H2].
    destruct mn as [|a]; [cbn in H1; discriminate|]. destruct v as [|b]; [cbn in H1; discriminate|].
    destruct mx as [|c]; [cbn in H2; discriminate|]. cbn in H1, H2.
    exists a, b, c. repeat split; auto; lia.
  - intros (a & b & c & -> & -> & -> & H). cbn. lia.
Qed.

Lemma expected_float_some req p name d parse mn mx v :
  expected_float req p name d parse mn mx = Some v <->
  (exists t, lookup name p = Some t /\ lookup t parse = Some (Some v) /\ fle mn v && fle v mx = true)
  \/ (lookup name p = None /\ req = false /\ v = d /\ fle mn d && fle d mx = true).
Proof.
  unfold expected_float. destruct (lookup name p) as [t|] eqn:L.
  - destruct (lookup t parse) as [[v'|]|] eqn:A.
    + destruct (fle mn v' && fle v' mx) eqn:B; split.
      * intros H; inversion H; subst. left. exists t. auto.
      * intros [(t' & E & A' & Hb)|(E & _)]; [|discriminate]. inversion E; subst. congruence.
      * discriminate.
      * intros [(t' & E & A' & Hb)|(E & _)]; [|discriminate]. inversion E; subst.
        rewrite A in A'. inversion A'; subst. congruence.
    + split; [discriminate|]. intros [(t' & E & A' & _)|(E & _)]; [|discriminate]. inversion E; subst. congruence.
    + split; [discriminate|]. intros [(t' & E & A' & _)|(E & _)]; [|discriminate]. inversion E; subst. congruence.
  - destruct req.
    + split; [discriminate|]. intros [(t' & E & _)|(_ & E & _)]; discriminate.
    + destruct (fle mn d && fle d mx) eqn:B; split.
      * intros H; inversion H; subst. right. auto.
      * intros [(t' & E & _)|(_ & _ & -> & _)]; [discriminate|reflexivity].
      * discriminate.
      * intros [(t' & E & _)|(_ & _ & -> & Hb)]; [discriminate|congruence].
Qed.

(* ---------- Go's map iteration order is irrelevant ---------- *)
Lemma lookup_some_in_keys {A} k (m : list (bytes * A)) : isSome (lookup k m) = true <-> In k (map fst m).
Proof.
  induction m as [|[k' v] r IH]; cbn [lookup map fst In]; [split; [discriminate|contradiction]|].
  destruct (bytes_eqb_spec k k') as [->|N]; [cbn; tauto|]. rewrite IH. split; [auto|intros [E|H]; congruence].
Qed.

Lemma keys_nodup_NoDup {A} (m : list (bytes * A)) : keys_nodup m = true <-> NoDup (map fst m).
Proof.
  induction m as [|[k v] r IH]; [cbn; split; [constructor|reflexivity]|].
  rewrite keys_nodup_cons, andb_true_iff, negb_true_iff, IH. cbn [map fst]. split.
  - intros [H1 H2]. constructor; [|assumption]. rewrite <- lookup_some_in_keys. congruence.
  - intros H. inversion H as [|? ? Hn Hd]; subst. split; [|assumption].
    destruct (isSome (lookup k r)) eqn:E; [|reflexivity]. apply lookup_some_in_keys in E. contradiction.
Qed.

Lemma keys_nodup_perm {A} (a b : list (bytes * A)) : Permutation a b -> keys_nodup a = true -> keys_nodup b = true.
Proof.
  intros P. rewrite !keys_nodup_NoDup. apply Permutation_NoDup. now apply Permutation_map.
Qed.

Lemma lookup_perm {A} (a b : list (bytes * A)) k :
  Permutation a b -> keys_nodup a = true -> lookup k a = lookup k b.
Proof.
  intros P ND. pose proof (keys_nodup_perm _ _ P ND) as ND'.
  destruct (lookup k a) as [v|] eqn:La.
  - symmetry. apply in_lookup_nodup; [assumption|]. apply (Permutation_in _ P). now apply lookup_in.
  - destruct (lookup k b) as [v|] eqn:Lb; [|reflexivity].
    apply lookup_in in Lb. apply (Permutation_in _ (Permutation_sym P)) in Lb.
    apply in_lookup in Lb. rewrite La in Lb. discriminate.
Qed.

Lemma has_topic_perm a b : Permutation a b -> has_topic a = has_topic b.
Proof.
  intros P. unfold has_topic. destruct (existsb _ a) eqn:Ea; symmetry.
  - apply existsb_exists in Ea as (x & Hx & T). apply existsb_exists. exists x. split; [|assumption].
    now apply (Permutation_in _ P).
  - destruct (existsb (fun kv => is_topic_key (fst kv)) b) eqn:Eb; [|reflexivity].
    apply existsb_exists in Eb as (x & Hx & T).
    assert (existsb (fun kv => is_topic_key (fst kv)) a = true) as C.
    { apply existsb_exists. exists x. split; [|assumption]. now apply (Permutation_in _ (Permutation_sym P)). }
    congruence.
Qed.

(* two iteration orders of the same parameter map give ConfigMaps that are equal as finite maps
   (the nested default.topic.config map compared as a finite map too) *)
Definition same_cval (a b : option cval) : Prop :=
  match a, b with
  | Some (VMap x), Some (VMap y) => forall k, lookup k x = lookup k y
  | _, _ => a = b
  end.

Lemma apply_conf_order (ps ps' : pmap) (m : cmap) :
  Permutation ps ps' -> keys_nodup ps = true ->
  (has_topic ps = true -> dtc_ok m /\ lookup (lp ++ dtc) ps = None) ->
  exists cm cm', apply_conf ps m = Some cm /\ apply_conf ps' m = Some cm'
                 /\ forall k, same_cval (lookup k cm) (lookup k cm').
Proof.
  intros P ND Pre.
  pose proof (keys_nodup_perm _ _ P ND) as ND'.
  assert (forall k, lookup k ps = lookup k ps') as LP by (intros k; now apply lookup_perm).
  pose proof (has_topic_perm _ _ P) as TP.
  destruct (apply_conf_char ps m ND Pre) as (cm & H & C).
  destruct (apply_conf_char ps' m ND') as (cm' & H' & C').
  { rewrite <- TP, <- LP. exact Pre. }
  exists cm, cm'. repeat split; try assumption. intros k.
  destruct (bytes_eqb_spec k dtc) as [->|Nk].
  - destruct (lookup (lp ++ dtc) ps) as [v|] eqn:L.
    + rewrite (oc_param _ _ _ C dtc v dtc_not_topic L).
      rewrite LP in L. rewrite (oc_param _ _ _ C' dtc v dtc_not_topic L). reflexivity.
    + case_eq (has_topic ps); intros T; assert (T' := T); rewrite TP in T'.
      * destruct (oc_dtc_topic _ _ _ C T) as (sub & Hs & Hx).
        destruct (oc_dtc_topic _ _ _ C' T') as (sub' & Hs' & Hx').
        rewrite Hs, Hs'. cbn. intros x. now rewrite Hx, Hx', LP.
      * rewrite (oc_dtc_same _ _ _ C L T). rewrite LP in L.
        rewrite (oc_dtc_same _ _ _ C' L T').
        unfold same_cval. destruct (lookup dtc m) as [[?|?]|]; auto.
  - assert (lookup k cm = lookup k cm') as E.
    { destruct (has_prefix tp k) eqn:HT.
      - rewrite (oc_other _ _ _ C k Nk (or_introl HT)), (oc_other _ _ _ C' k Nk (or_introl HT)). reflexivity.
      - destruct (lookup (lp ++ k) ps) as [v|] eqn:L.
        + rewrite (oc_param _ _ _ C k v HT L). rewrite LP in L. now rewrite (oc_param _ _ _ C' k v HT L).
        + rewrite (oc_other _ _ _ C k Nk (or_intror L)). rewrite LP in L.
          now rewrite (oc_other _ _ _ C' k Nk (or_intror L)). }
    rewrite E. unfold same_cval. destruct (lookup k cm') as [[?|?]|]; auto.
Qed.
