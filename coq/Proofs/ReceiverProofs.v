(* Lemmas about Model/Receiver.v: closed form of the start offsets; the receiver model refines the
   reference receiver of Judge/E5.v ([sstep]) on C10's domain; consequences. *)
From Coq Require Import List ZArith Bool Lia ZifyBool.
From FB Require Import Lib.Eqb Model.Wire Model.Receiver Judge.E5 Proofs.WireProofs.
Import ListNotations.
Open Scope Z_scope.

(* ---------- start offsets ---------- *)
Lemma start_of_ok l h : start_of (WOk l h) = expected_start (l, h).
Proof.
  unfold start_of, expected_start, max_replay.
  destruct (h - l >? 50000) eqn:E1, (h - l <=? 50000) eqn:E2; lia.
Qed.

Lemma start_of_bounds l h : l <= h ->
  let s := start_of (WOk l h) in l <= s <= h /\ h - s <= 50000 /\ (s = l \/ s = h - 50000).
Proof. intros H. rewrite start_of_ok. unfold expected_start. destruct (h - l <=? 50000) eqn:E; lia. Qed.

Lemma build_assignments_closed : forall pids wms lh,
  wms_ok (firstn (length pids) wms) = Some lh -> length lh = length pids ->
  build_assignments pids wms = combine pids (map expected_start lh).
Proof.
  induction pids as [|p pids IH]; intros wms lh H L.
  - destruct lh; [reflexivity | discriminate].
  - destruct wms as [|w wms]; cbn [length firstn wms_ok] in H.
    + injection H as <-. discriminate.
    + destruct w as [l h | l h]; [|discriminate].
      destruct (wms_ok (firstn (length pids) wms)) as [r|] eqn:E; [|discriminate].
      injection H as <-. cbn [length] in L. injection L as L.
      cbn [build_assignments hd tl map combine]. rewrite start_of_ok. f_equal. apply IH; assumption.
Qed.

Lemma build_assignments_length pids wms : length (build_assignments pids wms) = length pids.
Proof. revert wms; induction pids as [|p pids IH]; intros wms; cbn; [reflexivity | now rewrite IH]. Qed.
Lemma build_assignments_parts pids wms : map fst (build_assignments pids wms) = pids.
Proof. revert wms; induction pids as [|p pids IH]; intros wms; cbn; [reflexivity | now rewrite IH]. Qed.

(* ---------- sets of partitions ---------- *)
Lemma mem_In p l : mem p l = true <-> In p l.
Proof. apply existsb_Zeqb_In. Qed.

Lemma set_add_In p s x : In x (set_add p s) <-> x = p \/ In x s.
Proof.
  unfold set_add. destruct (existsb (Z.eqb p) s) eqn:E.
  - apply existsb_Zeqb_In in E. split; [auto | intros [->|H]; auto].
  - rewrite in_app_iff. cbn. intuition.
Qed.
Lemma set_add_NoDup p s : NoDup s -> NoDup (set_add p s).
Proof.
  intros N. unfold set_add. destruct (existsb (Z.eqb p) s) eqn:E; [exact N|].
  assert (~ In p s) by (intros H; apply existsb_Zeqb_In in H; congruence).
  clear E. induction s as [|a s IH]; cbn.
  - constructor; [auto | constructor].
  - inversion N as [|? ? Na Ns]; subst. constructor.
    + rewrite in_app_iff. cbn. intros [K|[K|[]]]; [auto | subst; apply H; now left].
    + apply IH; [exact Ns | intros K; apply H; now right].
Qed.

Lemma caught_up_incl pids seen : caught_up pids seen = true <-> incl pids seen.
Proof.
  unfold caught_up. rewrite forallb_forall. unfold incl.
  split; intros H x Hx; [apply mem_In | apply mem_In]; auto.
Qed.
Lemma caught_up_mono pids seen seen' : incl seen seen' -> caught_up pids seen = true -> caught_up pids seen' = true.
Proof. rewrite !caught_up_incl. intros I H x Hx. auto. Qed.

(* the test of the code (number of distinct partitions that reported >= number of partitions) is the
   statement's "every partition has reported" when the reports come from the topic's partitions *)
Lemma count_test_is_caught_up pids e seen :
  NoDup pids -> NoDup e -> incl e pids -> (forall x, In x e <-> In x seen) ->
  (length pids <=? length e)%nat = caught_up pids seen.
Proof.
  intros Np Ne I EQ.
  destruct (caught_up pids seen) eqn:C.
  - apply caught_up_incl in C. apply Nat.leb_le. apply NoDup_incl_length; [exact Np|].
    intros x Hx. apply EQ. auto.
  - apply Nat.leb_gt. destruct (Nat.le_gt_cases (length pids) (length e)) as [Hle|Hgt]; [|exact Hgt].
    exfalso. assert (incl pids e) by (apply NoDup_length_incl; assumption).
    assert (caught_up pids seen = true) by (apply caught_up_incl; intros x Hx; apply EQ; auto). congruence.
Qed.

(* ---------- refinement ---------- *)
Section Refine.
Variable pids : list Z.
Hypothesis ND : NoDup pids.

Definition op_ok (o : rop) : Prop := match o with Eof p => In p pids | _ => True end.

Definition R (s : rstate) (ss : sstate) : Prop :=
  r_init s = s_inited ss /\ r_pcount s = length pids
  /\ (r_init s = false -> r_buf s = latest (s_log ss))
  /\ NoDup (r_eofs s) /\ (forall p, In p (r_eofs s) <-> In p (s_seen ss)) /\ incl (r_eofs s) pids.

Lemma R_init : R (rinit (length pids)) sinit.
Proof.
  unfold R, rinit, sinit; cbn. repeat split; auto; try tauto.
  - constructor.
  - intros x [].
Qed.

Definition proj (e : bool * list msg * bool) : bool * list msg := (fst (fst e), snd (fst e)).

Lemma step_refines s ss o : R s ss -> op_ok o ->
  R (fst (rstep s o)) (fst (sstep pids ss o))
  /\ (r_init (fst (rstep s o)), snd (rstep s o)) = proj (snd (sstep pids ss o)).
Proof.
  intros (R1 & R2 & R3 & R4 & R5 & R6) OK.
  destruct o as [[w|] | p | ]; cbn [rstep sstep].
  - (* record *)
    rewrite <- R1. destruct (r_init s) eqn:Ei; cbn [fst snd proj r_init]; rewrite ?Ei.
    + split; [|reflexivity]. unfold R. rewrite Ei. repeat split; auto; try apply R5; try discriminate.
    + split; [|reflexivity]. unfold R; cbn. repeat split; auto; try apply R5.
      intros _. rewrite latest_snoc, (R3 eq_refl). reflexivity.
  - (* undecodable *)
    cbn [fst snd proj]. split; [|now rewrite R1]. unfold R. repeat split; auto; apply R5.
  - (* end of partition *)
    cbn in OK.
    assert (EQ : forall x, In x (set_add p (r_eofs s)) <-> In x (p :: s_seen ss)).
    { intros x. rewrite set_add_In. cbn. rewrite R5. intuition. }
    assert (I : incl (set_add p (r_eofs s)) pids).
    { intros x Hx. apply set_add_In in Hx as [->|Hx]; auto. }
    rewrite R2, (count_test_is_caught_up pids _ (p :: s_seen ss) ND (set_add_NoDup _ _ R4) I EQ).
    rewrite <- R1.
    destruct (negb (r_init s) && caught_up pids (p :: s_seen ss)) eqn:C; cbn [fst snd proj].
    + apply andb_true_iff in C as [C1 C2]. apply negb_true_iff in C1.
      split.
      * unfold R; cbn. repeat split; auto; try apply EQ; try discriminate. now apply set_add_NoDup.
      * unfold process_init_buffer, latest_unacked. now rewrite (R3 C1).
    + split; [|reflexivity]. unfold R; cbn. repeat split; auto; try apply EQ. now apply set_add_NoDup.
  - (* other events *)
    cbn [fst snd proj]. split; [|now rewrite R1]. unfold R. repeat split; auto; apply R5.
Qed.

Lemma run_refines : forall ops s ss, R s ss -> Forall op_ok ops ->
  rrun s ops = map proj (srun pids ss ops).
Proof.
  induction ops as [|o ops IH]; intros s ss HR F; [reflexivity|].
  inversion F as [|? ? Ho Fo]; subst.
  destruct (step_refines s ss o HR Ho) as [HR' E].
  cbn [rrun srun]. destruct (rstep s o) as [s' out]. destruct (sstep pids ss o) as [ss' e].
  cbn [fst snd map] in *. rewrite E. f_equal. apply IH; assumption.
Qed.
End Refine.

Lemma dom10_ops_ok pids ops :
  existsb (is_eof_outside pids) ops = false -> Forall (op_ok pids) ops.
Proof.
  intros H. apply Forall_forall. intros o Ho. destruct o as [r|p|]; cbn; auto.
  destruct (mem p pids) eqn:M; [now apply mem_In|].
  assert (existsb (is_eof_outside pids) ops = true).
  { apply existsb_exists. exists (Eof p). split; [exact Ho|]. cbn. now rewrite M. }
  congruence.
Qed.

Lemma dom10_elim i : dom10 i = true ->
  NoDup (i_pids i) /\ (1 <= length (i_pids i))%nat /\ Forall (op_ok (i_pids i)) (i_ops i).
Proof.
  unfold dom10. intros H. apply andb_true_iff in H as [H H3]. apply andb_true_iff in H as [H1 H2].
  split; [now apply nodupb_NoDup|]. split; [lia|]. apply dom10_ops_ok. now apply negb_true_iff.
Qed.

(* the model IS the reference receiver on C10's domain: per event the same Initialized() and the same deliveries *)
Lemma model_refines_reference i : dom10 i = true ->
  rrun (rinit (length (i_pids i))) (i_ops i) = map proj (srun (i_pids i) sinit (i_ops i)).
Proof.
  intros D. destruct (dom10_elim i D) as (N & _ & F).
  apply run_refines; [exact N | apply R_init | exact F].
Qed.

(* ---------- soundness of the decision procedure ---------- *)
Lemma deliv_eqb_refl free d : deliv_eqb free d d = true.
Proof. destruct free; cbn; [apply perm_eqb_refl | apply list_eqb_refl, msg_eqb_refl]. Qed.

Lemma check_steps_refl : forall exp inited, check_steps exp (map proj exp) inited = [].
Proof.
  induction exp as [|[[ef ed] free] exp IH]; intros inited; [reflexivity|].
  cbn [map proj fst snd check_steps]. rewrite Bool.eqb_reflx, deliv_eqb_refl. cbn. apply IH.
Qed.

Lemma spec_c10_sound i : spec_c10 i (model_obs10 i) = [].
Proof.
  unfold spec_c10, model_obs10; cbn [o_assign o_steps].
  assert (A : (match wms_ok (firstn (length (i_pids i)) (i_wms i)) with
               | Some lh =>
                   if nodupb (i_pids i) && (length lh =? length (i_pids i))%nat
                   then if list_eqb zz_eqb (build_assignments (i_pids i) (i_wms i))
                                (combine (i_pids i) (map expected_start lh)) then [] else [1]
                   else []
               | None => []
               end) = []).
  { destruct (wms_ok _) as [lh|] eqn:E; [|reflexivity].
    destruct (nodupb (i_pids i) && (length lh =? length (i_pids i))%nat) eqn:G; [|reflexivity].
    apply andb_true_iff in G as [_ G]. apply Nat.eqb_eq in G.
    rewrite (build_assignments_closed _ _ _ E G), (list_eqb_refl zz_eqb zz_eqb_refl). reflexivity. }
  rewrite A. cbn [app].
  destruct (dom10 i) eqn:D; [|reflexivity].
  rewrite (model_refines_reference i D), check_steps_refl. reflexivity.
Qed.

(* ---------- the property, clause by clause, for every history ---------- *)
Definition eofs_of (ops : list rop) : list Z :=
  flat_map (fun o => match o with Eof p => [p] | _ => [] end) ops.
Definition recs_of (ops : list rop) : list wire :=
  flat_map (fun o => match o with Rec (Some w) => [w] | _ => [] end) ops.
(* what one event causes once the receiver has caught up *)
Definition live_out (o : rop) : list msg :=
  match o with Rec (Some w) => if w_ack w then [] else [w_msg w] | _ => [] end.

Lemma caught_up_ext pids a b : (forall x, In x a <-> In x b) -> caught_up pids a = caught_up pids b.
Proof.
  intros E. destruct (caught_up pids a) eqn:A, (caught_up pids b) eqn:B; try reflexivity.
  - rewrite (caught_up_mono pids a b) in B; [discriminate | intros x; apply E | exact A].
  - rewrite (caught_up_mono pids b a) in A; [discriminate | intros x; apply E | exact B].
Qed.

Lemma srun_live pids : forall ops ss, s_inited ss = true ->
  srun pids ss ops = map (fun o => (true, live_out o, false)) ops.
Proof.
  induction ops as [|o ops IH]; intros ss H; [reflexivity|].
  destruct o as [[w|]|p|]; cbn [srun sstep map live_out]; rewrite ?H; cbn [negb andb]; rewrite ?H;
    f_equal; apply IH; auto.
Qed.

Lemma srun_catch_up pids : forall pre ss p rest,
  s_inited ss = false ->
  caught_up pids (eofs_of pre ++ s_seen ss) = false ->
  caught_up pids (p :: eofs_of pre ++ s_seen ss) = true ->
  srun pids ss (pre ++ Eof p :: rest)
  = map (fun _ => (false, [], false)) pre
    ++ (true, latest_unacked (s_log ss ++ recs_of pre), true) :: map (fun o => (true, live_out o, false)) rest.
Proof.
  induction pre as [|o pre IH]; intros ss p rest Hi Hn Hy.
  - cbn [app srun sstep eofs_of flat_map recs_of map] in *. rewrite Hi, Hy. cbn [negb andb].
    rewrite app_nil_r. f_equal. now apply srun_live.
  - destruct o as [[w|]|q|]; cbn [app srun sstep map].
    + rewrite Hi. cbn [app]. f_equal.
      rewrite (IH _ p rest); cbn [s_inited s_seen s_log]; auto.
      cbn [recs_of flat_map app]. now rewrite <- app_assoc.
    + rewrite Hi. f_equal. now apply IH.
    + cbn [eofs_of flat_map app] in Hn, Hy. fold (eofs_of pre) in Hn, Hy.
      assert (Hq : caught_up pids (q :: s_seen ss) = false).
      { destruct (caught_up pids (q :: s_seen ss)) eqn:C; [|reflexivity].
        rewrite (caught_up_mono pids (q :: s_seen ss) (q :: eofs_of pre ++ s_seen ss)) in Hn; [discriminate| |exact C].
        intros x [->|Hx]; [now left | right; apply in_or_app; now right]. }
      rewrite Hi, Hq. cbn [negb andb]. f_equal.
      change (recs_of (Eof q :: pre)) with (recs_of pre).
      apply (IH {| s_inited := false; s_seen := q :: s_seen ss; s_log := s_log ss |});
        cbn [s_inited s_seen s_log]; auto.
      * rewrite <- Hn. apply caught_up_ext. intros x. cbn. rewrite !in_app_iff. cbn. tauto.
      * rewrite <- Hy. apply caught_up_ext. intros x. cbn. rewrite !in_app_iff. cbn. tauto.
    + rewrite Hi. f_equal. now apply IH.
Qed.

Lemma srun_silent pids : forall pre ss,
  s_inited ss = false -> caught_up pids (eofs_of pre ++ s_seen ss) = false ->
  srun pids ss pre = map (fun _ => (false, [], false)) pre.
Proof.
  induction pre as [|o pre IH]; intros ss Hi Hn; [reflexivity|].
  destruct o as [[w|]|q|]; cbn [srun sstep map].
  - rewrite Hi. f_equal. apply IH; auto.
  - rewrite Hi. f_equal. now apply IH.
  - cbn [eofs_of flat_map app] in Hn. fold (eofs_of pre) in Hn.
    assert (Hq : caught_up pids (q :: s_seen ss) = false).
    { destruct (caught_up pids (q :: s_seen ss)) eqn:C; [|reflexivity].
      rewrite (caught_up_mono pids (q :: s_seen ss) (q :: eofs_of pre ++ s_seen ss)) in Hn; [discriminate| |exact C].
      intros x [->|Hx]; [now left | right; apply in_or_app; now right]. }
    rewrite Hi, Hq. cbn [negb andb]. f_equal.
    apply IH; cbn [s_inited s_seen]; auto.
    rewrite <- Hn. apply caught_up_ext. intros x. cbn. rewrite !in_app_iff. cbn. tauto.
  - rewrite Hi. f_equal. now apply IH.
Qed.

(* nothing is delivered and Initialized() stays false while some partition has not reported its end *)
Lemma silent_until_caught_up pids pre :
  NoDup pids -> Forall (op_ok pids) pre -> caught_up pids (eofs_of pre) = false ->
  rrun (rinit (length pids)) pre = map (fun _ => (false, [])) pre.
Proof.
  intros N F C. rewrite (run_refines pids N pre _ sinit (R_init pids) F).
  rewrite srun_silent; [now rewrite map_map | reflexivity | cbn; now rewrite app_nil_r].
Qed.

(* the event that completes the catch-up delivers exactly the latest unacknowledged messages, and from
   then on every event delivers what [live_out] says *)
Lemma catch_up_then_live pids pre p rest :
  NoDup pids -> Forall (op_ok pids) (pre ++ Eof p :: rest) ->
  caught_up pids (eofs_of pre) = false -> caught_up pids (p :: eofs_of pre) = true ->
  rrun (rinit (length pids)) (pre ++ Eof p :: rest)
  = map (fun _ => (false, [])) pre
    ++ (true, latest_unacked (recs_of pre)) :: map (fun o => (true, live_out o)) rest.
Proof.
  intros N F C1 C2. rewrite (run_refines pids N _ _ sinit (R_init pids) F).
  rewrite srun_catch_up; cbn [sinit s_inited s_seen s_log]; rewrite ?app_nil_r; auto.
  rewrite map_app. cbn [map proj fst snd app]. now rewrite !map_map.
Qed.

(* every history has one of the two shapes *)
Lemma history_shape pids : pids <> [] -> forall ops,
  caught_up pids (eofs_of ops) = false
  \/ exists pre p rest, ops = pre ++ Eof p :: rest
       /\ caught_up pids (eofs_of pre) = false /\ caught_up pids (p :: eofs_of pre) = true.
Proof.
  intros NE. induction ops as [|o ops IH] using rev_ind.
  - left. destruct pids; [contradiction | reflexivity].
  - destruct IH as [C|(pre & p & rest & -> & C1 & C2)].
    + destruct (caught_up pids (eofs_of (ops ++ [o]))) eqn:C'; [|now left]. right.
      destruct o as [r|p|].
      * unfold eofs_of in C'. rewrite flat_map_app in C'. cbn in C'. rewrite app_nil_r in C'.
        unfold eofs_of in C. congruence.
      * exists ops, p, []. split; [reflexivity|]. split; [exact C|].
        rewrite <- C'. apply caught_up_ext. intros x. unfold eofs_of. rewrite flat_map_app. cbn.
        rewrite in_app_iff. cbn. tauto.
      * unfold eofs_of in C'. rewrite flat_map_app in C'. cbn in C'. rewrite app_nil_r in C'.
        unfold eofs_of in C. congruence.
    + right. exists pre, p, (rest ++ [o]). split; [now rewrite <- app_assoc|]. auto.
Qed.
