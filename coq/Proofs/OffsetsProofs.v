From Coq Require Import List ZArith Bool Lia.
From FB Require Import Lib.Sexp Lib.Eqb Model.Tracker Model.Offsets Judge.E2.
Import ListNotations.
Open Scope Z_scope.

(* ---------- one partition ---------- *)

Lemma start_offset_closed cfg c high :
  0 <= c -> 0 <= high -> 0 <= maxlag cfg ->
  fst (start_offset cfg c high) = expected_start cfg c high.
Proof.
  intros Hc Hh Hm. unfold start_offset, expected_start.
  destruct (high - c >? maxlag cfg) eqn:E1; destruct (high - c <=? maxlag cfg) eqn:E2; try lia.
  - destruct (maxlag cfg >? high) eqn:E3; simpl; lia.
  - reflexivity.
Qed.

(* the "high watermark less than maxinitialpartitionlag" branch is dead for non-negative committed offsets *)
Lemma dead_branch cfg c high :
  0 <= c -> high - c >? maxlag cfg = true -> maxlag cfg >? high = false.
Proof. intros; lia. Qed.

Lemma start_offset_req cfg c high :
  0 <= c -> 0 <= high -> 0 <= maxlag cfg ->
  option_map (trim cfg) (snd (start_offset cfg c high)) = expected_req cfg c high.
Proof.
  intros Hc Hh Hm. unfold start_offset, expected_req, trim.
  destruct (high - c >? maxlag cfg) eqn:E1.
  - rewrite (dead_branch cfg c high Hc E1). destruct (recov cfg); simpl; [|reflexivity].
    destruct (high - maxlag cfg - c >? maxrec cfg) eqn:E2; f_equal; f_equal; lia.
  - rewrite andb_false_r. reflexivity.
Qed.

Lemma start_bounds cfg c high :
  0 <= c -> 0 <= high -> 0 <= maxlag cfg ->
  let s := fst (start_offset cfg c high) in
  c <= s /\ 0 <= s /\ (s = c \/ (s = high - maxlag cfg /\ high - c > maxlag cfg)) /\ high - s <= maxlag cfg.
Proof.
  intros Hc Hh Hm s. subst s. rewrite start_offset_closed by assumption. unfold expected_start.
  destruct (high - c <=? maxlag cfg) eqn:E; lia.
Qed.

Lemma req_shape cfg c high f t :
  0 <= c -> 0 <= high -> 0 <= maxlag cfg -> 1 <= maxrec cfg ->
  expected_req cfg c high = Some (f, t) ->
  recov cfg = true /\ high - c > maxlag cfg /\ t = high - maxlag cfg /\ c <= f /\ f < t /\ t - f <= maxrec cfg
  /\ (f = c \/ f = t - maxrec cfg).
Proof.
  intros Hc Hh Hm Hr. unfold expected_req.
  destruct (recov cfg); simpl; [|discriminate].
  destruct (high - c >? maxlag cfg) eqn:E; [|discriminate].
  intros H; inversion H; subst. lia.
Qed.

Lemma no_req_iff cfg c high :
  expected_req cfg c high = None <-> recov cfg = false \/ high - c <= maxlag cfg.
Proof.
  unfold expected_req. destruct (recov cfg); simpl.
  - destruct (high - c >? maxlag cfg) eqn:E; split; intros H.
    + discriminate.
    + destruct H as [H|H]; [discriminate|lia].
    + right; lia.
    + reflexivity.
  - split; auto.
Qed.

(* ---------- int64: the unbounded model is the code on the property's domain ---------- *)
Definition int64 (z : Z) : Prop := - 2 ^ 63 <= z < 2 ^ 63.

(* every intermediate value the Go code computes for one partition *)
Definition intermediates (cfg : acfg) (c high : Z) : list Z :=
  [high - c] ++
  (if high - c >? maxlag cfg then
     if maxlag cfg >? high then []
     else [high - maxlag cfg] ++
          (if recov cfg then [high - maxlag cfg - c; high - maxlag cfg - maxrec cfg] else [])
   else []).

Lemma offsets_no_overflow cfg c high :
  0 <= c <= 2 ^ 62 -> 0 <= high <= 2 ^ 62 -> 0 <= maxlag cfg < 2 ^ 63 -> 1 <= maxrec cfg < 2 ^ 63 ->
  Forall int64 (intermediates cfg c high).
Proof.
  intros Hc Hh Hm Hr. unfold intermediates, int64.
  assert (E62 : 2 ^ 63 = 2 * 2 ^ 62) by reflexivity.
  constructor; [lia|].
  destruct (high - c >? maxlag cfg) eqn:E1; [|constructor].
  destruct (maxlag cfg >? high) eqn:E2; [constructor|].
  constructor; [lia|]. destruct (recov cfg); repeat constructor; lia.
Qed.

(* ---------- the loop ---------- *)
Definition wok (lh : Z * Z) : wres := WOk (fst lh) (snd lh).

Lemma all_ok_map wms lh : all_ok wms = Some lh -> wms = map wok lh.
Proof.
  revert lh; induction wms as [|w wms IH]; simpl; intros lh H.
  - inversion H; reflexivity.
  - destruct w as [|l h]; [discriminate|]. destruct (all_ok wms) as [r|]; [|discriminate].
    inversion H; subst; simpl. unfold wok at 1; simpl. f_equal. now apply IH.
Qed.

Definition exp_filed (cfg : acfg) (offs : list (Z * Z)) (pl : list (Z * (Z * Z))) : list (Z * Z * Z) :=
  flat_map (fun x => match expected_req cfg (committed_of (fst x) offs) (snd (snd x)) with
                     | Some (f, t) => [(fst x, f, t)]
                     | None => []
                     end) pl.

Lemma combine_map_r {A B C} (f : B -> C) (a : list A) (b : list B) :
  combine a (map f b) = map (fun x => (fst x, f (snd x))) (combine a b).
Proof. revert b; induction a as [|x a IH]; intros [|y b]; simpl; try reflexivity. now rewrite IH. Qed.

Lemma calc_ok cfg offs (pl : list (Z * (Z * Z))) :
  0 <= maxlag cfg ->
  Forall (fun x => 0 <= committed_of (fst x) offs /\ 0 <= snd (snd x)) pl ->
  calc cfg offs (map (fun x => (fst x, wok (snd x))) pl)
  = (Some (exp_assign cfg offs pl), exp_filed cfg offs pl).
Proof.
  intros Hm H. induction H as [|[p [l h]] pl [Hc Hh] _ IH]; simpl; [reflexivity|].
  simpl in Hc, Hh. rewrite IH.
  pose proof (start_offset_closed cfg _ _ Hc Hh Hm) as E1.
  pose proof (start_offset_req cfg _ _ Hc Hh Hm) as E2.
  destruct (start_offset cfg (committed_of p offs) h) as [st rq]; simpl in E1, E2.
  rewrite <- E2, E1. f_equal.
  destruct rq as [ft|]; simpl; [|reflexivity]. destruct (trim cfg ft); reflexivity.
Qed.

(* any failing watermark query aborts: no Assign argument is produced *)
Lemma calc_err cfg offs pw : In WErr (map snd pw) -> fst (calc cfg offs pw) = None.
Proof.
  induction pw as [|[p w] pw IH]; simpl; [contradiction|].
  intros [E|Hin].
  - subst w; reflexivity.
  - destruct w as [|l h]; [reflexivity|].
    destruct (start_offset cfg (committed_of p offs) h) as [st rq].
    specialize (IH Hin). destruct (calc cfg offs pw) as [r filed]; simpl in *. now rewrite IH.
Qed.

Lemma all_ok_none wms : all_ok wms = None -> In WErr wms.
Proof.
  induction wms as [|w wms IH]; simpl; [discriminate|].
  destruct w; [auto|]. destruct (all_ok wms); [discriminate|]. intros _; right; auto.
Qed.

(* ---------- filing into an empty tracker, distinct partitions ---------- *)
Lemma lookup_set_other p q v s : q <> p -> lookup q (set p v s) = lookup q s.
Proof.
  intros Hne; induction s as [|[k rs] s IH]; simpl.
  - destruct (p =? q) eqn:E; [apply Z.eqb_eq in E; congruence|reflexivity].
  - destruct (k =? p) eqn:E1; simpl.
    + apply Z.eqb_eq in E1; subst k. destruct (p =? q) eqn:E2; [apply Z.eqb_eq in E2; congruence|reflexivity].
    + destruct (k =? q); [reflexivity|apply IH].
Qed.

Lemma add_fresh s p f t :
  lookup p s = None ->
  add s p f t = {| ts := set p [(f, t)] s; terr := false; tout := [(p, [(f, t)])] |}.
Proof. intros H; unfold add; rewrite H; reflexivity. Qed.

Lemma file_all_cons s p f t rest :
  file_all s ((p, f, t) :: rest)
  = (fst (file_all (ts (add s p f t)) rest), tout (add s p f t) ++ snd (file_all (ts (add s p f t)) rest)).
Proof. cbn [file_all]. destruct (file_all (ts (add s p f t)) rest); reflexivity. Qed.

Lemma file_all_fresh cfg offs pl s :
  NoDup (map fst pl) ->
  (forall x, In x pl -> lookup (fst x) s = None) ->
  snd (file_all s (exp_filed cfg offs pl)) = exp_sent cfg offs pl.
Proof.
  revert s; induction pl as [|x pl IH]; intros s Hnd Hfresh; [reflexivity|].
  inversion Hnd as [|? ? Hnot Hnd']; subst.
  unfold exp_filed, exp_sent; cbn [flat_map]; fold (exp_filed cfg offs pl); fold (exp_sent cfg offs pl).
  destruct (expected_req cfg (committed_of (fst x) offs) (snd (snd x))) as [[f t]|] eqn:E; cbn [app].
  - rewrite file_all_cons. rewrite (add_fresh s (fst x) f t (Hfresh x (or_introl eq_refl))).
    cbn [ts tout snd app]. f_equal.
    apply IH; [assumption|].
    intros y Hy. rewrite lookup_set_other.
    + apply Hfresh; right; assumption.
    + intros Heq. apply Hnot. rewrite <- Heq. now apply in_map.
  - apply IH; [assumption|]. intros y Hy; apply Hfresh; right; assumption.
Qed.

(* ---------- the model satisfies the statement of C06 on every input ---------- *)
Lemma forallb_combine_fst {B} (P : Z -> bool) (a : list Z) (b : list B) :
  forallb P a = true -> Forall (fun x => P (fst x) = true) (combine a b).
Proof.
  revert b; induction a as [|x a IH]; intros [|y b]; simpl; intros H; try constructor.
  - apply andb_true_iff in H as [H1 H2]; assumption.
  - apply andb_true_iff in H as [H1 H2]; now apply IH.
Qed.
Lemma forallb_combine_snd {A B} (P : B -> bool) (a : list A) (b : list B) :
  forallb P b = true -> Forall (fun x => P (snd x) = true) (combine a b).
Proof.
  revert b; induction a as [|x a IH]; intros [|y b]; simpl; intros H; try constructor.
  - apply andb_true_iff in H as [H1 H2]; assumption.
  - apply andb_true_iff in H as [H1 H2]; now apply IH.
Qed.

Lemma map_fst_combine {A B} (a : list A) (b : list B) :
  length a = length b -> map fst (combine a b) = a.
Proof. revert b; induction a as [|x a IH]; intros [|y b]; simpl; try discriminate; auto. intros H; f_equal; auto. Qed.

Lemma assign_eqb_refl a : assign_eqb a a = true.
Proof. apply opt_eqb_refl, list_eqb_refl, zz_eqb_refl. Qed.
Lemma sent_eqb_refl a : sent_eqb a a = true.
Proof. apply list_eqb_refl. intros x. apply pair_eqb_refl; [apply Z.eqb_refl|apply list_eqb_refl, zz_eqb_refl]. Qed.

Lemma combine_firstn_r {A B} (a : list A) (b : list B) :
  combine a b = combine a (firstn (length a) b).
Proof. revert b; induction a as [|x a IH]; intros [|y b]; simpl; try reflexivity. now rewrite <- IH. Qed.

Lemma In_combine_snd {A B} (a : list A) (b : list B) y :
  (length b <= length a)%nat -> In y b -> In y (map snd (combine a b)).
Proof.
  revert b; induction a as [|x a IH]; intros [|z b]; simpl; intros Hl Hin; try contradiction; try lia.
  destruct Hin as [E|Hin]; [left; assumption|right; apply IH; [lia|assumption]].
Qed.

Lemma in_domain_facts cfg parts offs lh :
  in_domain cfg parts offs lh = true ->
  0 <= maxlag cfg /\ 1 <= maxrec cfg /\ NoDup parts /\ length parts = length lh
  /\ Forall (fun x => 0 <= committed_of (fst x) offs /\ 0 <= snd (snd x)) (combine parts lh).
Proof.
  unfold in_domain. intros Hdom.
  repeat (apply andb_true_iff in Hdom as [Hdom ?]).
  match goal with H : forallb (fun x => 0 <=? snd x) lh = true |- _ => rename H into Hhigh end.
  match goal with H : forallb _ parts = true |- _ => rename H into Hcomm end.
  match goal with H : (length _ =? length _)%nat = true |- _ => apply Nat.eqb_eq in H; rename H into Hlen end.
  match goal with H : nodupb _ = true |- _ => apply nodupb_NoDup in H; rename H into Hnd end.
  repeat split; try lia; try assumption.
  pose proof (forallb_combine_fst (fun p => 0 <=? committed_of p offs) _ lh Hcomm) as F1.
  pose proof (forallb_combine_snd (A:=Z) (fun x => 0 <=? snd x) parts lh Hhigh) as F2.
  rewrite Forall_forall in *. intros x Hx. specialize (F1 x Hx). specialize (F2 x Hx).
  simpl in *. lia.
Qed.

Lemma assign_in_domain cfg parts offs lh afail :
  in_domain cfg parts offs lh = true ->
  let pl := combine parts lh in
  let ea := exp_assign cfg offs pl in
  assign cfg parts (COk offs) (map wok lh) afail
  = {| a_err := afail; a_assign := Some ea; a_filed := exp_filed cfg offs pl;
       a_owned := if afail then None else if recov cfg then Some ea else None |}.
Proof.
  intros Hdom pl ea. destruct (in_domain_facts _ _ _ _ Hdom) as (Hm & Hr & Hnd & Hlen & HF).
  unfold assign. rewrite combine_map_r. fold pl. rewrite calc_ok by assumption. fold ea.
  destruct afail; reflexivity.
Qed.

Lemma sent_in_domain cfg parts offs lh :
  in_domain cfg parts offs lh = true ->
  snd (file_all [] (exp_filed cfg offs (combine parts lh))) = exp_sent cfg offs (combine parts lh).
Proof.
  intros Hdom. destruct (in_domain_facts _ _ _ _ Hdom) as (Hm & Hr & Hnd & Hlen & HF).
  apply file_all_fresh; [|reflexivity]. now rewrite map_fst_combine.
Qed.

Lemma assign_error_aborts cfg parts com wms afail :
  com = CErr \/ In WErr (firstn (length parts) wms) ->
  let r := assign cfg parts com wms afail in
  a_err r = true /\ a_assign r = None /\ a_owned r = None.
Proof.
  intros H r. subst r. unfold assign. destruct com as [|offs]; [auto|].
  destruct H as [H|H]; [discriminate|].
  rewrite combine_firstn_r.
  pose proof (calc_err cfg offs (combine parts (firstn (length parts) wms))) as HE.
  destruct (calc cfg offs (combine parts (firstn (length parts) wms))) as [r filed].
  simpl in HE. rewrite HE; [auto|].
  apply In_combine_snd; [rewrite firstn_length; lia|assumption].
Qed.

Lemma model_in_domain i offs lh :
  i_com i = COk offs -> all_ok (firstn (length (i_parts i)) (i_wms i)) = Some lh ->
  in_domain (i_cfg i) (i_parts i) offs lh = true ->
  let pl := combine (i_parts i) lh in
  let ea := exp_assign (i_cfg i) offs pl in
  model_obs i = {| o_err := i_afail i; o_assign := Some ea;
                   o_sent := exp_sent (i_cfg i) offs pl;
                   o_owned := if i_afail i then None else if recov (i_cfg i) then Some ea else None |}.
Proof.
  intros Hcom Hok Hdom pl ea.
  unfold model_obs. rewrite Hcom.
  assert (E : assign (i_cfg i) (i_parts i) (COk offs) (i_wms i) (i_afail i)
              = assign (i_cfg i) (i_parts i) (COk offs) (map wok lh) (i_afail i)).
  { unfold assign. rewrite combine_firstn_r. rewrite (all_ok_map _ _ Hok).
    destruct (in_domain_facts _ _ _ _ Hdom) as (_ & _ & _ & Hlen & _).
    rewrite (combine_firstn_r (i_parts i) (map wok lh)).
    rewrite firstn_all2 with (l := map wok lh); [reflexivity|rewrite map_length; lia]. }
  rewrite E, assign_in_domain by assumption. cbn [a_err a_assign a_filed a_owned].
  rewrite (sent_in_domain _ _ _ _ Hdom). reflexivity.
Qed.

Theorem spec_c06_sound i : spec_c06 i (model_obs i) = [].
Proof.
  unfold spec_c06. destruct (i_com i) as [|offs] eqn:Hcom.
  - unfold model_obs, assign. rewrite Hcom. reflexivity.
  - destruct (all_ok (firstn (length (i_parts i)) (i_wms i))) as [lh|] eqn:Hok.
    + destruct (in_domain (i_cfg i) (i_parts i) offs lh) eqn:Hdom; [|reflexivity].
      rewrite (model_in_domain i offs lh Hcom Hok Hdom). cbn [o_err o_assign o_sent o_owned].
      rewrite !assign_eqb_refl, sent_eqb_refl, Bool.eqb_reflx. reflexivity.
    + destruct (assign_error_aborts (i_cfg i) (i_parts i) (COk offs) (i_wms i) (i_afail i)) as (E1 & E2 & E3).
      { right. now apply all_ok_none. }
      unfold model_obs. rewrite Hcom. cbn [o_err o_assign o_owned]. rewrite E1, E2, E3. reflexivity.
Qed.

(* ---------- the retry loop ---------- *)
Lemma assign_err_iff_fails cfg parts a :
  a_err (assign cfg parts (at_com a) (at_wms a) (at_fail a)) = attempt_fails parts a.
Proof.
  unfold attempt_fails, assign. destruct (at_com a) as [|offs]; [reflexivity|].
  destruct (all_ok (firstn (length parts) (at_wms a))) as [lh|] eqn:Hok.
  - rewrite combine_firstn_r. rewrite (all_ok_map _ _ Hok). rewrite combine_map_r.
    (* every asked watermark answered: calc returns Some *)
    assert (H : exists l filed, calc cfg offs (map (fun x => (fst x, wok (snd x))) (combine parts lh)) = (Some l, filed)).
    { generalize (combine parts lh). intros pl. induction pl as [|[p [l h]] pl IH]; cbn; [eauto|].
      destruct IH as (l0 & f0 & E). rewrite E.
      destruct (start_offset cfg (committed_of p offs) h) as [st rq]. eauto. }
    destruct H as (l & filed & E). rewrite E. destruct (at_fail a); reflexivity.
  - destruct (assign_error_aborts cfg parts (COk offs) (at_wms a) (at_fail a)) as (E & _).
    { right. now apply all_ok_none. }
    unfold assign in E. exact E.
Qed.

(* the loop makes exactly the prescribed number of attempts: it keeps trying after every failure, stops at the
   first success, and stops when the revocation arrives *)
Lemma retry_length cfg parts atts cancel :
  length (retry cfg parts atts cancel) = expected_attempts parts atts cancel.
Proof.
  revert cancel; induction atts as [|a atts IH]; intros cancel; cbn [retry expected_attempts length]; [reflexivity|].
  rewrite assign_err_iff_fails. destruct (attempt_fails parts a); [|reflexivity].
  destruct cancel; [reflexivity|]. cbn [length]. now rewrite IH.
Qed.

(* every attempt but the last failed (so it assigned nothing to the recovery consumer); only the last can succeed *)
Lemma retry_only_last_succeeds cfg parts atts cancel :
  forall pre r post, retry cfg parts atts cancel = pre ++ r :: post -> post <> [] -> a_err r = true /\ a_owned r = None.
Proof.
  revert cancel; induction atts as [|a atts IH]; intros cancel pre r post E Hp; cbn [retry] in E.
  - destruct pre; discriminate.
  - remember (assign cfg parts (at_com a) (at_wms a) (at_fail a)) as r0 eqn:Er0.
    destruct pre as [|x pre]; cbn in E.
    + inversion E as [[E1 E2]]. subst r.
      destruct (a_err r0) eqn:Ee; [|rewrite <- E2 in Hp; contradiction].
      split; [reflexivity|].
      (* a failed attempt never reaches SetAssignedPartitions *)
      subst r0. unfold assign in *. destruct (at_com a) as [|offs]; [reflexivity|].
      destruct (calc cfg offs (combine parts (at_wms a))) as [[l|] filed]; [|reflexivity].
      destruct (at_fail a); [reflexivity|]. cbn in Ee. discriminate.
    + inversion E as [[E1 E2]]. subst x. destruct (a_err r0); [|destruct pre; discriminate].
      destruct cancel; [destruct pre; discriminate|]. eapply IH; eassumption.
Qed.

Lemma expected_attempts_pos parts a atts cancel : (0 < expected_attempts parts (a :: atts) cancel)%nat.
Proof. cbn. lia. Qed.

Theorem spec_c06_retry_sound i : spec_c06_retry i (model_robs i) = [].
Proof.
  unfold spec_c06_retry, model_robs. cbn [ro_calls ro_owned ro_assigns].
  rewrite retry_length, Nat.eqb_refl. cbn [app].
  set (rs := retry (r_cfg i) (r_parts i) (r_atts i) (r_cancel i)).
  unfold last_owned. destruct (rev rs) as [|r rest] eqn:Er; [reflexivity|].
  destruct (a_err r) eqn:Ee.
  - destruct (recov (r_cfg i)); reflexivity.
  - (* the successful last attempt: its owned list is its own Assign argument *)
    assert (Hin : In r rs). { apply in_rev. rewrite Er. left. reflexivity. }
    destruct (a_owned r) as [l|] eqn:Eo; [|reflexivity].
    assert (Hr : a_assign r = Some l /\ recov (r_cfg i) = true).
    { unfold rs in Hin. clear Er. revert Hin. generalize (r_cancel i). induction (r_atts i) as [|a atts IH]; intros c Hin; cbn [retry] in Hin; [contradiction|].
      destruct Hin as [E|Hin].
      - subst r. unfold assign in *. destruct (at_com a) as [|offs]; [discriminate|].
        destruct (calc (r_cfg i) offs (combine (r_parts i) (at_wms a))) as [[l0|] filed]; [|discriminate].
        destruct (at_fail a); [discriminate|]. cbn in Eo |- *. destruct (recov (r_cfg i)); [|discriminate].
        inversion Eo; subst. auto.
      - destruct (a_err (assign (r_cfg i) (r_parts i) (at_com a) (at_wms a) (at_fail a))); [|contradiction].
        destruct c; [contradiction|]. eapply IH; eassumption. }
    destruct Hr as [Ha Hrc]. rewrite Hrc, andb_true_r.
    destruct l as [|x l]; [reflexivity|].
    assert (Hex : existsb (fun a => list_eqb zz_eqb a (x :: l)) (opt_list (map a_assign rs)) = true).
    { apply existsb_exists. exists (x :: l). split; [|apply list_eqb_refl, zz_eqb_refl].
      clear -Hin Ha. induction rs as [|r0 rs IH]; [contradiction|]. cbn [map opt_list].
      destruct Hin as [->|Hin].
      - rewrite Ha. left. reflexivity.
      - destruct (a_assign r0); [right|]; apply IH; exact Hin. }
    rewrite Hex. reflexivity.
Qed.

(* clause 7 of the retry judge never fires on the model's own observation *)
Lemma snap_eqb_refl x : snap_eqb x x = true.
Proof. destruct x as [l|]; cbn; [|reflexivity]. apply list_eqb_refl. intros p. apply zz_eqb_refl. Qed.
Lemma same_record_refl a : same_record a a = true.
Proof. unfold same_record. apply forallb_forall. intros p _. apply snap_eqb_refl. Qed.
Theorem spec_c06_retry_record_sound i : spec_c06_retry_record i (model_robs i) = [].
Proof. unfold spec_c06_retry_record. rewrite same_record_refl. reflexivity. Qed.
