(* E4 — the coverage theorems in their final form *)
From Coq Require Import List ZArith Bool Lia ZifyBool.
From FB Require Import Lib.Sexp Lib.Eqb Model.Tracker Model.Offsets Model.Recovery Judge.E4.
From FB Require Import Proofs.RecoveryProofs Proofs.RecoveryOwnership Proofs.RecoveryTruncation Proofs.RecoveryCover.
Import ListNotations.
Open Scope Z_scope.

(* the situation right after the request (f0,t) of partition p was filed (or read from the topic): it is the only
   request of p, p is not being recovered yet, and the topic agrees with the tracker about p *)
Definition fresh_request (s : rstate) (p f0 t : Z) : Prop :=
  lookup p (trk s) = Some [(f0, t)] /\ (forall v, ~ In (p, v) (active s)) /\ ssorted (keys (active s))
  /\ lookup p (replay (mlog s)) = lookup p (trk s).

Definition final_state (cfg : rcfg) (s : rstate) (ops : list rop) : rstate := last (map fst (rrun cfg s ops)) s.

Lemma cover_run cfg p f0 t LB s ops :
  fresh_request s p f0 t -> forallb (ok_op p LB) ops = true ->
  let s' := final_state cfg s ops in
  let em := run_emits p (rrun cfg s ops) in
  (* completed (by a record beyond to, or closed by a truncation): every retained record of (from, to] was emitted *)
  (lookup p (trk s') = Some [] -> forall o, f0 < o <= t -> LB < o -> In o em)
  (* still outstanding: the broadcast progress point rf never runs ahead of what was emitted, so whoever resumes
     from rf (this instance after a refresh, or the next owner after a crash / rebalance) loses nothing *)
  /\ (forall rf, lookup p (trk s') = Some [(rf, t)] -> forall o, f0 < o <= rf -> o <= t -> LB < o -> In o em)
  (* and the request is in one of these two states *)
  /\ (lookup p (trk s') = Some [] \/ exists rf, lookup p (trk s') = Some [(rf, t)]).
Proof.
  intros [Hl [Hna [Hs H4]]] Hok s' em.
  assert (HI : Inv p f0 t LB s []).
  { split; [left; exists f0; split; [exact Hl|intros o H1 H2; lia]|]. split; [intros a t' Hin; exfalso; exact (Hna _ Hin)|]. split; assumption. }
  pose proof (inv_run cfg p f0 t LB ops s [] HI Hok) as [H1 _]. cbn [app] in H1. subst s' em. unfold final_state.
  destruct H1 as [[rf [Hl' Hc]]|[Hl' Hc]].
  - split; [intros Hx; rewrite Hl' in Hx; discriminate|]. split; [|right; exists rf; exact Hl'].
    intros rf' Hx o Ho1 Ho2 Ho3. rewrite Hl' in Hx. inversion Hx; subst. apply Hc; lia.
  - split; [intros _ o Ho1 Ho2; apply Hc; lia|]. split; [intros rf Hx; rewrite Hl' in Hx; discriminate|left; exact Hl'].
Qed.

(* every emitted recovery event of the run lies in (from', to'] of the window active when it was handled: see
   rec_step_emits / pump_windows_hold.  Here: the full statement of C07's coverage clause and its refutation. *)
Definition C07_cover_full_statement : Prop :=
  forall cfg p f t ops,
    forallb (ok_op p (-1)) ops = true -> 0 <= f ->
    let r := rrun cfg init_state (Request p f t :: ops) in
    lookup p (trk (final_state cfg init_state (Request p f t :: ops))) = Some [] ->
    forall o, f <= o < t -> In o (run_emits p r).

Definition f6_cfg : rcfg := {| c_maxrec := 1000; c_every := 5; c_maxlag := 0 |}.
Definition f6_ops : list rop := [SetOwned [1]; Refresh; Pump 1 12].

Lemma f6_witness :
  forallb (ok_op 1 (-1)) f6_ops = true
  /\ lookup 1 (trk (final_state f6_cfg init_state (Request 1 10 20 :: f6_ops))) = Some []
  /\ run_emits 1 (rrun f6_cfg init_state (Request 1 10 20 :: f6_ops)) = [11; 12; 13; 14; 15; 16; 17; 18; 19; 20].
Proof. vm_compute. repeat split; reflexivity. Qed.

Lemma cover_full_refuted : ~ C07_cover_full_statement.
Proof.
  intros H. destruct f6_witness as [H1 [H2 H3]].
  specialize (H f6_cfg 1 10 20 f6_ops H1 ltac:(lia) H2 10 ltac:(lia)). cbv zeta in H. rewrite H3 in H.
  cbn [In] in H. lia.
Qed.

(* the same across a crash: the successor resumes from the broadcast progress point 15; together 11..20, never 10 *)
Definition f6_handoff_ops : list rop := [SetOwned [1]; Refresh; Pump 1 7; Crash; SetOwned [1]; Refresh; Pump 1 8].
Lemma f6_handoff_witness :
  forallb (ok_op 1 (-1)) f6_handoff_ops = true
  /\ lookup 1 (trk (final_state f6_cfg init_state (Request 1 10 20 :: f6_handoff_ops))) = Some []
  /\ run_emits 1 (rrun f6_cfg init_state (Request 1 10 20 :: f6_handoff_ops))
     = [11; 12; 13; 14; 15; 16; 16; 17; 18; 19; 20].
Proof. vm_compute. repeat split; reflexivity. Qed.

(* F11: with unrestricted stragglers admitted the coverage statement fails even for offsets strictly inside the window *)
Definition ok_op_wild (p LB : Z) (op : rop) : bool :=
  match op with Wild _ _ => true | _ => ok_op p LB op end.

Definition C07_cover_straggler_statement : Prop :=
  forall cfg p f t ops,
    forallb (ok_op_wild p (-1)) ops = true -> 0 <= f ->
    lookup p (trk (final_state cfg init_state (Request p f t :: ops))) = Some [] ->
    forall o, f < o <= t -> In o (run_emits p (rrun cfg init_state (Request p f t :: ops))).

(* a straggler ON the broadcast grid (20), then a refresh caused by another partition's request: 13..19 are lost *)
Definition f11_grid_ops : list rop :=
  [SetOwned [1; 2]; Refresh; Pump 1 3; Wild 1 6; Request 2 0 5; Refresh; Pump 1 15].
(* a straggler beyond to (21) closes the request: 13..20 are lost *)
Definition f11_beyond_ops : list rop := [SetOwned [1]; Refresh; Pump 1 3; Wild 1 7; Pump 1 12].

Lemma f11_witness :
  (forallb (ok_op_wild 1 (-1)) f11_grid_ops = true
   /\ lookup 1 (trk (final_state f6_cfg init_state (Request 1 10 30 :: f11_grid_ops))) = Some []
   /\ run_emits 1 (rrun f6_cfg init_state (Request 1 10 30 :: f11_grid_ops)) = [11; 12; 20; 21; 22; 23; 24; 25; 26; 27; 28; 29; 30])
  /\ (forallb (ok_op_wild 1 (-1)) f11_beyond_ops = true
      /\ lookup 1 (trk (final_state f6_cfg init_state (Request 1 10 20 :: f11_beyond_ops))) = Some []
      /\ run_emits 1 (rrun f6_cfg init_state (Request 1 10 20 :: f11_beyond_ops)) = [11; 12]).
Proof. vm_compute. repeat split; reflexivity. Qed.

Lemma cover_straggler_refuted : ~ C07_cover_straggler_statement.
Proof.
  intros H. destruct f11_witness as [_ [H1 [H2 H3]]].
  specialize (H f6_cfg 1 10 20 f11_beyond_ops H1 ltac:(lia) H2 15 ltac:(lia)). rewrite H3 in H. cbn [In] in H. lia.
Qed.

(* the hypothesis of cover_run is what RequestRecovery establishes on a consumer that knows nothing of p yet *)
Lemma request_is_fresh cfg s p f t :
  lookup p (trk s) = None -> lookup p (replay (mlog s)) = None -> active s = [] -> t - f <= c_maxrec cfg ->
  fresh_request (fst (rstep cfg s (Request p f t))) p f t.
Proof.
  intros Hl Hr Ha Hm. cbn [rstep]. unfold trim. cbn [maxrec]. replace (t - f >? c_maxrec cfg) with false by lia.
  cbn [fst with_trk]. unfold fresh_request. cbn [trk active mlog]. unfold add. rewrite Hl. cbn [existsb app ts tout].
  split; [apply r_lookup_set_same|]. unfold with_trk. cbn [trk active mlog]. split; [rewrite Ha; intros v []|]. split; [rewrite Ha; exact I|].
  rewrite replay_app. cbn [fold_left fst snd]. unfold receive. now rewrite !r_lookup_set_same.
Qed.

Example fresh_request_inhabited :
  fresh_request (fst (rstep f6_cfg init_state (Request 1 10 20))) 1 10 20.
Proof. apply request_is_fresh; try reflexivity. cbn. lia. Qed.
