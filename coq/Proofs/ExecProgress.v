(* E1 — C03, liveness half: deadlock freedom of the shutdown cascade.  Part 1 (this file):
     * the hypotheses on the network under which the cascade can finish ([live_net]);
     * the termination measure [M] and how the elementary state updates change it;
     * the "forward" closing invariant [inv_fwd]: main past its loop => every root channel is closed;
       a node's once is done => all its children's / handler's channels are closed
       (the converses are L6 / L7 of [inv_life]); proved for every reachable state ([fwd_reachable]).
   Part 2 (ExecProgress2.v): the progress lemma and [can_always_finish]. *)
From Coq Require Import List ZArith Bool Arith Lia.
From FB Require Import Model.Exec Model.TraceSpec Model.ExecInv Proofs.ExecLifeBase Proofs.ExecLife.
From FB Require Proofs.ExecBase Proofs.ExecLink Proofs.ExecProps.
Import ListNotations.
Local Open Scope nat_scope.

(* ------------------------------------------------------------------ the networks considered *)
(* [wf_net] does not say that the table is a forest hanging from the roots: a node that is neither a root
   nor anybody's child (or a cycle of nodes feeding each other) is well-formed, but its channel is never
   closed, so Execute can only leave by the timeout.  And a channel of capacity 0 that does not discard
   never accepts anything in this model (no rendezvous), so its sender blocks for ever.  None of the three
   occurs for a table built by InitNodeContextHierarchy from a validated config: the table is numbered in
   preorder (node, handler, children: feeders before the nodes they feed), every entry is a root source
   child or was reached from one, and config validation enforces buffersize >= 1.
   [topo] and [fed] are PROVED for every output of Model/Settle.flatten in ExecProgressFlat.v
   ([flatten_topo], [flatten_fed]).  The counterexamples at the end of ExecProgress2.v show that
   [good_net] alone is not enough: [fed], acyclicity (here: [topo]) and [buffered] are each needed. *)
Definition topo (nt : net) : Prop :=
  forall n c, n < length nt -> In c (targets (info nt n)) -> n < c.
Definition fed (nt : net) : Prop :=
  forall c, c < length nt -> In c (roots nt) \/ exists n, n < length nt /\ In c (targets (info nt n)).
Definition buffered (nt : net) : Prop :=
  forall c, c < length nt -> 0 < ncap (info nt c) \/ ndisc (info nt c) = true.

Definition live_net (nt : net) : Prop := ExecProps.good_net nt /\ topo nt /\ fed nt /\ buffered nt.

(* executable versions, for concrete tables *)
Definition topo_b (nt : net) : bool :=
  forallb (fun n => forallb (fun c => n <? c) (targets (info nt n))) (seq 0 (length nt)).
Definition fed_b (nt : net) : bool :=
  forallb (fun c => existsb (Nat.eqb c) (roots nt ++ flat_map targets nt)) (seq 0 (length nt)).
Definition buffered_b (nt : net) : bool :=
  forallb (fun x => (0 <? ncap x) || ndisc x) nt.

Lemma topo_b_ok : forall nt, topo_b nt = true -> topo nt.
Proof.
  intros nt H n c Hn Hc. unfold topo_b in H. rewrite forallb_forall in H.
  specialize (H n). rewrite forallb_forall in H. apply Nat.ltb_lt. apply H; auto.
  apply in_seq. lia.
Qed.

Lemma fed_b_ok : forall nt, fed_b nt = true -> fed nt.
Proof.
  intros nt H c Hc. unfold fed_b in H. rewrite forallb_forall in H.
  assert (Hin : In c (seq 0 (length nt))) by (apply in_seq; lia).
  specialize (H c Hin). apply existsb_exists in H. destruct H as [c' [Hin' E]].
  apply Nat.eqb_eq in E. subst c'. apply in_app_or in Hin'. destruct Hin' as [Hr|Hf]; [left; auto|right].
  apply in_flat_map in Hf. destruct Hf as [x [Hx Hcx]].
  apply (In_nth _ _ dummy_info) in Hx. destruct Hx as [n [Hn En]].
  exists n. split; auto. unfold info. rewrite En. exact Hcx.
Qed.

Lemma buffered_b_ok : forall nt, buffered_b nt = true -> buffered nt.
Proof.
  intros nt H c Hc. unfold buffered_b in H. rewrite forallb_forall in H.
  specialize (H (info nt c)). assert (Hin : In (info nt c) nt) by (unfold info; apply nth_In; auto).
  specialize (H Hin). apply orb_true_iff in H. destruct H as [H|H]; [left; apply Nat.ltb_lt; auto|right; auto].
Qed.

Definition live_net_b (nt : net) : bool :=
  wf_net nt && forallb (fun x => 0 <? nworkers x) nt && topo_b nt && fed_b nt && buffered_b nt.

Lemma live_net_b_ok : forall nt, live_net_b nt = true -> live_net nt.
Proof.
  intros nt H. unfold live_net_b in H. do 4 (apply andb_true_iff in H; destruct H as [H ?]).
  split; [split; assumption|]. split; [apply topo_b_ok; assumption|].
  split; [apply fed_b_ok; assumption|apply buffered_b_ok; assumption].
Qed.

(* ------------------------------------------------------------------ the schedules considered *)
(* actions of the framework and of well-behaved nodes: a node returns from Process / calls back (here: with the
   'filtered' outcome, which creates no new work), its Shutdown returns; no new source activity, no clock *)
Definition finishing (a : action) : bool :=
  match a with
  | SrcEmit _ | SrcReturnNil | SrcReturnErr | SrcRestart | SrcSetupFail | Tick | MainTimeout => false
  | Return _ _ o | Callback _ _ o => match o with ORes [] => true | _ => false end
  | _ => true
  end.

(* ------------------------------------------------------------------ the measure *)
(* a queued item weighs 3, an item inside Process 2 (on top of the idle worker), a delivery still to be
   made 4, an async item in flight 1; the cascade phases of a worker and of main are ranked *)
Definition wrank (w : wstate) : nat :=
  match w with
  | WIdle => 8
  | WProc _ => 10
  | WSend p => 8 + 4 * length p
  | WSaw => 6
  | WWaited => 5
  | WInShut => 4
  | WClosing => 3
  | WExit => 0
  end.
Definition nodeM (x : nstate) : nat := 3 * length (q x) + length (inflight x) + sumf wrank (ws x).
Definition cbM (cb : nat * list (nat * item)) : nat := 4 * length (snd cb).
Definition mainM (m : mstate) : nat :=
  match m with
  | MDone => 0
  | MWait => 1
  | MCloseRoots => 2
  | MSelect => 3
  | MDeliver _ rs => 3 + 4 * length rs
  end.
Definition M (s : state) : nat := sumf nodeM (nodes s) + sumf cbM (cbs s) + mainM (mn s).

Lemma M_log : forall s es, M (log s es) = M s.
Proof. reflexivity. Qed.

Lemma M_set_node : forall s n x, n < length (nodes s) ->
  M (set_node s n x) + nodeM (node s n) = M s + nodeM x.
Proof.
  intros s n x Hn. unfold M. cbn [set_node nodes cbs mn]. unfold node.
  pose proof (ExecBase.sumf_upd_nth _ nodeM (nodes s) n x dummy_ns Hn). lia.
Qed.

Lemma M_set_mn : forall s m, M (set_mn s m) + mainM (mn s) = M s + mainM m.
Proof. intros. unfold M. cbn [set_mn nodes cbs mn]. lia. Qed.

Lemma M_set_cbs : forall s c, M (set_cbs s c) + sumf cbM (cbs s) = M s + sumf cbM c.
Proof. intros. unfold M. cbn [set_cbs nodes cbs mn]. lia. Qed.

Lemma wsum_upd : forall W w st st', nth_error W w = Some st ->
  sumf wrank (upd w st' W) + wrank st = sumf wrank W + wrank st'.
Proof. intros. apply ExecBase.sumf_upd. assumption. Qed.

Lemma nodeM_set_worker : forall x w st st', nth_error (ws x) w = Some st ->
  nodeM (set_worker x w st') + wrank st = nodeM x + wrank st'.
Proof.
  intros x w st st' H. unfold nodeM. cbn [set_worker set_ws q inflight ws].
  pose proof (wsum_upd _ _ _ st' H). lia.
Qed.

Lemma nodeM_set_once : forall x o, nodeM (set_once x o) = nodeM x.
Proof. reflexivity. Qed.

Lemma nodeM_count_outcome : forall x o, nodeM (count_outcome x o) = nodeM x.
Proof. intros x [[|e es]| |]; reflexivity. Qed.

Lemma wrank_after : forall p, wrank (after_deliveries p) = 8 + 4 * length p.
Proof. intros [|d p]; reflexivity. Qed.

(* a worker of node n moves from st to st', nothing else changes *)
Lemma M_worker : forall s n w st st', nth_error (ws (node s n)) w = Some st ->
  M (set_node s n (set_worker (node s n) w st')) + wrank st = M s + wrank st'.
Proof.
  intros s n w st st' H. pose proof (node_ws_some_lt _ _ _ _ H) as Hn.
  pose proof (M_set_node s n (set_worker (node s n) w st') Hn).
  pose proof (nodeM_set_worker _ _ _ st' H). lia.
Qed.

(* closing channels does not change the measure *)
Lemma M_nodes_close_all : forall cs s s', close_all s cs = Some s' ->
  sumf nodeM (nodes s') = sumf nodeM (nodes s) /\ cbs s' = cbs s /\ mn s' = mn s
  /\ src s' = src s /\ timedout s' = timedout s.
Proof.
  intros cs s s' H. apply close_all_some in H.
  destruct H as (_ & Hsb & _ & _ & _ & Hlen & Hc & Hm & Ht & Hs & _).
  repeat split; auto.
  apply (ExecBase.sumf_ext_nth _ nodeM dummy_ns); auto.
  intros n. destruct (Hsb n) as (a & b & c & d). unfold node in *. unfold nodeM. rewrite a, c, d. reflexivity.
Qed.

(* a successful send adds at most one queued item *)
Definition accepts (nt : net) (s : state) (c : nat) : bool :=
  (length (q (node s c)) <? ncap (info nt c)) || ndisc (info nt c).

Lemma try_send_accepts : forall nt s c it, c < length (nodes s) -> closed (node s c) = false ->
  accepts nt s c = true -> exists s1, try_send nt s c it = Sent s1 /\ M s1 <= M s + 3.
Proof.
  intros nt s c it Hc Hcl Ha. unfold try_send. rewrite Hcl. unfold accepts in Ha.
  destruct (length (q (node s c)) <? ncap (info nt c)) eqn:E.
  - eexists. split; [reflexivity|].
    match goal with |- M (set_node s c ?x) <= _ => pose proof (M_set_node s c x Hc) as HM;
      assert (Hx : nodeM x = nodeM (node s c) + 3) end.
    { unfold nodeM. cbn [q inflight ws]. rewrite app_length. cbn [length]. lia. }
    lia.
  - cbn [orb] in Ha. rewrite Ha. eexists. split; [reflexivity|].
    match goal with |- M (set_node s c ?x) <= _ => pose proof (M_set_node s c x Hc) as HM;
      assert (Hx : nodeM x = nodeM (node s c)) by reflexivity end.
    lia.
Qed.

(* ------------------------------------------------------------------ channels stay closed *)
Lemma closed_mono_step : forall nt T s a s' n, step nt T s a = Ok s' ->
  closed (node s n) = true -> closed (node s' n) = true.
Proof.
  intros nt T s a s' n H Ho.
  assert (Hset : forall s0 m x, closed (node s0 n) = true -> (m = n -> closed x = true) ->
                                closed (node (set_node s0 m x) n) = true).
  { intros s0 m x H0 Hx. destruct (Nat.eq_dec m n) as [->|Hm].
    - destruct (Nat.lt_ge_cases n (length (nodes s0))).
      + rewrite node_set_node_eq by assumption. auto.
      + rewrite node_set_node_oob by assumption. auto.
    - rewrite node_set_node_neq by assumption. auto. }
  assert (Hts : forall c it s1, try_send nt s c it = Sent s1 -> closed (node s1 n) = true).
  { intros c it s1 E. apply try_send_sent in E. destruct E as (_ & Hsl & _).
    destruct (Hsl n) as (_ & _ & b & _). congruence. }
  assert (Hca : forall cs s1, close_all s cs = Some s1 -> closed (node s1 n) = true).
  { intros cs s1 E. apply close_all_some in E. destruct E as (_ & _ & Hmono & _). auto. }
  destruct a; cbn [step] in H.
  - destruct (src s); try discriminate. destruct (mn s); try discriminate. injection H as <-. exact Ho.
  - destruct (src s); try discriminate. injection H as <-. exact Ho.
  - destruct (src s); try discriminate. injection H as <-. exact Ho.
  - destruct (src s); try discriminate. injection H as <-. exact Ho.
  - destruct (mn s) as [|it [|r rs]| | |]; try discriminate.
    destruct (try_send nt s r it) eqn:E; try discriminate. injection H as <-. apply (Hts _ _ _ E).
  - destruct (mn s); try discriminate. destruct (src s); try discriminate. injection H as <-. exact Ho.
  - destruct (mn s); try discriminate. destruct (close_all s (roots nt)) eqn:E; try discriminate.
    injection H as <-. apply (Hca _ _ E).
  - destruct (mn s); try discriminate. destruct (all_exited s); try discriminate. injection H as <-. exact Ho.
  - destruct (mn s); try discriminate. destruct (_ <=? _); try discriminate. injection H as <-. exact Ho.
  - injection H as <-. exact Ho.
  - destruct (nth_error (ws (node s n0)) w) as [[]|]; try discriminate.
    destruct (q (node s n0)); try discriminate. injection H as <-.
    rewrite node_log. apply Hset; auto. intros ->. exact Ho.
  - destruct (nth_error (ws (node s n0)) w) as [[]|]; try discriminate.
    destruct (outcome_ok _ _ _); try discriminate.
    destruct o as [[|e es]| |]; injection H as <-; rewrite node_log; apply Hset; auto; intros ->; exact Ho.
  - destruct (nth_error (ws (node s n0)) w) as [[| |[|[c it] rest]| | | | |]|]; try discriminate.
    destruct (try_send nt s c it) as [s1| |] eqn:E; try discriminate. injection H as <-.
    apply Hset; [apply (Hts _ _ _ E)|]. intros ->. autorewrite with fb. apply (Hts _ _ _ E).
  - destruct (nth_error (ws (node s n0)) w) as [[]|]; try discriminate.
    destruct (q (node s n0)); try discriminate. destruct (closed (node s n0)); try discriminate. injection H as <-.
    apply Hset; auto. intros ->. exact Ho.
  - destruct (nth_error (ws (node s n0)) w) as [[]|]; try discriminate.
    destruct (forallb _ _); try discriminate. injection H as <-.
    apply Hset; auto. intros ->. exact Ho.
  - destruct (nth_error (ws (node s n0)) w) as [[]|]; try discriminate.
    destruct (once (node s n0)); try discriminate. injection H as <-.
    rewrite node_log. apply Hset; auto. intros ->. exact Ho.
  - destruct (nth_error (ws (node s n0)) w) as [[]|]; try discriminate.
    destruct (inflight (node s n0)); try discriminate. destruct (existsb _ _); try discriminate. injection H as <-.
    rewrite node_log. apply Hset; auto. intros ->. exact Ho.
  - destruct (nth_error (ws (node s n0)) w) as [[]|]; try discriminate.
    destruct (close_all s (targets (info nt n0))) as [s1|] eqn:E; try discriminate. injection H as <-.
    apply Hset; [apply (Hca _ _ E)|]. intros ->. autorewrite with fb. apply (Hca _ _ E).
  - destruct (nth_error (ws (node s n0)) w) as [[]|]; try discriminate.
    destruct (once (node s n0)); try discriminate. injection H as <-.
    apply Hset; auto. intros ->. exact Ho.
  - destruct (remove_one it (inflight (node s n0))); try discriminate.
    destruct (outcome_ok _ _ _); try discriminate. injection H as <-.
    rewrite node_log.
    match goal with |- context [set_node s n0 ?x] => assert (G : closed (node (set_node s n0 x) n) = true) end.
    { apply Hset; auto. intros ->. autorewrite with fb. exact Ho. }
    destruct (deliveries nt n0 it o); exact G.
  - destruct (nth_error (cbs s) i) as [[m [|[c it] rest]]|]; try discriminate.
    destruct (try_send nt s c it) as [s1| |] eqn:E; try discriminate. injection H as <-.
    rewrite node_set_cbs. apply (Hts _ _ _ E).
  - destruct (src s); try discriminate. injection H as <-. exact Ho.
Qed.

(* ------------------------------------------------------------------ the forward closing invariant *)
Definition inv_fwd (nt : net) (s : state) : Prop :=
  (main_past_loop s = true -> forall r, In r (roots nt) -> closed (node s r) = true)
  /\ (forall n c, n < length nt -> once (node s n) = ODone -> In c (targets (info nt n)) -> closed (node s c) = true).

Lemma fwd_init : forall nt, inv_fwd nt (init nt).
Proof.
  intros nt. split.
  - cbn. discriminate.
  - intros n c Hn Ho. rewrite node_init in Ho. cbn in Ho. discriminate.
Qed.

Lemma step_CloseKids_closed : forall nt T s n w s', step nt T s (CloseKids n w) = Ok s' ->
  forall c, In c (targets (info nt n)) -> c < length (nodes s) -> closed (node s' c) = true.
Proof.
  intros nt T s n w s' H c Hc Hlt. cbn [step] in H.
  destruct (nth_error (ws (node s n)) w) as [[]|] eqn:Hg; try discriminate.
  destruct (close_all s (targets (info nt n))) as [s1|] eqn:E; try discriminate. injection H as <-.
  pose proof (close_all_some _ _ _ E) as (_ & _ & _ & _ & Hcl & Hlen & _).
  specialize (Hcl c Hc Hlt).
  destruct (Nat.eq_dec n c) as [->|Hne].
  - rewrite node_set_node_eq.
    + autorewrite with fb. exact Hcl.
    + rewrite Hlen. exact Hlt.
  - rewrite node_set_node_neq by assumption. exact Hcl.
Qed.

Lemma step_MainCloseRoots_closed : forall nt T s s', step nt T s MainCloseRoots = Ok s' ->
  forall r, In r (roots nt) -> r < length (nodes s) -> closed (node s' r) = true.
Proof.
  intros nt T s s' H r Hr Hlt. cbn [step] in H.
  destruct (mn s); try discriminate.
  destruct (close_all s (roots nt)) as [s1|] eqn:E; try discriminate. injection H as <-.
  pose proof (close_all_some _ _ _ E) as (_ & _ & _ & _ & Hcl & _).
  apply (Hcl r Hr Hlt).
Qed.

Lemma fwd_step : forall nt T s a s', wf_net nt = true -> inv_shape nt s -> inv_fwd nt s ->
  step nt T s a = Ok s' -> inv_fwd nt s'.
Proof.
  intros nt T s a s' Hwf [Hlen _] [F1 F2] H.
  pose proof (ExecLink.step_fp _ _ _ _ _ H) as FP.
  split.
  - intros Hp r Hr.
    assert (Hrl : r < length (nodes s)) by (rewrite Hlen; apply root_lt; auto).
    destruct (main_past_loop s) eqn:Ep.
    + eapply closed_mono_step; eauto.
    + unfold main_past_loop in Hp, Ep. rewrite (ExecLink.fp_mn _ _ _ _ FP) in Hp.
      pose proof (ExecLink.fp_guard _ _ _ _ FP) as G.
      destruct a; cbn [ExecLink.mn_after ExecLink.guard] in Hp, G;
        try (rewrite Hp in Ep; discriminate).
      * (* SrcEmit *) destruct (roots nt); discriminate.
      * (* MainSend *) destruct G as (it & r0 & rs & Em). rewrite Em in Hp. destruct rs; discriminate.
      * (* MainCloseRoots *) eapply step_MainCloseRoots_closed; eauto.
      * (* MainWgDone *) destruct G as [Em _]. rewrite Em in Ep. discriminate.
      * (* MainTimeout *) rewrite G in Ep. discriminate.
  - intros n c Hn Ho Hc.
    assert (Hcl : c < length (nodes s)) by (rewrite Hlen; eapply wf_target_lt; eauto).
    rewrite (ExecLink.fp_once _ _ _ _ FP) in Ho.
    destruct (once (node s n)) eqn:Eo.
    + destruct a; cbn [ExecLink.once_after] in Ho; try congruence.
      * destruct (n =? n0); congruence.
      * destruct (Nat.eqb_spec n n0) as [->|]; [|congruence].
        eapply step_CloseKids_closed; eauto.
    + destruct a; cbn [ExecLink.once_after] in Ho; try congruence.
      * destruct (n =? n0); congruence.
      * destruct (Nat.eqb_spec n n0) as [->|]; [|congruence].
        eapply step_CloseKids_closed; eauto.
    + eapply closed_mono_step; eauto.
Qed.

Theorem fwd_reachable : forall nt T s, wf_net nt = true -> reachable nt T s -> inv_fwd nt s.
Proof.
  intros nt T s Hwf [sch H]. revert s H.
  induction sch as [|a sch IH] using rev_ind; intros s H.
  - cbn in H. injection H as <-. apply fwd_init.
  - rewrite run_app in H. destruct (run nt T (init nt) sch) as [s1| |] eqn:E; try discriminate.
    cbn [run] in H. destruct (step nt T s1 a) as [s2| |] eqn:Es; try discriminate. injection H as <-.
    assert (Hr1 : reachable nt T s1) by (exists sch; exact E).
    destruct (life'_reachable nt T s1 Hwf Hr1) as [Hsh _].
    eapply fwd_step; eauto.
Qed.
