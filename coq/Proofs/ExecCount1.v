(* E1 — counting invariants of the executor model, part 1: the per-node form of the invariants,
   frame lemmas, and all actions that do not move an item (source life cycle, main goroutine
   bookkeeping, close cascade, worker shutdown protocol). *)
From Coq Require Import List ZArith Bool Arith Lia.
From FB Require Import Model.Exec Model.TraceSpec Model.ExecInv Proofs.ExecBase.
Import ListNotations.
Local Open Scope nat_scope.

(* ------------------------------------------------------------------ single-event projections *)
Definition entered1 (n : nat) (e : tev) : list item :=
  match e with TEnter m it => if m =? n then [it] else [] | _ => [] end.
Definition rets1 (n : nat) (e : tev) : list item :=
  match e with TRet m it _ => if m =? n then [it] else [] | _ => [] end.
Definition laters1 (n : nat) (e : tev) : list item :=
  match e with TRet m it OLater => if m =? n then [it] else [] | _ => [] end.
Definition cbacks1 (n : nat) (e : tev) : list item :=
  match e with TCb m it _ => if m =? n then [it] else [] | _ => [] end.
Definition outcomes1 (n : nat) (e : tev) : list (item * outcome) :=
  match e with
  | TRet m it o => if m =? n then match o with OLater => [] | _ => [(it, o)] end else []
  | TCb m it o => if m =? n then [(it, o)] else []
  | _ => [] end.
Definition f_proc (io : item * outcome) : bool := match snd io with ORes (_ :: _) => true | _ => false end.
Definition f_filt (io : item * outcome) : bool := match snd io with ORes [] => true | _ => false end.
Definition f_fail (io : item * outcome) : bool := match snd io with OFail _ => true | _ => false end.

Lemma entered_cons : forall n e p, entered n (e :: p) = entered1 n e ++ entered n p.
Proof. reflexivity. Qed.
Lemma rets_cons : forall n e p, rets n (e :: p) = rets1 n e ++ rets n p.
Proof. reflexivity. Qed.
Lemma laters_cons : forall n e p, laters n (e :: p) = laters1 n e ++ laters n p.
Proof. reflexivity. Qed.
Lemma cbacks_cons : forall n e p, cbacks n (e :: p) = cbacks1 n e ++ cbacks n p.
Proof. reflexivity. Qed.
Lemma outcomes_cons : forall n e p, outcomes n (e :: p) = outcomes1 n e ++ outcomes n p.
Proof. reflexivity. Qed.
Lemma n_proc_cons : forall n e p, n_proc n (e :: p) = length (filter f_proc (outcomes1 n e)) + n_proc n p.
Proof. intros; unfold n_proc; rewrite outcomes_cons, filter_app, app_length; reflexivity. Qed.
Lemma n_filt_cons : forall n e p, n_filt n (e :: p) = length (filter f_filt (outcomes1 n e)) + n_filt n p.
Proof. intros; unfold n_filt; rewrite outcomes_cons, filter_app, app_length; reflexivity. Qed.
Lemma n_fail_cons : forall n e p, n_fail n (e :: p) = length (filter f_fail (outcomes1 n e)) + n_fail n p.
Proof. intros; unfold n_fail; rewrite outcomes_cons, filter_app, app_length; reflexivity. Qed.
Lemma produced_cons : forall nt c x e p, produced nt c x (e :: p) = produced_by nt c x e + produced nt c x p.
Proof. reflexivity. Qed.

Lemma tr_log1 : forall s e, tr (log s [e]) = e :: tr s.
Proof. reflexivity. Qed.

(* events of node c *)
Definition touches (c : nat) (e : tev) : bool :=
  match e with TEnter m _ | TRet m _ _ | TCb m _ _ => m =? c | _ => false end.
Definition untouched (c : nat) (ev : list tev) : bool := forallb (fun e => negb (touches c e)) ev.

Lemma quiet_untouched : forall c ev, forallb quiet_ev ev = true -> untouched c ev = true.
Proof.
  induction ev as [|e ev IH]; simpl; auto. rewrite !andb_true_iff; intros [H1 H2]; split; auto.
  destruct e; simpl in *; auto; discriminate.
Qed.

Lemma untouched_proj : forall c ev, untouched c ev = true ->
  entered c ev = [] /\ rets c ev = [] /\ laters c ev = [] /\ cbacks c ev = [] /\ outcomes c ev = [].
Proof.
  induction ev as [|e ev IH]; [simpl; auto|]. intro H.
  change (untouched c (e :: ev)) with (negb (touches c e) && untouched c ev) in H.
  apply andb_true_iff in H. destruct H as [H1 H2].
  destruct (IH H2) as (I1&I2&I3&I4&I5).
  rewrite entered_cons, rets_cons, laters_cons, cbacks_cons, outcomes_cons, I1, I2, I3, I4, I5.
  destruct e; simpl in *; auto; destruct (n =? c); try discriminate; auto.
  destruct o; auto.
Qed.

(* ------------------------------------------------------------------ per-node form of the invariants *)
Definition ninv (nt : net) (s : state) (c : nat) : Prop :=
  let y := node s c in
  (forall x, count_item x (offered y) = count_item x (q y) + count_item x (entered c (tr s)))
  /\ length (q y) <= ncap (info nt c)
  /\ (ndisc (info nt c) = false -> dropped y = [])
  /\ (c < length (nodes s) ->
      c_recv y = length (entered c (tr s)) /\ c_proc y = n_proc c (tr s) /\ c_filt y = n_filt c (tr s)
      /\ c_fail y = n_fail c (tr s) /\ c_disc y = length (dropped y))
  /\ (forall x, count_item x (entered c (tr s)) = count_item x (rets c (tr s)) + sumf (wproc x) (ws y))
  /\ (forall x, count_item x (laters c (tr s)) = count_item x (cbacks c (tr s)) + count_item x (inflight y))
  /\ (c < length nt -> length (ws y) = nworkers (info nt c)).

Definition inv_rest (nt : net) (s : state) : Prop :=
  inv_chan s /\ inv_bound nt s /\ inv_nodrop nt s /\ inv_counters s /\ inv_calls s /\ inv_flight s /\ inv_shape nt s.

Lemma inv_count_split : forall nt s, inv_count nt s <-> inv_cons nt s /\ inv_rest nt s.
Proof. intros; unfold inv_count, inv_rest; tauto. Qed.

Lemma inv_rest_ninv : forall nt s, inv_rest nt s <-> length (nodes s) = length nt /\ forall c, ninv nt s c.
Proof.
  intros nt s; split.
  - intros (H1&H2&H3&H4&H5&H6&[H7 H8]). split; auto.
    intro c; unfold ninv; cbv zeta.
    split; [apply H1|]. split; [apply H2|]. split; [apply H3|]. split; [intro Hc; apply (H4 c Hc)|].
    split; [apply H5|]. split; [apply H6|]. apply H8.
  - intros [HL H]. unfold inv_rest, inv_chan, inv_bound, inv_nodrop, inv_counters, inv_calls, inv_flight, inv_shape.
    repeat split; try (intros c; intros; destruct (H c) as (H1&H2&H3&H4&H5&H6&H7); cbv zeta in *; auto; fail).
    all: try (destruct (H n) as (H1&H2&H3&H4&H5&H6&H7); apply H4; auto; fail).
    auto.
Qed.

(* what [ninv] reads of a node *)
Definition neq1 (x y : nstate) : Prop :=
  q y = q x /\ offered y = offered x /\ dropped y = dropped x /\ inflight y = inflight x
  /\ c_recv y = c_recv x /\ c_proc y = c_proc x /\ c_filt y = c_filt x /\ c_fail y = c_fail x /\ c_disc y = c_disc x
  /\ length (ws y) = length (ws x) /\ (forall it, sumf (wproc it) (ws y) = sumf (wproc it) (ws x)).

Lemma neq1_refl : forall x, neq1 x x.
Proof. intros; repeat split. Qed.

Lemma ninv_frame : forall nt s s' c ev,
  length (nodes s') = length (nodes s) -> neq1 (node s c) (node s' c) ->
  tr s' = ev ++ tr s -> untouched c ev = true -> ninv nt s c -> ninv nt s' c.
Proof.
  intros nt s s' c ev HL (E1&E2&E3&E4&E5&E6&E7&E8&E9&E10&E11) HT HU H.
  destruct (untouched_proj _ _ HU) as (P1&P2&P3&P4&P5).
  unfold ninv in *; cbv zeta in *.
  unfold n_proc, n_filt, n_fail in *.
  rewrite HT, entered_app, rets_app, laters_app, cbacks_app, outcomes_app, P1, P2, P3, P4, P5; simpl app.
  rewrite HL, E1, E2, E3, E4, E5, E6, E7, E8, E9, E10.
  destruct H as (H1&H2&H3&H4&H5&H6&H7). repeat split; auto; try (apply H4; auto; fail).
  intro x; rewrite E11; auto.
Qed.

(* ------------------------------------------------------------------ pending *)
Definition wsum (c : nat) (x : item) (y : nstate) : nat := sumf (wpend c x) (ws y).

Lemma pend_workers_eq : forall c x s s', length (nodes s') = length (nodes s) ->
  (forall n, wsum c x (node s' n) = wsum c x (node s n)) -> pend_workers c x s' = pend_workers c x s.
Proof.
  intros c x s s' HL H; unfold pend_workers.
  apply (sumf_ext_nth _ (fun ns => sumf (wpend c x) (ws ns)) dummy_ns); auto.
Qed.

Lemma pend_workers_set_node : forall c x s n y, n < length (nodes s) ->
  pend_workers c x (set_node s n y) + wsum c x (node s n) = pend_workers c x s + wsum c x y.
Proof.
  intros; unfold pend_workers, wsum, node; rewrite nodes_set_node.
  apply (sumf_upd_nth _ (fun ns => sumf (wpend c x) (ws ns))); auto.
Qed.

Lemma pend_main_eq : forall c x s s', mn s' = mn s -> pend_main c x s' = pend_main c x s.
Proof. intros c x s s' H; unfold pend_main; rewrite H; auto. Qed.

Lemma pend_cbs_eq : forall c x s s', cbs s' = cbs s -> pend_cbs c x s' = pend_cbs c x s.
Proof. intros c x s s' H; unfold pend_cbs; rewrite H; auto. Qed.

Lemma wsum_upd : forall c x y w old st, nth_error (ws y) w = Some old ->
  sumf (wpend c x) (upd w st (ws y)) + wpend c x old = wsum c x y + wpend c x st.
Proof. intros; unfold wsum; apply sumf_upd; auto. Qed.

Lemma wprocsum_upd : forall x y w old st, nth_error (ws y) w = Some old ->
  sumf (wproc x) (upd w st (ws y)) + wproc x old = sumf (wproc x) (ws y) + wproc x st.
Proof. intros; apply sumf_upd; auto. Qed.

(* ------------------------------------------------------------------ steps that move nothing *)
(* what [ninv] and [pending] read of a node *)
Definition neq2 (x y : nstate) : Prop :=
  neq1 x y /\ forall c it, wsum c it y = wsum c it x.

Definition Qrel (s s' : state) : Prop :=
  length (nodes s') = length (nodes s) /\ (forall n, neq2 (node s n) (node s' n)) /\ cbs s' = cbs s
  /\ (forall c x, pend_main c x s' = pend_main c x s)
  /\ exists ev, tr s' = ev ++ tr s /\ forallb silent_ev ev = true.

Lemma count_Qrel : forall nt s s', Qrel s s' -> inv_count nt s -> inv_count nt s'.
Proof.
  intros nt s s' (HL&HN&HC&HM&ev&HT&HS) H. apply inv_count_split in H. destruct H as [HC0 HR].
  apply inv_count_split; split.
  - intros c x. unfold pending. rewrite HT, produced_app, (produced_silent _ _ _ _ HS), HM, (pend_cbs_eq _ _ _ _ HC).
    rewrite (pend_workers_eq c x s s' HL) by (intro n; apply HN).
    destruct (HN c) as [(E1&E2&E3&_) _]. rewrite E2, E3. apply HC0.
  - apply inv_rest_ninv in HR. destruct HR as [HL0 HR]. apply inv_rest_ninv. split; [congruence|].
    intro c. apply (ninv_frame nt s s' c ev); auto.
    + apply HN.
    + apply quiet_untouched, silent_quiet; auto.
Qed.

Definition wquiet (w : wstate) : bool := match w with WProc _ | WSend _ => false | _ => true end.

Lemma wquiet_wproc : forall w x, wquiet w = true -> wproc x w = 0.
Proof. intros [] x H; simpl in *; auto; discriminate. Qed.
Lemma wquiet_wpend : forall w c x, wquiet w = true -> wpend c x w = 0.
Proof. intros [] c x H; simpl in *; auto; discriminate. Qed.

Lemma neq2_refl : forall x, neq2 x x.
Proof. intros; split; [apply neq1_refl|auto]. Qed.

(* a node whose worker w moves between states that hold no item, whatever happens to once / closed *)
Lemma neq2_worker : forall x y w old st,
  nth_error (ws x) w = Some old -> wquiet old = true -> wquiet st = true ->
  q y = q x -> offered y = offered x -> dropped y = dropped x -> inflight y = inflight x ->
  c_recv y = c_recv x -> c_proc y = c_proc x -> c_filt y = c_filt x -> c_fail y = c_fail x -> c_disc y = c_disc x ->
  ws y = upd w st (ws x) -> neq2 x y.
Proof.
  intros x y w old st HW Q1 Q2 E1 E2 E3 E4 E5 E6 E7 E8 E9 EW.
  split; [repeat split; auto|].
  - rewrite EW; apply upd_length.
  - intro it. rewrite EW. pose proof (wprocsum_upd it x w old st HW).
    rewrite (wquiet_wproc _ _ Q1), (wquiet_wproc _ _ Q2) in H; lia.
  - intros c it. unfold wsum at 1. rewrite EW. pose proof (wsum_upd c it x w old st HW).
    rewrite (wquiet_wpend _ _ _ Q1), (wquiet_wpend _ _ _ Q2) in H; lia.
Qed.

Lemma neq2_same_but_closed : forall x y, same_but_closed x y -> neq2 x y.
Proof.
  intros x y (E1&E2&E3&E4&E5&E6&E7&E8&E9&E10&E11).
  split; [repeat split; auto; try (rewrite E2; auto)|]. intros; unfold wsum; rewrite E2; auto.
Qed.

(* state-level introduction rules *)
Lemma Qrel_nodes_same : forall s s' ev, nodes s' = nodes s -> cbs s' = cbs s ->
  (forall c x, pend_main c x s' = pend_main c x s) -> tr s' = ev ++ tr s -> forallb silent_ev ev = true -> Qrel s s'.
Proof.
  intros s s' ev HN HC HM HT HS. split; [rewrite HN; auto|]. split.
  - intro n; unfold node; rewrite HN; apply neq2_refl.
  - repeat split; auto. exists ev; auto.
Qed.

Lemma Qrel_node : forall s s' n y ev, nodes s' = upd n y (nodes s) -> neq2 (node s n) y -> cbs s' = cbs s ->
  mn s' = mn s -> tr s' = ev ++ tr s -> forallb silent_ev ev = true -> Qrel s s'.
Proof.
  intros s s' n y ev HN HY HC HM HT HS. split; [rewrite HN; apply upd_length|]. split.
  - intro m; unfold node; rewrite HN. destruct (Nat.eq_dec m n) as [->|Hm].
    + destruct (Nat.lt_ge_cases n (length (nodes s))) as [L|G].
      * rewrite nth_upd_same; auto.
      * rewrite upd_out; auto. apply neq2_refl.
    + rewrite nth_upd_other; auto. apply neq2_refl.
  - repeat split; auto.
    + intros; apply pend_main_eq; auto.
    + exists ev; auto.
Qed.

Lemma Qrel_close_all : forall s cs s', close_all s cs = Some s' -> Qrel s s'.
Proof.
  intros s cs s' H. apply close_all_frame in H. destruct H as (H1&H2&H3&H4&H5&H6&H7&H8&H9&H10&H11).
  split; auto. split; [intro n; apply neq2_same_but_closed; auto|].
  repeat split; auto.
  - intros; apply pend_main_eq; auto.
  - exists []; auto.
Qed.

(* ------------------------------------------------------------------ the quiet actions, one by one *)
Section QuietSteps.
Variables (nt : net) (T : nat).

Ltac qsame ev := apply (Qrel_nodes_same _ _ ev); try reflexivity.

Lemma step_SrcReturnNil_Q : forall s s', step nt T s SrcReturnNil = Ok s' -> Qrel s s'.
Proof.
  intros s s' H; unfold step in H. destruct (src s) eqn:E; inversion H; subst.
  qsame [TEnd k true].
Qed.

Lemma step_SrcReturnErr_Q : forall s s', step nt T s SrcReturnErr = Ok s' -> Qrel s s'.
Proof.
  intros s s' H; unfold step in H. destruct (src s) eqn:E; inversion H; subst.
  qsame [TEnd k false].
Qed.

Lemma step_SrcRestart_Q : forall s s', step nt T s SrcRestart = Ok s' -> Qrel s s'.
Proof.
  intros s s' H; unfold step in H. destruct (src s) eqn:E; inversion H; subst.
  qsame [TStart (S k); TPrep (S k)].
Qed.

Lemma step_SrcSetupFail_Q : forall s s', step nt T s SrcSetupFail = Ok s' -> Qrel s s'.
Proof.
  intros s s' H; unfold step in H. destruct (src s) eqn:E; inversion H; subst.
  qsame [TPrepFail (S k)].
Qed.

Lemma step_MainSeeClosed_Q : forall s s', step nt T s MainSeeClosed = Ok s' -> Qrel s s'.
Proof.
  intros s s' H; unfold step in H. destruct (mn s) eqn:E; try discriminate.
  destruct (src s) eqn:E2; inversion H; subst.
  qsame (@nil tev). intros; unfold pend_main; rewrite E; reflexivity.
Qed.

Lemma step_MainWgDone_Q : forall s s', step nt T s MainWgDone = Ok s' -> Qrel s s'.
Proof.
  intros s s' H; unfold step in H. destruct (mn s) eqn:E; try discriminate.
  destruct (all_exited s); inversion H; subst.
  qsame [TDone true]. intros; unfold pend_main; rewrite E; reflexivity.
Qed.

Lemma step_MainTimeout_Q : forall s s', step nt T s MainTimeout = Ok s' -> Qrel s s'.
Proof.
  intros s s' H; unfold step in H. destruct (mn s) eqn:E; try discriminate.
  destruct (wstart s + T <=? clock s); inversion H; subst.
  qsame [TDone false]. intros; unfold pend_main; rewrite E; reflexivity.
Qed.

Lemma step_Tick_Q : forall s s', step nt T s Tick = Ok s' -> Qrel s s'.
Proof.
  intros s s' H; unfold step in H. inversion H; subst.
  qsame (@nil tev).
Qed.

Lemma step_MainCloseRoots_count : forall s s', step nt T s MainCloseRoots = Ok s' -> inv_count nt s -> inv_count nt s'.
Proof.
  intros s s' H I; unfold step in H. destruct (mn s) eqn:E; try discriminate.
  destruct (close_all s (roots nt)) as [s1|] eqn:C; inversion H; subst.
  pose proof (close_all_frame _ _ _ C) as (F1&F2&F3&F4&F5&F6&F7&F8&F9&F10&F11).
  apply (count_Qrel nt s1); [|apply (count_Qrel nt s); auto; eapply Qrel_close_all; eauto].
  qsame (@nil tev). intros; unfold pend_main; simpl; rewrite F3, E; reflexivity.
Qed.

(* worker w of node n moves from [old] to [st]; y is the new node state *)
Ltac qworker n y ev old st HW :=
  apply (Qrel_node _ _ n y ev); try reflexivity;
  apply (neq2_worker _ _ _ old st HW); reflexivity.

Lemma step_SeeClosed_Q : forall s n w s', step nt T s (SeeClosed n w) = Ok s' -> Qrel s s'.
Proof.
  intros s n w s' H; unfold step in H.
  destruct (nth_error (ws (node s n)) w) as [[]|] eqn:HW; try discriminate.
  destruct (q (node s n)); try discriminate. destruct (closed (node s n)); inversion H; subst.
  qworker n (set_worker (node s n) w WSaw) (@nil tev) WIdle WSaw HW.
Qed.

Lemma step_LastOut_Q : forall s n w s', step nt T s (LastOut n w) = Ok s' -> Qrel s s'.
Proof.
  intros s n w s' H; unfold step in H.
  destruct (nth_error (ws (node s n)) w) as [[]|] eqn:HW; try discriminate.
  destruct (forallb wpast (ws (node s n))); inversion H; subst.
  qworker n (set_worker (node s n) w WWaited) (@nil tev) WSaw WWaited HW.
Qed.

Lemma step_OnceEnter_Q : forall s n w s', step nt T s (OnceEnter n w) = Ok s' -> Qrel s s'.
Proof.
  intros s n w s' H; unfold step in H.
  destruct (nth_error (ws (node s n)) w) as [[]|] eqn:HW; try discriminate.
  destruct (once (node s n)); inversion H; subst.
  qworker n (set_worker (set_once (node s n) ORunning) w WInShut) [TShutBegin n] WWaited WInShut HW.
Qed.

Lemma step_ShutdownReturn_Q : forall s n w s', step nt T s (ShutdownReturn n w) = Ok s' -> Qrel s s'.
Proof.
  intros s n w s' H; unfold step in H.
  destruct (nth_error (ws (node s n)) w) as [[]|] eqn:HW; try discriminate.
  destruct (inflight (node s n)); try discriminate.
  destruct (existsb (owns n) (cbs s)); inversion H; subst.
  qworker n (set_worker (node s n) w WClosing) [TShutEnd n] WInShut WClosing HW.
Qed.

Lemma step_OnceSkip_Q : forall s n w s', step nt T s (OnceSkip n w) = Ok s' -> Qrel s s'.
Proof.
  intros s n w s' H; unfold step in H.
  destruct (nth_error (ws (node s n)) w) as [[]|] eqn:HW; try discriminate.
  destruct (once (node s n)); inversion H; subst.
  qworker n (set_worker (node s n) w WExit) (@nil tev) WWaited WExit HW.
Qed.

Lemma step_CloseKids_count : forall s n w s', step nt T s (CloseKids n w) = Ok s' -> inv_count nt s -> inv_count nt s'.
Proof.
  intros s n w s' H I; unfold step in H.
  destruct (nth_error (ws (node s n)) w) as [[]|] eqn:HW; try discriminate.
  destruct (close_all s (targets (info nt n))) as [s1|] eqn:C; inversion H; subst.
  pose proof (close_all_frame _ _ _ C) as (F1&F2&F3&F4&F5&F6&F7&F8&F9&F10&F11).
  assert (HW1 : nth_error (ws (node s1 n)) w = Some WClosing).
  { destruct (F9 n) as (_&E&_). rewrite E; auto. }
  apply (count_Qrel nt s1); [|apply (count_Qrel nt s); auto; eapply Qrel_close_all; eauto].
  qworker n (set_worker (set_once (node s1 n) ODone) w WExit) (@nil tev) WClosing WExit HW1.
Qed.

End QuietSteps.
