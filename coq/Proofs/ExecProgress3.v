(* E1 — C03, liveness half, part 3: no livelock.
     [finishing_step]        EVERY finishing action (framework step, node returning 'filtered', Shutdown
                             returning), from ANY state, strictly decreases the measure [M];
     [finishing_run_bounded] so a run of finishing actions from s has at most [M s] steps;
     [maximal_run_clean]     and in a live net, once the source has stopped, a run of finishing actions that
                             cannot be extended has ended in a clean return of Execute.
   With [can_always_finish] (ExecProgress2.v): the shutdown cascade neither deadlocks nor livelocks — whatever
   enabled framework step the Go scheduler picks, after at most [M s] of them Execute has returned cleanly
   (provided the user nodes return from the calls they are in). *)
From Coq Require Import List ZArith Bool Arith Lia.
From FB Require Import Model.Exec Model.TraceSpec Model.ExecInv Proofs.ExecLifeBase Proofs.ExecLife
                       Proofs.ExecProgress Proofs.ExecProgress2.
From FB Require Proofs.ExecBase Proofs.ExecProps.
Import ListNotations.
Local Open Scope nat_scope.

Lemma flat_map_nil : forall A B (l : list A), flat_map (fun _ : A => @nil B) l = [].
Proof. induction l; cbn; auto. Qed.

Lemma cbM_pair : forall m l, cbM (m, l) = 4 * length l.
Proof. reflexivity. Qed.

Lemma M_set_node_le : forall s n x k, nodeM x <= nodeM (node s n) + k -> M (set_node s n x) <= M s + k.
Proof.
  intros s n x k H. destruct (Nat.lt_ge_cases n (length (nodes s))) as [Hn|Hn].
  - pose proof (M_set_node s n x Hn). lia.
  - unfold M. rewrite (ExecBase.nodes_set_node_out s n x Hn). cbn [set_node cbs mn]. lia.
Qed.

Lemma try_send_M : forall nt s c it s1, try_send nt s c it = Sent s1 -> M s1 <= M s + 3.
Proof.
  intros nt s c it s1 H. unfold try_send in H.
  destruct (closed (node s c)); try discriminate.
  destruct (length (q (node s c)) <? ncap (info nt c)).
  - injection H as <-. apply M_set_node_le. unfold nodeM. cbn [q inflight ws]. rewrite app_length. cbn [length]. lia.
  - destruct (ndisc (info nt c)); try discriminate. injection H as <-.
    apply M_set_node_le. unfold nodeM. cbn [q inflight ws]. lia.
Qed.

Lemma M_close_all : forall cs s s', close_all s cs = Some s' -> M s' = M s.
Proof.
  intros cs s s' H. destruct (M_nodes_close_all _ _ _ H) as (a & b & c & _). unfold M. rewrite a, b, c. reflexivity.
Qed.

Theorem finishing_step : forall nt T s a s', finishing a = true -> step nt T s a = Ok s' ->
  M s' < M s /\ src s' = src s /\ timedout s' = timedout s.
Proof.
  intros nt T s a s' Hf H.
  destruct a; try discriminate Hf; cbn [step] in H.
  - (* MainSend *)
    destruct (mn s) as [|it [|r rs]| | |] eqn:Em; try discriminate.
    destruct (try_send nt s r it) as [s1| |] eqn:E; try discriminate. injection H as <-.
    pose proof (try_send_M _ _ _ _ _ E) as HM1.
    pose proof (try_send_sent _ _ _ _ _ E) as (_ & _ & _ & _ & _ & Hmn & Hto & Hsrc).
    split; [|split; [exact Hsrc|exact Hto]].
    match goal with |- M (set_mn s1 ?x) < _ => pose proof (M_set_mn s1 x) as HC end.
    rewrite Hmn, Em in HC. destruct rs; cbn [mainM length] in HC; lia.
  - (* MainSeeClosed *)
    destruct (mn s) eqn:Em; try discriminate. destruct (src s) eqn:Es; try discriminate. injection H as <-.
    split; [|split; [cbn; congruence|reflexivity]].
    pose proof (M_set_mn s MCloseRoots) as HC. rewrite Em in HC. cbn [mainM] in HC. lia.
  - (* MainCloseRoots *)
    destruct (mn s) eqn:Em; try discriminate.
    destruct (close_all s (roots nt)) as [s1|] eqn:E; try discriminate. injection H as <-.
    destruct (M_nodes_close_all _ _ _ E) as (HN & HC & _ & Hsrc & Hto).
    split; [|split; [exact Hsrc|exact Hto]].
    unfold M. cbn [nodes cbs mn]. rewrite HN, HC, Em. cbn [mainM]. lia.
  - (* MainWgDone *)
    destruct (mn s) eqn:Em; try discriminate. destruct (all_exited s); try discriminate. injection H as <-.
    split; [|split; reflexivity]. rewrite M_log.
    pose proof (M_set_mn s MDone) as HC. rewrite Em in HC. cbn [mainM] in HC. lia.
  - (* Deq *)
    destruct (nth_error (ws (node s n)) w) as [[]|] eqn:Hg; try discriminate.
    destruct (q (node s n)) as [|it rest] eqn:Hq; try discriminate. injection H as <-.
    pose proof (node_ws_some_lt _ _ _ _ Hg) as Hn.
    split; [|split; reflexivity]. rewrite M_log.
    match goal with |- M (set_node s n ?x) < _ => pose proof (M_set_node s n x Hn) as HM;
      assert (Hx : nodeM x + 1 = nodeM (node s n)) end.
    { unfold nodeM. cbn [q inflight ws]. rewrite Hq. cbn [length].
      pose proof (wsum_upd _ _ _ (WProc it) Hg) as HW. cbn [wrank] in HW. lia. }
    lia.
  - (* Return *)
    destruct o as [[|e es]| |]; try discriminate Hf.
    destruct (nth_error (ws (node s n)) w) as [[]|] eqn:Hg; try discriminate.
    destruct (outcome_ok _ _ _); try discriminate. injection H as <-.
    pose proof (node_ws_some_lt _ _ _ _ Hg) as Hn.
    split; [|split; reflexivity]. rewrite M_log, flat_map_nil. cbn [after_deliveries].
    match goal with |- M (set_node s n (set_worker ?y w WIdle)) < _ =>
      pose proof (M_set_node s n (set_worker y w WIdle) Hn) as HM;
      assert (H' : nth_error (ws y) w = Some (WProc it)) by exact Hg;
      pose proof (nodeM_set_worker _ _ _ WIdle H') as HW;
      assert (Hy : nodeM y = nodeM (node s n)) by reflexivity
    end.
    cbn [wrank] in HW. lia.
  - (* SendW *)
    destruct (nth_error (ws (node s n)) w) as [[| |[|[c it] rest]| | | | |]|] eqn:Hg; try discriminate.
    destruct (try_send nt s c it) as [s1| |] eqn:E; try discriminate. injection H as <-.
    pose proof (try_send_M _ _ _ _ _ E) as HM1.
    pose proof (try_send_sent _ _ _ _ _ E) as (_ & Hsl & _ & _ & _ & _ & Hto & Hsrc).
    split; [|split; [exact Hsrc|exact Hto]].
    assert (H1 : nth_error (ws (node s1 n)) w = Some (WSend ((c, it) :: rest))).
    { destruct (Hsl n) as (a & _). rewrite a. exact Hg. }
    pose proof (M_worker s1 n w _ (after_deliveries rest) H1) as HW.
    rewrite wrank_after in HW. cbn [wrank length] in HW. lia.
  - (* SeeClosed *)
    destruct (nth_error (ws (node s n)) w) as [[]|] eqn:Hg; try discriminate.
    destruct (q (node s n)); try discriminate. destruct (closed (node s n)); try discriminate. injection H as <-.
    split; [|split; reflexivity].
    pose proof (M_worker s n w _ WSaw Hg) as HW. cbn [wrank] in HW. lia.
  - (* LastOut *)
    destruct (nth_error (ws (node s n)) w) as [[]|] eqn:Hg; try discriminate.
    destruct (forallb _ _); try discriminate. injection H as <-.
    split; [|split; reflexivity].
    pose proof (M_worker s n w _ WWaited Hg) as HW. cbn [wrank] in HW. lia.
  - (* OnceEnter *)
    destruct (nth_error (ws (node s n)) w) as [[]|] eqn:Hg; try discriminate.
    destruct (once (node s n)); try discriminate. injection H as <-.
    pose proof (node_ws_some_lt _ _ _ _ Hg) as Hn.
    split; [|split; reflexivity]. rewrite M_log.
    pose proof (M_set_node s n (set_worker (set_once (node s n) ORunning) w WInShut) Hn) as HM.
    assert (H' : nth_error (ws (set_once (node s n) ORunning)) w = Some WWaited) by exact Hg.
    pose proof (nodeM_set_worker _ _ _ WInShut H') as HW. rewrite nodeM_set_once in HW.
    cbn [wrank] in HW. lia.
  - (* ShutdownReturn *)
    destruct (nth_error (ws (node s n)) w) as [[]|] eqn:Hg; try discriminate.
    destruct (inflight (node s n)); try discriminate. destruct (existsb _ _); try discriminate. injection H as <-.
    split; [|split; reflexivity]. rewrite M_log.
    pose proof (M_worker s n w _ WClosing Hg) as HW. cbn [wrank] in HW. lia.
  - (* CloseKids *)
    destruct (nth_error (ws (node s n)) w) as [[]|] eqn:Hg; try discriminate.
    destruct (close_all s (targets (info nt n))) as [s1|] eqn:E; try discriminate. injection H as <-.
    pose proof (node_ws_some_lt _ _ _ _ Hg) as Hn.
    pose proof (M_close_all _ _ _ E) as HM1.
    destruct (M_nodes_close_all _ _ _ E) as (_ & _ & _ & Hsrc & Hto).
    pose proof (close_all_some _ _ _ E) as (_ & Hsb & _ & _ & _ & Hl1 & _).
    split; [|split; [exact Hsrc|exact Hto]].
    assert (Hn1 : n < length (nodes s1)) by (rewrite Hl1; exact Hn).
    pose proof (M_set_node s1 n (set_worker (set_once (node s1 n) ODone) w WExit) Hn1) as HM.
    assert (H' : nth_error (ws (set_once (node s1 n) ODone)) w = Some WClosing).
    { cbn [set_once ws]. destruct (Hsb n) as (a & _). rewrite a. exact Hg. }
    pose proof (nodeM_set_worker _ _ _ WExit H') as HW. rewrite nodeM_set_once in HW.
    cbn [wrank] in HW. lia.
  - (* OnceSkip *)
    destruct (nth_error (ws (node s n)) w) as [[]|] eqn:Hg; try discriminate.
    destruct (once (node s n)); try discriminate. injection H as <-.
    split; [|split; reflexivity].
    pose proof (M_worker s n w _ WExit Hg) as HW. cbn [wrank] in HW. lia.
  - (* Callback *)
    destruct o as [[|e es]| |]; try discriminate Hf.
    destruct (remove_one it (inflight (node s n))) as [rest|] eqn:Er; try discriminate.
    destruct (outcome_ok _ _ _); try discriminate. injection H as <-.
    assert (Hn : n < length (nodes s)).
    { apply node_inflight_lt. eapply remove_one_some_nonempty; eauto. }
    rewrite ?flat_map_nil, ?ExecProps.filtered_offers_nothing.
    split; [|split; reflexivity]. rewrite M_log.
    match goal with |- M (set_node s n ?x) < _ => pose proof (M_set_node s n x Hn) as HM;
      assert (Hx : nodeM x + 1 = nodeM (node s n)) end.
    { unfold nodeM. cbn [count_outcome q inflight ws].
      pose proof (ExecBase.length_remove_one _ _ _ Er). lia. }
    lia.
  - (* SendC *)
    destruct (nth_error (cbs s) i) as [[m [|[c it] rest]]|] eqn:Hi; try discriminate.
    destruct (try_send nt s c it) as [s1| |] eqn:E; try discriminate. injection H as <-.
    pose proof (try_send_M _ _ _ _ _ E) as HM1.
    pose proof (try_send_sent _ _ _ _ _ E) as (_ & _ & _ & _ & Hcb & _ & Hto & Hsrc).
    split; [|split; [exact Hsrc|exact Hto]].
    match goal with |- M (set_cbs s1 ?x) < _ => pose proof (M_set_cbs s1 x) as HC end.
    rewrite Hcb in HC |- *.
    destruct rest as [|d rest].
    + change (match cbs s with [] => [] | _ :: l => skipn i l end) with (skipn (S i) (cbs s)) in *.
      pose proof (ExecBase.sumf_remove _ cbM _ _ _ Hi) as HR. rewrite cbM_pair in HR. cbn [length] in HR. lia.
    + pose proof (ExecBase.sumf_upd _ cbM _ _ _ (m, d :: rest) Hi) as HR.
      rewrite !cbM_pair in HR. cbn [length] in HR. lia.
Qed.

(* ------------------------------------------------------------------ no livelock *)
Theorem finishing_run_bounded : forall nt T sch s s', forallb finishing sch = true -> run nt T s sch = Ok s' ->
  length sch + M s' <= M s /\ src s' = src s /\ timedout s' = timedout s.
Proof.
  induction sch as [|a sch IH]; intros s s' Hf H; cbn [run forallb length] in *.
  - injection H as <-. auto.
  - apply andb_true_iff in Hf. destruct Hf as [Ha Hs].
    destruct (step nt T s a) as [s1| |] eqn:E; try discriminate.
    destruct (finishing_step _ _ _ _ _ Ha E) as (HM & Hsrc & Hto).
    destruct (IH _ _ Hs H) as (HM' & Hsrc' & Hto'). repeat split; try congruence. lia.
Qed.

(* a run of finishing actions that cannot be extended by any finishing action has reached the clean end *)
Theorem maximal_run_clean : forall nt T s sch s',
  live_net nt -> reachable nt T s -> src s = SClosed -> timedout s = false ->
  forallb finishing sch = true -> run nt T s sch = Ok s' ->
  (forall a s'', finishing a = true -> step nt T s' a <> Ok s'') ->
  mn s' = MDone /\ timedout s' = false.
Proof.
  intros nt T s sch s' Hl Hr Hsrc Hto Hf Hrun Hmax.
  destruct (finishing_run_bounded _ _ _ _ _ Hf Hrun) as (_ & Hsrc' & Hto').
  split; [|congruence].
  assert (D : mn s' = MDone \/ mn s' <> MDone) by (destruct (mn s'); auto; right; discriminate).
  destruct D as [Hd|Hnd]; auto. exfalso.
  assert (Hr' : reachable nt T s') by (eapply reachable_run; eauto).
  destruct (progress nt T s' Hl Hr') as (a & s'' & Ha & Hs & _); auto; try congruence.
  apply (Hmax a s'' Ha Hs).
Qed.

(* the two together: every run of finishing actions from s is a prefix of one that ends in the clean return
   of Execute, and none is longer than [M s] *)
Theorem every_finishing_run_extends_to_clean_end : forall nt T s sch s1,
  live_net nt -> reachable nt T s -> src s = SClosed -> timedout s = false ->
  forallb finishing sch = true -> run nt T s sch = Ok s1 ->
  length sch <= M s
  /\ exists sch' s', forallb finishing sch' = true /\ run nt T s (sch ++ sch') = Ok s'
                     /\ mn s' = MDone /\ timedout s' = false /\ length (sch ++ sch') <= M s.
Proof.
  intros nt T s sch s1 Hl Hr Hsrc Hto Hf Hrun.
  destruct (finishing_run_bounded _ _ _ _ _ Hf Hrun) as (HM & Hsrc' & Hto').
  split; [lia|].
  assert (Hr1 : reachable nt T s1) by (eapply reachable_run; eauto).
  destruct (can_always_finish nt T s1 Hl Hr1) as (sch' & s' & Hf' & Hrun' & Hd & Ht); try congruence.
  exists sch', s'. repeat split; auto.
  - rewrite run_app, Hrun. exact Hrun'.
  - destruct (finishing_run_bounded _ _ _ _ _ Hf' Hrun') as (HM' & _). rewrite app_length. lia.
Qed.

Print Assumptions finishing_step.
Print Assumptions maximal_run_clean.
Print Assumptions every_finishing_run_extends_to_clean_end.
