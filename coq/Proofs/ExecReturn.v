(* E1 — Execute returns only after a source incarnation returned nil from Start().
   In the executor model ([Model/Exec.v]) the main goroutine leaves its select loop only by [MainSeeClosed],
   which needs [src = SClosed]; [SClosed] is set only by [SrcReturnNil], which stamps [TEnd k true]; and
   [TDone] is stamped only by the two steps that set [mn = MDone].  Hence a run whose source ended with an
   error never just ends: the source is restarted ([SrcRestart]), or the process dies ([SrcSetupFail], after
   which the main goroutine can never get past its select), but Execute does not return.

   No hypothesis on the network is needed (no [wf_net]): the proof is a fresh induction over [reachable],
   independent of [Proofs/ExecLink.inv_link] (whose conjuncts [k_main], [k_done], [k_nil] say the same under
   [wf_net nt = true]). *)
From Coq Require Import List ZArith Bool Arith Lia.
From FB Require Import Lib.Sexp Model.Exec Model.TraceSpec Model.ExecInv Model.Settle.
From FB Require Import Proofs.ExecMain.
Import ListNotations.
Local Open Scope nat_scope.

(* ------------------------------------------------------------------ phases of the main goroutine *)
(* the main goroutine has left the select loop *)
Definition late (m : mstate) : bool :=
  match m with MCloseRoots | MWait | MDone => true | _ => false end.

Lemma late_spec (m : mstate) (P : Prop) :
  (match m with MCloseRoots | MWait | MDone => P | _ => True end) <-> (late m = true -> P).
Proof. destruct m; cbn; split; intros; auto; discriminate. Qed.

Lemma any_nil_end_app a b : any_nil_end (a ++ b) = any_nil_end a || any_nil_end b.
Proof. unfold any_nil_end, has. apply existsb_app. Qed.

Lemma any_nil_end_In p : any_nil_end p = true <-> exists k, In (TEnd k true) p.
Proof.
  unfold any_nil_end, has. rewrite existsb_exists. split.
  - intros (e & Hin & He). destruct e as [| | |k [|]| | | | | | | |]; try discriminate. exists k. exact Hin.
  - intros (k & Hin). exists (TEnd k true). split; [exact Hin|reflexivity].
Qed.

(* ------------------------------------------------------------------ what one step does to mn / src / the trace *)
(* the five facts about a step from which the invariant follows:
     - the main goroutine gets past its select only if it was past it already or the source is closed;
     - a closed source stays closed;
     - the source becomes closed only while stamping a nil end;
     - TDone is stamped only by a step that ends in MDone;
     - MDone is final. *)
Definition step_facts (s s' : state) (evs : list tev) : Prop :=
  tr s' = evs ++ tr s
  /\ (late (mn s') = true -> late (mn s) = true \/ src s = SClosed)
  /\ (src s = SClosed -> src s' = SClosed)
  /\ (src s' = SClosed -> src s = SClosed \/ any_nil_end evs = true)
  /\ (forall c, In (TDone c) evs -> mn s' = MDone)
  /\ (mn s = MDone -> mn s' = MDone).

(* a step that leaves mn and src alone and stamps neither TDone nor a nil end *)
Lemma facts_frame s s' evs :
  tr s' = evs ++ tr s -> mn s' = mn s -> src s' = src s ->
  (forall c, ~ In (TDone c) evs) -> step_facts s s' evs.
Proof.
  intros Ht Hm Hs Hd. unfold step_facts. rewrite Hm, Hs. repeat split; auto.
  intros c Hin. destruct (Hd c Hin).
Qed.

Ltac one_ev := intros c Hin; cbn in Hin; destruct Hin as [Hin|[]]; discriminate.
Ltac no_ev := intros c Hin; destruct Hin.

(* --- the source and its supervisor *)
Lemma facts_src nt tmo s a s' :
  src_action a = true -> step nt tmo s a = Ok s' -> exists evs, step_facts s s' evs.
Proof.
  intros Ha H. destruct a; try discriminate; cbn [step] in H;
    destruct (src s) as [k|k| |] eqn:Es; try discriminate; inversion H; subst; clear H.
  - (* SrcReturnNil *) exists [TEnd k true]. unfold step_facts; cbn. rewrite Es. repeat split; auto.
    intros c [Hin|[]]; discriminate.
  - (* SrcReturnErr *) exists [TEnd k false]. unfold step_facts; cbn. rewrite Es. repeat split; auto; try discriminate.
    intros c [Hin|[]]; discriminate.
  - (* SrcRestart *) exists [TStart (S k); TPrep (S k)]. unfold step_facts; cbn. rewrite Es.
    repeat split; auto; try discriminate. intros c [Hin|[Hin|[]]]; discriminate.
  - (* SrcSetupFail *) exists [TPrepFail (S k)]. unfold step_facts; cbn. rewrite Es.
    repeat split; auto; try discriminate. intros c [Hin|[]]; discriminate.
Qed.

(* --- the main goroutine and the clock *)
Lemma facts_emit nt tmo s e s' : step nt tmo s (SrcEmit e) = Ok s' -> exists evs, step_facts s s' evs.
Proof.
  cbn [step]. intros H. destruct (src s) as [k|k| |] eqn:Es; try discriminate.
  destruct (mn s) eqn:Em; try discriminate. inversion H; subst; clear H.
  exists [TEmit e]. unfold step_facts; cbn. rewrite Es, Em. repeat split; auto; try discriminate.
  - destruct (roots nt); cbn; discriminate.
  - intros c [Hin|[]]; discriminate.
Qed.

Lemma facts_main_send nt tmo s s' : step nt tmo s MainSend = Ok s' -> exists evs, step_facts s s' evs.
Proof.
  cbn [step]. intros H. destruct (mn s) as [| it rs | | |] eqn:Em; try discriminate.
  destruct rs as [|r rs]; [discriminate|].
  destruct (try_send nt s r it) as [s1| |] eqn:Et; try discriminate.
  apply try_send_frame in Et as (Ht & Hs & _). inversion H; subst; clear H.
  exists []. unfold step_facts; cbn. rewrite Ht, Hs, Em. repeat split; auto; try discriminate.
  - destruct rs; cbn; discriminate.
  - no_ev.
Qed.

Lemma facts_see_closed nt tmo s s' : step nt tmo s MainSeeClosed = Ok s' -> exists evs, step_facts s s' evs.
Proof.
  cbn [step]. intros H. destruct (mn s) eqn:Em; try discriminate. destruct (src s) eqn:Es; try discriminate.
  inversion H; subst; clear H. exists []. unfold step_facts; cbn. rewrite Es, Em.
  repeat split; auto; try discriminate. all: try no_ev.
Qed.

Lemma facts_close_roots nt tmo s s' : step nt tmo s MainCloseRoots = Ok s' -> exists evs, step_facts s s' evs.
Proof.
  cbn [step]. intros H. destruct (mn s) eqn:Em; try discriminate.
  destruct (close_all s (roots nt)) as [s1|] eqn:Ec; [|discriminate].
  apply close_all_frame in Ec as (Ht & Hs & _). inversion H; subst; clear H.
  exists []. unfold step_facts; cbn. rewrite Ht, Hs, Em. repeat split; auto; try discriminate. all: try no_ev.
Qed.

Lemma facts_wg_done nt tmo s s' : step nt tmo s MainWgDone = Ok s' -> exists evs, step_facts s s' evs.
Proof.
  cbn [step]. intros H. destruct (mn s) eqn:Em; try discriminate. destruct (all_exited s); [|discriminate].
  inversion H; subst; clear H. exists [TDone true]. unfold step_facts; cbn. rewrite Em. repeat split; auto.
Qed.

Lemma facts_timeout nt tmo s s' : step nt tmo s MainTimeout = Ok s' -> exists evs, step_facts s s' evs.
Proof.
  cbn [step]. intros H. destruct (mn s) eqn:Em; try discriminate.
  destruct (wstart s + tmo <=? clock s); [|discriminate].
  inversion H; subst; clear H. exists [TDone false]. unfold step_facts; cbn. rewrite Em. repeat split; auto.
Qed.

Lemma facts_tick nt tmo s s' : step nt tmo s Tick = Ok s' -> exists evs, step_facts s s' evs.
Proof.
  cbn [step]. intros H. inversion H; subst; clear H. exists []. apply facts_frame; auto; try no_ev.
Qed.

(* --- the workers of the nodes *)
Lemma facts_worker nt tmo s a s' :
  match a with
  | Deq _ _ | Return _ _ _ | SendW _ _ | SeeClosed _ _ | LastOut _ _ | OnceEnter _ _ | ShutdownReturn _ _
  | CloseKids _ _ | OnceSkip _ _ => True
  | _ => False
  end ->
  step nt tmo s a = Ok s' -> exists evs, step_facts s s' evs.
Proof.
  intros Ha H. destruct a; try contradiction; clear Ha; cbn [step] in H.
  - (* Deq *) destruct (nth_error (ws (node s n)) w) as [[]|]; try discriminate.
    destruct (q (node s n)) as [|it rest]; [discriminate|]. inversion H; subst; clear H.
    exists [TEnter n it]. apply facts_frame; auto; try one_ev.
  - (* Return *) destruct (nth_error (ws (node s n)) w) as [[| it | | | | | |]|]; try discriminate.
    destruct (outcome_ok (nkind (info nt n)) o false); [|discriminate].
    exists [TRet n it o]. destruct o; inversion H; subst; clear H; apply facts_frame; auto; one_ev.
  - (* SendW *) destruct (nth_error (ws (node s n)) w) as [[| |pend| | | | |]|]; try discriminate.
    destruct pend as [|[c it] rest]; [discriminate|].
    destruct (try_send nt s c it) as [s1| |] eqn:Et; try discriminate.
    apply try_send_frame in Et as (Ht & Hs & Hm & _). inversion H; subst; clear H.
    exists []. apply facts_frame; auto; try no_ev.
  - (* SeeClosed *) destruct (nth_error (ws (node s n)) w) as [[]|]; try discriminate.
    destruct (q (node s n)); [|discriminate]. destruct (closed (node s n)); [|discriminate].
    inversion H; subst; clear H. exists []. apply facts_frame; auto; try no_ev.
  - (* LastOut *) destruct (nth_error (ws (node s n)) w) as [[]|]; try discriminate.
    destruct (forallb wpast (ws (node s n))); [|discriminate].
    inversion H; subst; clear H. exists []. apply facts_frame; auto; try no_ev.
  - (* OnceEnter *) destruct (nth_error (ws (node s n)) w) as [[]|]; try discriminate.
    destruct (once (node s n)); try discriminate.
    inversion H; subst; clear H. exists [TShutBegin n]. apply facts_frame; auto; try one_ev.
  - (* ShutdownReturn *) destruct (nth_error (ws (node s n)) w) as [[]|]; try discriminate.
    destruct (inflight (node s n)); [|discriminate]. destruct (existsb (owns n) (cbs s)); [discriminate|].
    inversion H; subst; clear H. exists [TShutEnd n]. apply facts_frame; auto; try one_ev.
  - (* CloseKids *) destruct (nth_error (ws (node s n)) w) as [[]|]; try discriminate.
    destruct (close_all s (targets (info nt n))) as [s1|] eqn:Ec; [|discriminate].
    apply close_all_frame in Ec as (Ht & Hs & Hm & _). inversion H; subst; clear H.
    exists []. apply facts_frame; auto; try no_ev.
  - (* OnceSkip *) destruct (nth_error (ws (node s n)) w) as [[]|]; try discriminate.
    destruct (once (node s n)); try discriminate.
    inversion H; subst; clear H. exists []. apply facts_frame; auto; try no_ev.
Qed.

(* --- the foreign goroutines of the async callbacks *)
Lemma facts_callback nt tmo s n it o s' :
  step nt tmo s (Callback n it o) = Ok s' -> exists evs, step_facts s s' evs.
Proof.
  cbn [step]. intros H. destruct (remove_one it (inflight (node s n))); [|discriminate].
  destruct (outcome_ok (nkind (info nt n)) o true); [|discriminate].
  inversion H; subst; clear H. exists [TCb n it o].
  destruct (deliveries nt n it o); apply facts_frame; auto; one_ev.
Qed.

Lemma facts_send_c nt tmo s i s' : step nt tmo s (SendC i) = Ok s' -> exists evs, step_facts s s' evs.
Proof.
  cbn [step]. intros H. destruct (nth_error (cbs s) i) as [[n pend]|]; try discriminate.
  destruct pend as [|[c it] rest]; [discriminate|].
  destruct (try_send nt s c it) as [s1| |] eqn:Et; try discriminate.
  apply try_send_frame in Et as (Ht & Hs & Hm & _). inversion H; subst; clear H.
  exists []. apply facts_frame; auto; try no_ev.
Qed.

(* --- every action *)
Lemma step_has_facts nt tmo s a s' : step nt tmo s a = Ok s' -> exists evs, step_facts s s' evs.
Proof.
  intros H. destruct a.
  - eapply facts_emit; eassumption.
  - eapply facts_src; [|eassumption]; reflexivity.
  - eapply facts_src; [|eassumption]; reflexivity.
  - eapply facts_src; [|eassumption]; reflexivity.
  - eapply facts_main_send; eassumption.
  - eapply facts_see_closed; eassumption.
  - eapply facts_close_roots; eassumption.
  - eapply facts_wg_done; eassumption.
  - eapply facts_timeout; eassumption.
  - eapply facts_tick; eassumption.
  - eapply facts_worker; [|eassumption]; exact I.
  - eapply facts_worker; [|eassumption]; exact I.
  - eapply facts_worker; [|eassumption]; exact I.
  - eapply facts_worker; [|eassumption]; exact I.
  - eapply facts_worker; [|eassumption]; exact I.
  - eapply facts_worker; [|eassumption]; exact I.
  - eapply facts_worker; [|eassumption]; exact I.
  - eapply facts_worker; [|eassumption]; exact I.
  - eapply facts_worker; [|eassumption]; exact I.
  - eapply facts_callback; eassumption.
  - eapply facts_send_c; eassumption.
  - eapply facts_src; [|eassumption]; reflexivity.
Qed.

(* ------------------------------------------------------------------ the invariant *)
Definition ret_inv (s : state) : Prop :=
  (late (mn s) = true -> src s = SClosed)
  /\ (forall c, In (TDone c) (tr s) -> mn s = MDone)
  /\ (src s = SClosed -> any_nil_end (tr s) = true).

Lemma ret_inv_init nt : ret_inv (init nt).
Proof.
  unfold ret_inv, init; cbn [mn src tr late]. repeat split; try discriminate.
  intros c [Hin|Hin]; [discriminate|]. apply in_app_or in Hin as [Hin|[Hin|[]]]; [|discriminate].
  apply in_rev, in_map_iff in Hin as (x & Hx & _). discriminate.
Qed.

Lemma ret_inv_step nt tmo s a s' : ret_inv s -> step nt tmo s a = Ok s' -> ret_inv s'.
Proof.
  intros (I1 & I2 & I3) H.
  destruct (step_has_facts nt tmo s a s' H) as (evs & Ht & F1 & F2 & F3 & F4 & F5).
  unfold ret_inv. rewrite Ht. repeat split.
  - intros Hl. destruct (F1 Hl) as [Hl0|Hc]; auto.
  - intros c Hin. apply in_app_or in Hin as [Hin|Hin]; [eapply F4; exact Hin|]. apply F5. eapply I2; exact Hin.
  - intros Hc. rewrite any_nil_end_app. destruct (F3 Hc) as [Hc0|He].
    + rewrite (I3 Hc0). apply orb_true_r.
    + rewrite He. reflexivity.
Qed.

Lemma ret_inv_reachable nt tmo s : reachable nt tmo s -> ret_inv s.
Proof.
  intros [sch Hr]. eapply run_inv_gen; [|apply (ret_inv_init nt)|exact Hr].
  intros; eapply ret_inv_step; eassumption.
Qed.

(* ------------------------------------------------------------------ the theorems *)
Theorem returned_needs_nil_end : forall nt tmo s, reachable nt tmo s ->
  (match mn s with MCloseRoots | MWait | MDone => src s = SClosed | _ => True end)
  /\ (forall c, In (TDone c) (tr s) -> mn s = MDone)
  /\ (src s = SClosed -> any_nil_end (tr s) = true).
Proof.
  intros nt tmo s Hr. destruct (ret_inv_reachable nt tmo s Hr) as (I1 & I2 & I3).
  split; [apply late_spec; exact I1|]. split; assumption.
Qed.

Corollary done_in_trace_needs_nil_end : forall nt tmo s c, reachable nt tmo s ->
  In (TDone c) (tr s) -> any_nil_end (tr s) = true.
Proof.
  intros nt tmo s c Hr Hin. destruct (returned_needs_nil_end nt tmo s Hr) as (H1 & H2 & H3).
  apply H3. rewrite (H2 c Hin) in H1. exact H1.
Qed.

(* the same on the quiescent snapshot the lockstep driver compares: Execute returned => the source shows as
   ended by nil *)
Corollary returned_snapshot_src_closed : forall nt tmo s, reachable nt tmo s ->
  main_code s <> 0%Z -> src_code s = T [L 2; L 0]%Z.
Proof.
  intros nt tmo s Hr Hm. destruct (returned_needs_nil_end nt tmo s Hr) as (H1 & _).
  unfold main_code in Hm. unfold src_code.
  destruct (mn s); try (exfalso; apply Hm; reflexivity). rewrite H1. reflexivity.
Qed.

(* in words of the trace alone: a TDone is preceded (further down the newest-first trace, or anywhere: there
   is only one) by the nil end of some incarnation *)
Corollary done_in_trace_has_nil_end_event : forall nt tmo s c, reachable nt tmo s ->
  In (TDone c) (tr s) -> exists k, In (TEnd k true) (tr s).
Proof.
  intros nt tmo s c Hr Hin. apply any_nil_end_In. eapply done_in_trace_needs_nil_end; eassumption.
Qed.

(* after an error return (sleeping), after the restart (running) and after a failed Setup (dead) alike:
   Execute has not returned and cannot be past its select loop *)
Corollary not_closed_not_returned : forall nt tmo s, reachable nt tmo s ->
  src s <> SClosed -> late (mn s) = false /\ main_code s = 0%Z /\ is_done (tr s) = false.
Proof.
  intros nt tmo s Hr Hs. destruct (ret_inv_reachable nt tmo s Hr) as (I1 & I2 & _).
  assert (Hl : late (mn s) = false) by (destruct (late (mn s)); auto; exfalso; auto).
  split; [exact Hl|]. split.
  - unfold main_code. destruct (mn s); try reflexivity. discriminate.
  - destruct (is_done (tr s)) eqn:E; auto. unfold is_done, has in E.
    apply existsb_exists in E as (e & Hin & He). destruct e; try discriminate.
    rewrite (I2 _ Hin) in Hl. discriminate.
Qed.

(* ------------------------------------------------------------------ non-vacuity *)
(* one root, one worker.  Incarnation 0 emits one event and ends with an error; it is restarted; incarnation 1
   returns nil; only then the main goroutine leaves its loop, the root shuts down and Execute returns. *)
Definition rt_net : net := f9_net.
Definition rt_sch : list action :=
  [ SrcEmit 1%Z; MainSend; Deq 0 0; Return 0 0 (ORes []);
    SrcReturnErr; SrcRestart; SrcReturnNil; MainSeeClosed; MainCloseRoots;
    SeeClosed 0 0; LastOut 0 0; OnceEnter 0 0; ShutdownReturn 0 0; CloseKids 0 0; MainWgDone ].
Definition rt_s : state := match run rt_net 1 (init rt_net) rt_sch with Ok s => s | _ => init rt_net end.

Example rt_run : run rt_net 1 (init rt_net) rt_sch = Ok rt_s.
Proof. vm_compute. reflexivity. Qed.
Example rt_reachable : reachable rt_net 1 rt_s.
Proof. exists rt_sch. exact rt_run. Qed.
Example rt_end :
  mn rt_s = MDone /\ src rt_s = SClosed /\ main_code rt_s = 1%Z /\ src_code rt_s = T [L 2; L 0]%Z
  /\ In (TDone true) (tr rt_s) /\ any_nil_end (tr rt_s) = true
  /\ tr rt_s = [TDone true; TShutEnd 0; TShutBegin 0; TEnd 1 true; TStart 1; TPrep 1; TEnd 0 false;
                TRet 0 (1, 0)%Z (ORes []); TEnter 0 (1, 0)%Z; TEmit 1%Z; TStart 0; TSetup 0; TPrep 0].
Proof. vm_compute. repeat split; auto. Qed.
(* ... and as instances of the theorems *)
Example rt_thm : any_nil_end (tr rt_s) = true /\ src_code rt_s = T [L 2; L 0]%Z.
Proof.
  split.
  - apply (done_in_trace_needs_nil_end rt_net 1 rt_s true rt_reachable). vm_compute. auto.
  - apply (returned_snapshot_src_closed rt_net 1 rt_s rt_reachable). vm_compute. discriminate.
Qed.

(* while the failed incarnation sleeps, the main goroutine cannot see a closed source channel: the step by
   which it would leave its loop is not enabled (and neither is any step of waitTimeout) *)
Definition rt_err_sch : list action := [SrcEmit 1%Z; MainSend; Deq 0 0; Return 0 0 (ORes []); SrcReturnErr].
Example rt_after_error_main_stays :
  exists s, run rt_net 1 (init rt_net) rt_err_sch = Ok s /\ src s = SSleeping 0
    /\ step rt_net 1 s MainSeeClosed = NotEnabled /\ step rt_net 1 s MainCloseRoots = NotEnabled
    /\ step rt_net 1 s MainWgDone = NotEnabled /\ step rt_net 1 s MainTimeout = NotEnabled
    /\ exists s1, step rt_net 1 s SrcRestart = Ok s1 /\ src s1 = SRunning 1.
Proof.
  eexists. split; [vm_compute; reflexivity|]. repeat split. eexists. split; [vm_compute; reflexivity|reflexivity].
Qed.

(* the same with the ready-made run of Proofs/ExecFinal.v is not repeated here: that file depends on the whole
   counting development; [rt_net] needs nothing but the model. *)

(* ------------------------------------------------------------------ the wrong behaviour is recognisable *)
(* "Execute returned right after the source ended with an error": no nil end in the trace ... *)
Definition bad_trace : list tev := [TDone true; TEnd 0 false; TStart 0; TPrep 0].
Example returned_after_error_has_no_nil_end : any_nil_end bad_trace = false.
Proof. vm_compute. reflexivity. Qed.
(* ... hence it is the trace of no reachable state of the model, for any network and any timeout *)
Example returned_after_error_is_no_model_trace : forall nt tmo s, reachable nt tmo s -> tr s <> bad_trace.
Proof.
  intros nt tmo s Hr Ht.
  assert (H : any_nil_end (tr s) = true).
  { apply (done_in_trace_needs_nil_end nt tmo s true Hr). rewrite Ht. left. reflexivity. }
  rewrite Ht in H. vm_compute in H. discriminate.
Qed.
(* the same for the snapshot: "main returned (code 1) while the source shows as sleeping after an error" *)
Example returned_while_sleeping_is_no_model_state : forall nt tmo s k, reachable nt tmo s ->
  main_code s = 1%Z -> src_code s <> T [L 1; ofNat k]%Z.
Proof.
  intros nt tmo s k Hr Hm He.
  rewrite (returned_snapshot_src_closed nt tmo s Hr) in He; [discriminate|]. rewrite Hm. discriminate.
Qed.

Print Assumptions returned_needs_nil_end.
Print Assumptions done_in_trace_needs_nil_end.
Print Assumptions returned_snapshot_src_closed.
Print Assumptions done_in_trace_has_nil_end_event.
Print Assumptions not_closed_not_returned.
Print Assumptions returned_after_error_is_no_model_trace.
