(* E1 — the link between the observable trace and the state of the executor model: [inv_link nt s],
   proved for every reachable state of a well-formed net ([link_reachable]).  With it the per-event
   clauses of [trace_ok] follow from the state at the moment the event is logged (Proofs/ExecSpec.v).
   First part: [step_fp], the complete footprint of a step (guard, events, main, source, once,
   closing workers, closed channels). *)
From Coq Require Import List ZArith Bool Arith Lia.
From FB Require Import Model.Exec Model.TraceSpec Model.ExecInv.
From FB Require Proofs.ExecBase Proofs.ExecCount Proofs.ExecMain.
From FB Require Import Proofs.ExecLifeBase Proofs.ExecLife.
Import ListNotations.
Local Open Scope nat_scope.

(* ------------------------------------------------------------------ footprint of a step *)
(* what a step prepends to the trace *)
Definition evs (nt : net) (s : state) (a : action) : list tev :=
  match a with
  | SrcEmit e => [TEmit e]
  | SrcReturnNil => match src s with SRunning k => [TEnd k true] | _ => [] end
  | SrcReturnErr => match src s with SRunning k => [TEnd k false] | _ => [] end
  | SrcRestart => match src s with SSleeping k => [TStart (S k); TPrep (S k)] | _ => [] end
  | MainWgDone => [TDone true]
  | MainTimeout => [TDone false]
  | Deq n w => match q (node s n) with it :: _ => [TEnter n it] | [] => [] end
  | Return n w o => match nth_error (ws (node s n)) w with Some (WProc it) => [TRet n it o] | _ => [] end
  | OnceEnter n w => [TShutBegin n]
  | ShutdownReturn n w => [TShutEnd n]
  | Callback n it o => [TCb n it o]
  | _ => []
  end.

Definition mn_after (nt : net) (s : state) (a : action) : mstate :=
  match a with
  | SrcEmit e => match roots nt with [] => MSelect | rs => MDeliver (e, 0%Z) rs end
  | MainSend => match mn s with
                | MDeliver it (_ :: rs) => match rs with [] => MSelect | _ => MDeliver it rs end
                | m => m
                end
  | MainSeeClosed => MCloseRoots
  | MainCloseRoots => MWait
  | MainWgDone | MainTimeout => MDone
  | _ => mn s
  end.

Definition src_after (s : state) (a : action) : sstate :=
  match a with
  | SrcReturnNil => SClosed
  | SrcReturnErr => match src s with SRunning k => SSleeping k | x => x end
  | SrcRestart => match src s with SSleeping k => SRunning (S k) | x => x end
  | _ => src s
  end.

Definition once_after (s : state) (a : action) (m : nat) : ostate :=
  match a with
  | OnceEnter n _ => if m =? n then ORunning else once (node s m)
  | CloseKids n _ => if m =? n then ODone else once (node s m)
  | _ => once (node s m)
  end.

(* is some worker of m between ShutdownReturn and CloseKids *)
Definition closing_after (s : state) (a : action) (m : nat) : bool :=
  match a with
  | ShutdownReturn n _ => (m =? n) || existsb isclosing (ws (node s m))
  | CloseKids n w => if m =? n then existsb isclosing (upd w WExit (ws (node s n)))
                     else existsb isclosing (ws (node s m))
  | _ => existsb isclosing (ws (node s m))
  end.

Definition closes (nt : net) (a : action) (m : nat) : Prop :=
  match a with
  | MainCloseRoots => In m (roots nt)
  | CloseKids n _ => In m (targets (info nt n))
  | _ => False
  end.

(* the enabling condition of an action *)
Definition guard (nt : net) (s : state) (a : action) : Prop :=
  match a with
  | SrcEmit _ => (exists k, src s = SRunning k) /\ mn s = MSelect
  | SrcReturnNil | SrcReturnErr => exists k, src s = SRunning k
  | SrcRestart => exists k, src s = SSleeping k
  | MainSend => exists it r rs, mn s = MDeliver it (r :: rs)
  | MainSeeClosed => mn s = MSelect /\ src s = SClosed
  | MainCloseRoots => mn s = MCloseRoots
  | MainWgDone => mn s = MWait /\ all_exited s = true
  | MainTimeout => mn s = MWait
  | Tick => True
  | Deq n w => nth_error (ws (node s n)) w = Some WIdle /\ q (node s n) <> []
  | Return n w o => exists it, nth_error (ws (node s n)) w = Some (WProc it)
  | SendW n w => exists p, nth_error (ws (node s n)) w = Some (WSend p)
  | SeeClosed n w => nth_error (ws (node s n)) w = Some WIdle /\ q (node s n) = [] /\ closed (node s n) = true
  | LastOut n w => nth_error (ws (node s n)) w = Some WSaw /\ forallb wpast (ws (node s n)) = true
  | OnceEnter n w => nth_error (ws (node s n)) w = Some WWaited /\ once (node s n) = ONone
  | ShutdownReturn n w => nth_error (ws (node s n)) w = Some WInShut
  | CloseKids n w => nth_error (ws (node s n)) w = Some WClosing
  | OnceSkip n w => nth_error (ws (node s n)) w = Some WWaited /\ once (node s n) = ODone
  | Callback n it o => exists rest, remove_one it (inflight (node s n)) = Some rest
  | SendC i => True
  end.

Record footprint (nt : net) (s : state) (a : action) (s' : state) : Prop := {
  fp_guard : guard nt s a;
  fp_tr : tr s' = evs nt s a ++ tr s;
  fp_mn : mn s' = mn_after nt s a;
  fp_src : src s' = src_after s a;
  fp_once : forall m, once (node s' m) = once_after s a m;
  fp_closing : forall m, existsb isclosing (ws (node s' m)) = closing_after s a m;
  fp_closed : forall m, closed (node s' m) = true -> closed (node s m) = true \/ closes nt a m
}.

Lemma node_set_node_if : forall s n x m, n < length (nodes s) ->
  node (set_node s n x) m = if m =? n then x else node s m.
Proof.
  intros. destruct (Nat.eqb_spec m n) as [->|Hne].
  - apply node_set_node_eq; auto.
  - apply node_set_node_neq; congruence.
Qed.

Lemma existsb_upd_same : forall A (f : A -> bool) i x l a, nth_error l i = Some a -> f a = f x ->
  existsb f (upd i x l) = existsb f l.
Proof.
  induction i; intros x l a H E; destruct l as [|b l]; cbn in *; try discriminate.
  - inversion H; subst. rewrite E. reflexivity.
  - rewrite (IHi x l a H E). reflexivity.
Qed.

Lemma existsb_upd_true : forall A (f : A -> bool) i x l a, nth_error l i = Some a -> f x = true ->
  existsb f (upd i x l) = true.
Proof.
  induction i; intros x l a H E; destruct l as [|b l]; cbn in *; try discriminate.
  - rewrite E. reflexivity.
  - rewrite (IHi x l a H E). apply orb_true_r.
Qed.

(* a worker of node n moves from st0 to st (neither is WClosing); nothing else of interest changes *)
Lemma fp_worker_local : forall s n x' m w st0 st,
  nth_error (ws (node s n)) w = Some st0 ->
  ws x' = upd w st (ws (node s n)) -> isclosing st0 = isclosing st ->
  once x' = once (node s n) -> closed x' = closed (node s n) ->
  once (node (set_node s n x') m) = once (node s m)
  /\ existsb isclosing (ws (node (set_node s n x') m)) = existsb isclosing (ws (node s m))
  /\ closed (node (set_node s n x') m) = closed (node s m).
Proof.
  intros s n x' m w st0 st Hg Hw Hc Ho Hcl.
  pose proof (node_ws_some_lt _ _ _ _ Hg) as Hn.
  rewrite node_set_node_if by assumption.
  destruct (Nat.eqb_spec m n) as [->|Hne]; auto.
  rewrite Hw, Ho, Hcl. repeat split; auto. eapply existsb_upd_same; eauto.
Qed.

Ltac fp_local Hg :=
  constructor; autorewrite with fb; cbn [evs mn_after src_after once_after closing_after closes guard];
  rewrite ?Hg; eauto;
  try (intros m;
       match goal with
       | |- context [set_node ?s ?n ?x] =>
           let H := fresh in
           pose proof (fp_worker_local s n x m _ _ _ Hg eq_refl eq_refl eq_refl eq_refl) as H;
           autorewrite with fb in H; cbn [ws once closed] in H;
           destruct H as (?H & ?H & ?H)
       end; autorewrite with fb; cbn [ws once closed]; try congruence; auto;
       try (let HH := fresh in intros HH; left; congruence)).

Lemma step_fp : forall nt T s a s', step nt T s a = Ok s' -> footprint nt s a s'.
Proof.
  intros nt T s a s' H.
  destruct a; cbn [step] in H.
  - (* SrcEmit *)
    destruct (src s) eqn:Es; try discriminate. destruct (mn s) eqn:Em; try discriminate. injection H as <-.
    constructor; cbn; eauto.
  - destruct (src s) eqn:Es; try discriminate. injection H as <-. constructor; cbn; rewrite ?Es; eauto.
  - destruct (src s) eqn:Es; try discriminate. injection H as <-. constructor; cbn; rewrite ?Es; eauto.
  - destruct (src s) eqn:Es; try discriminate. injection H as <-. constructor; cbn; rewrite ?Es; eauto.
  - (* MainSend *)
    destruct (mn s) as [|it [|r rs]| | |] eqn:Em; try discriminate.
    destruct (try_send nt s r it) as [s1| |] eqn:Ets; try discriminate. injection H as <-.
    pose proof (ExecMain.try_send_frame _ _ _ _ _ Ets) as (Ht & Hs & _).
    apply try_send_sent in Ets. destruct Ets as (Hc & Hsl & _).
    constructor; cbn [evs mn_after src_after once_after closing_after closes guard]; autorewrite with fb;
      rewrite ?Em; eauto; intros m; rewrite node_set_mn; destruct (Hsl m) as (a0 & b0 & c0 & _); try congruence.
    rewrite c0; auto.
  - destruct (mn s) eqn:Em; try discriminate. destruct (src s) eqn:Es; try discriminate. injection H as <-.
    constructor; cbn; eauto.
  - (* MainCloseRoots *)
    destruct (mn s) eqn:Em; try discriminate.
    destruct (close_all s (roots nt)) as [s1|] eqn:Eca; try discriminate. injection H as <-.
    apply close_all_some in Eca.
    destruct Eca as (_ & Hsb & _ & Hcl & _ & _ & _ & _ & _ & Hs & _ & Ht).
    constructor; cbn [evs mn_after src_after once_after closing_after closes guard tr mn src]; eauto.
    all: intros m; destruct (Hsb m) as (a0 & b0 & _); unfold node in *; cbn [nodes] in *; congruence.
  - destruct (mn s) eqn:Em; try discriminate. destruct (all_exited s) eqn:Ea; try discriminate. injection H as <-.
    constructor; cbn; eauto.
  - destruct (mn s) eqn:Em; try discriminate. destruct (_ <=? _); try discriminate. injection H as <-.
    constructor; cbn; eauto.
  - injection H as <-. constructor; cbn; eauto.
  - (* Deq *)
    destruct (nth_error (ws (node s n)) w) as [[]|] eqn:Hg; try discriminate.
    destruct (q (node s n)) eqn:Hq; try discriminate. injection H as <-.
    fp_local Hg. all: rewrite ?Hq; auto. split; auto; discriminate.
  - (* Return *)
    destruct (nth_error (ws (node s n)) w) as [[| it | | | | | |]|] eqn:Hg; try discriminate.
    destruct (outcome_ok _ _ _); try discriminate.
    assert (Hgen : forall o, footprint nt s (Return n w o)
              (log (set_node s n (set_worker (count_outcome (node s n) o) w (after_deliveries (deliveries nt n it o))))
                   [TRet n it o])).
    { intros o'.
      assert (Hic : isclosing (WProc it) = isclosing (after_deliveries (deliveries nt n it o'))).
      { destruct (deliveries nt n it o'); reflexivity. }
      constructor; autorewrite with fb; cbn [evs mn_after src_after once_after closing_after closes guard];
        rewrite ?Hg; eauto; intros m; rewrite ?node_log;
        destruct (fp_worker_local s n (set_worker (count_outcome (node s n) o') w
                    (after_deliveries (deliveries nt n it o'))) m _ _ _ Hg ltac:(autorewrite with fb; reflexivity) Hic
                    ltac:(autorewrite with fb; reflexivity) ltac:(autorewrite with fb; reflexivity)) as (A & B & C);
        try congruence; auto. rewrite C; auto. }
    destruct o as [es|err|]; injection H as <-.
    + apply (Hgen (ORes es)).
    + apply (Hgen (OFail err)).
    + fp_local Hg.
  - (* SendW *)
    destruct (nth_error (ws (node s n)) w) as [[| |[|[c it] rest]| | | | |]|] eqn:Hg; try discriminate.
    destruct (try_send nt s c it) as [s1| |] eqn:Ets; try discriminate. injection H as <-.
    pose proof (ExecMain.try_send_frame _ _ _ _ _ Ets) as (Ht & Hs & Hm & _).
    apply try_send_sent in Ets. destruct Ets as (Hc & Hsl & _).
    assert (Hg1 : nth_error (ws (node s1 n)) w = Some (WSend ((c, it) :: rest))).
    { destruct (Hsl n) as (a0 & _). rewrite a0. exact Hg. }
    assert (Hic : isclosing (WSend ((c, it) :: rest)) = isclosing (after_deliveries rest)).
    { destruct rest; reflexivity. }
    constructor; cbn [evs mn_after src_after once_after closing_after closes guard]; autorewrite with fb;
      rewrite ?Hg; eauto; intros m;
      destruct (fp_worker_local s1 n (set_worker (node s1 n) w (after_deliveries rest)) m _ _ _ Hg1
                  ltac:(autorewrite with fb; reflexivity) Hic
                  ltac:(autorewrite with fb; reflexivity) ltac:(autorewrite with fb; reflexivity)) as (A & B & C);
      destruct (Hsl m) as (a0 & b0 & c0 & _); try congruence.
    rewrite C, c0. auto.
  - (* SeeClosed *)
    destruct (nth_error (ws (node s n)) w) as [[]|] eqn:Hg; try discriminate.
    destruct (q (node s n)) eqn:Hq; try discriminate. destruct (closed (node s n)) eqn:Hc; try discriminate.
    injection H as <-. fp_local Hg.
  - destruct (nth_error (ws (node s n)) w) as [[]|] eqn:Hg; try discriminate.
    destruct (forallb wpast (ws (node s n))) eqn:Hall; try discriminate. injection H as <-. fp_local Hg.
  - (* OnceEnter *)
    destruct (nth_error (ws (node s n)) w) as [[]|] eqn:Hg; try discriminate.
    destruct (once (node s n)) eqn:Ho; try discriminate. injection H as <-.
    pose proof (node_ws_some_lt _ _ _ _ Hg) as Hn.
    constructor; autorewrite with fb; cbn [evs mn_after src_after once_after closing_after closes guard]; eauto;
      intros m; rewrite ?node_log; rewrite node_set_node_if by assumption;
      destruct (Nat.eqb_spec m n) as [->|Hne]; autorewrite with fb; auto;
      try (eapply existsb_upd_same; eauto; fail).
  - (* ShutdownReturn *)
    destruct (nth_error (ws (node s n)) w) as [[]|] eqn:Hg; try discriminate.
    destruct (inflight (node s n)) eqn:Hf; try discriminate. destruct (existsb (owns n) (cbs s)); try discriminate.
    injection H as <-.
    pose proof (node_ws_some_lt _ _ _ _ Hg) as Hn.
    constructor; autorewrite with fb; cbn [evs mn_after src_after once_after closing_after closes guard]; eauto;
      intros m; rewrite ?node_log; rewrite node_set_node_if by assumption;
      destruct (Nat.eqb_spec m n) as [->|Hne]; autorewrite with fb; auto;
      try (eapply existsb_upd_true; eauto; fail).
  - (* CloseKids *)
    destruct (nth_error (ws (node s n)) w) as [[]|] eqn:Hg; try discriminate.
    destruct (close_all s (targets (info nt n))) as [s1|] eqn:Eca; try discriminate. injection H as <-.
    pose proof (node_ws_some_lt _ _ _ _ Hg) as Hn.
    apply close_all_some in Eca.
    destruct Eca as (_ & Hsb & _ & Hcl & _ & Hlen & _ & Hm & _ & Hs & _ & Ht).
    assert (Hn1 : n < length (nodes s1)) by lia.
    constructor; autorewrite with fb; cbn [evs mn_after src_after once_after closing_after closes guard]; eauto;
      intros m; rewrite node_set_node_if by assumption; destruct (Hsb m) as (a0 & b0 & _);
      destruct (Nat.eqb_spec m n) as [->|Hne]; autorewrite with fb; auto; try congruence.
  - (* OnceSkip *)
    destruct (nth_error (ws (node s n)) w) as [[]|] eqn:Hg; try discriminate.
    destruct (once (node s n)) eqn:Ho; try discriminate. injection H as <-. fp_local Hg.
  - (* Callback *)
    destruct (remove_one it (inflight (node s n))) as [rest|] eqn:Hr; try discriminate.
    destruct (outcome_ok _ _ _); try discriminate. injection H as <-.
    pose proof (node_inflight_lt _ _ (remove_one_some_nonempty _ _ _ Hr)) as Hn.
    match goal with |- context [set_node s n ?x] => set (x' := x) end.
    assert (Hnode : forall m, once (node (set_node s n x') m) = once (node s m)
                              /\ ws (node (set_node s n x') m) = ws (node s m)
                              /\ closed (node (set_node s n x') m) = closed (node s m)).
    { intros m. rewrite node_set_node_if by assumption. destruct (Nat.eqb_spec m n) as [->|Hne]; auto.
      subst x'. autorewrite with fb. auto. }
    constructor; cbn [evs mn_after src_after once_after closing_after closes guard]; eauto;
      destruct (deliveries nt n it o); autorewrite with fb; auto;
      intros m; destruct (Hnode m) as (A & B & C); rewrite ?node_log, ?node_set_cbs; try congruence;
      rewrite C; auto.
  - (* SendC *)
    destruct (nth_error (cbs s) i) as [[n [|[c it] rest]]|] eqn:Hg; try discriminate.
    destruct (try_send nt s c it) as [s1| |] eqn:Ets; try discriminate. injection H as <-.
    pose proof (ExecMain.try_send_frame _ _ _ _ _ Ets) as (Ht & Hs & Hm & _).
    apply try_send_sent in Ets. destruct Ets as (Hc & Hsl & _).
    constructor; cbn [evs mn_after src_after once_after closing_after closes guard]; autorewrite with fb; eauto;
      intros m; destruct (Hsl m) as (a0 & b0 & c0 & _); rewrite ?node_set_cbs; try congruence.
    rewrite c0. auto.
Qed.
