(* E1 — the link between the observable trace and the state of the executor model: [inv_link nt s],
   proved for every reachable state of a well-formed net ([link_reachable]).  With it the per-event
   clauses of [trace_ok] follow from the state at the moment the event is logged (Proofs/ExecSpec.v).
   First part: [step_fp], the complete footprint of a step (guard, events, main, source, once,
   closing workers, closed channels). *)
From Coq Require Import List ZArith Bool Arith Lia.
From FB Require Import Model.Exec Model.TraceSpec Model.ExecInv.
From FB Require Proofs.ExecBase Proofs.ExecCount Proofs.ExecMain.
From FB Require Import Proofs.ExecLifeBase Proofs.ExecLife.
Import ListNotations.
Local Open Scope nat_scope.

(* ------------------------------------------------------------------ footprint of a step *)
(* what a step prepends to the trace *)
Definition evs (nt : net) (s : state) (a : action) : list tev :=
  match a with
  | SrcEmit e => [TEmit e]
  | SrcReturnNil => match src s with SRunning k => [TEnd k true] | _ => [] end
  | SrcReturnErr => match src s with SRunning k => [TEnd k false] | _ => [] end
  | SrcRestart => match src s with SSleeping k => [TStart (S k); TPrep (S k)] | _ => [] end
  | SrcSetupFail => match src s with SSleeping k => [TPrepFail (S k)] | _ => [] end
  | MainWgDone => [TDone true]
  | MainTimeout => [TDone false]
  | Deq n w => match q (node s n) with it :: _ => [TEnter n it] | [] => [] end
  | Return n w o => match nth_error (ws (node s n)) w with Some (WProc it) => [TRet n it o] | _ => [] end
  | OnceEnter n w => [TShutBegin n]
  | ShutdownReturn n w => [TShutEnd n]
  | Callback n it o => [TCb n it o]
  | _ => []
  end.

Definition mn_after (nt : net) (s : state) (a : action) : mstate :=
  match a with
  | SrcEmit e => match roots nt with [] => MSelect | rs => MDeliver (e, 0%Z) rs end
  | MainSend => match mn s with
                | MDeliver it (_ :: rs) => match rs with [] => MSelect | _ => MDeliver it rs end
                | m => m
                end
  | MainSeeClosed => MCloseRoots
  | MainCloseRoots => MWait
  | MainWgDone | MainTimeout => MDone
  | _ => mn s
  end.

Definition src_after (s : state) (a : action) : sstate :=
  match a with
  | SrcReturnNil => SClosed
  | SrcReturnErr => match src s with SRunning k => SSleeping k | x => x end
  | SrcRestart => match src s with SSleeping k => SRunning (S k) | x => x end
  | SrcSetupFail => match src s with SSleeping k => SDead | x => x end
  | _ => src s
  end.

Definition once_after (s : state) (a : action) (m : nat) : ostate :=
  match a with
  | OnceEnter n _ => if m =? n then ORunning else once (node s m)
  | CloseKids n _ => if m =? n then ODone else once (node s m)
  | _ => once (node s m)
  end.

(* is some worker of m between ShutdownReturn and CloseKids *)
Definition closing_after (s : state) (a : action) (m : nat) : bool :=
  match a with
  | ShutdownReturn n _ => (m =? n) || existsb isclosing (ws (node s m))
  | CloseKids n w => if m =? n then existsb isclosing (upd w WExit (ws (node s n)))
                     else existsb isclosing (ws (node s m))
  | _ => existsb isclosing (ws (node s m))
  end.

Definition closes (nt : net) (a : action) (m : nat) : Prop :=
  match a with
  | MainCloseRoots => In m (roots nt)
  | CloseKids n _ => In m (targets (info nt n))
  | _ => False
  end.

(* the enabling condition of an action *)
Definition guard (nt : net) (s : state) (a : action) : Prop :=
  match a with
  | SrcEmit _ => (exists k, src s = SRunning k) /\ mn s = MSelect
  | SrcReturnNil | SrcReturnErr => exists k, src s = SRunning k
  | SrcRestart | SrcSetupFail => exists k, src s = SSleeping k
  | MainSend => exists it r rs, mn s = MDeliver it (r :: rs)
  | MainSeeClosed => mn s = MSelect /\ src s = SClosed
  | MainCloseRoots => mn s = MCloseRoots
  | MainWgDone => mn s = MWait /\ all_exited s = true
  | MainTimeout => mn s = MWait
  | Tick => True
  | Deq n w => nth_error (ws (node s n)) w = Some WIdle /\ q (node s n) <> []
  | Return n w o => exists it, nth_error (ws (node s n)) w = Some (WProc it)
  | SendW n w => exists p, nth_error (ws (node s n)) w = Some (WSend p)
  | SeeClosed n w => nth_error (ws (node s n)) w = Some WIdle /\ q (node s n) = [] /\ closed (node s n) = true
  | LastOut n w => nth_error (ws (node s n)) w = Some WSaw /\ forallb wpast (ws (node s n)) = true
  | OnceEnter n w => nth_error (ws (node s n)) w = Some WWaited /\ once (node s n) = ONone
  | ShutdownReturn n w => nth_error (ws (node s n)) w = Some WInShut
  | CloseKids n w => nth_error (ws (node s n)) w = Some WClosing
  | OnceSkip n w => nth_error (ws (node s n)) w = Some WWaited /\ once (node s n) = ODone
  | Callback n it o => exists rest, remove_one it (inflight (node s n)) = Some rest
  | SendC i => True
  end.

Record footprint (nt : net) (s : state) (a : action) (s' : state) : Prop := {
  fp_guard : guard nt s a;
  fp_tr : tr s' = evs nt s a ++ tr s;
  fp_mn : mn s' = mn_after nt s a;
  fp_src : src s' = src_after s a;
  fp_once : forall m, once (node s' m) = once_after s a m;
  fp_closing : forall m, existsb isclosing (ws (node s' m)) = closing_after s a m;
  fp_closed : forall m, closed (node s' m) = true -> closed (node s m) = true \/ closes nt a m
}.

Lemma node_set_node_if : forall s n x m, n < length (nodes s) ->
  node (set_node s n x) m = if m =? n then x else node s m.
Proof.
  intros. destruct (Nat.eqb_spec m n) as [->|Hne].
  - apply node_set_node_eq; auto.
  - apply node_set_node_neq; congruence.
Qed.

Lemma existsb_upd_same : forall A (f : A -> bool) i x l a, nth_error l i = Some a -> f a = f x ->
  existsb f (upd i x l) = existsb f l.
Proof.
  induction i; intros x l a H E; destruct l as [|b l]; cbn in *; try discriminate.
  - inversion H; subst. rewrite E. reflexivity.
  - rewrite (IHi x l a H E). reflexivity.
Qed.

Lemma existsb_upd_true : forall A (f : A -> bool) i x l a, nth_error l i = Some a -> f x = true ->
  existsb f (upd i x l) = true.
Proof.
  induction i; intros x l a H E; destruct l as [|b l]; cbn in *; try discriminate.
  - rewrite E. reflexivity.
  - rewrite (IHi x l a H E). apply orb_true_r.
Qed.

(* a worker of node n moves from st0 to st (neither is WClosing); nothing else of interest changes *)
Lemma fp_worker_local : forall s n x' m w st0 st,
  nth_error (ws (node s n)) w = Some st0 ->
  ws x' = upd w st (ws (node s n)) -> isclosing st0 = isclosing st ->
  once x' = once (node s n) -> closed x' = closed (node s n) ->
  once (node (set_node s n x') m) = once (node s m)
  /\ existsb isclosing (ws (node (set_node s n x') m)) = existsb isclosing (ws (node s m))
  /\ closed (node (set_node s n x') m) = closed (node s m).
Proof.
  intros s n x' m w st0 st Hg Hw Hc Ho Hcl.
  pose proof (node_ws_some_lt _ _ _ _ Hg) as Hn.
  rewrite node_set_node_if by assumption.
  destruct (Nat.eqb_spec m n) as [->|Hne]; auto.
  rewrite Hw, Ho, Hcl. repeat split; auto. eapply existsb_upd_same; eauto.
Qed.

Ltac fp_local Hg :=
  constructor; autorewrite with fb; cbn [evs mn_after src_after once_after closing_after closes guard];
  rewrite ?Hg; eauto;
  try (intros m;
       match goal with
       | |- context [set_node ?s ?n ?x] =>
           let H := fresh in
           pose proof (fp_worker_local s n x m _ _ _ Hg eq_refl eq_refl eq_refl eq_refl) as H;
           autorewrite with fb in H; cbn [ws once closed] in H;
           destruct H as (?H & ?H & ?H)
       end; autorewrite with fb; cbn [ws once closed]; try congruence; auto;
       try (let HH := fresh in intros HH; left; congruence)).

Lemma step_fp : forall nt T s a s', step nt T s a = Ok s' -> footprint nt s a s'.
Proof.
  intros nt T s a s' H.
  destruct a; cbn [step] in H.
  - (* SrcEmit *)
    destruct (src s) eqn:Es; try discriminate. destruct (mn s) eqn:Em; try discriminate. injection H as <-.
    constructor; cbn; eauto.
  - destruct (src s) eqn:Es; try discriminate. injection H as <-. constructor; cbn; rewrite ?Es; eauto.
  - destruct (src s) eqn:Es; try discriminate. injection H as <-. constructor; cbn; rewrite ?Es; eauto.
  - destruct (src s) eqn:Es; try discriminate. injection H as <-. constructor; cbn; rewrite ?Es; eauto.
  - (* MainSend *)
    destruct (mn s) as [|it [|r rs]| | |] eqn:Em; try discriminate.
    destruct (try_send nt s r it) as [s1| |] eqn:Ets; try discriminate. injection H as <-.
    pose proof (ExecMain.try_send_frame _ _ _ _ _ Ets) as (Ht & Hs & _).
    apply try_send_sent in Ets. destruct Ets as (Hc & Hsl & _).
    constructor; cbn [evs mn_after src_after once_after closing_after closes guard]; autorewrite with fb;
      rewrite ?Em; eauto; intros m; rewrite node_set_mn; destruct (Hsl m) as (a0 & b0 & c0 & _); try congruence.
    rewrite c0; auto.
  - destruct (mn s) eqn:Em; try discriminate. destruct (src s) eqn:Es; try discriminate. injection H as <-.
    constructor; cbn; eauto.
  - (* MainCloseRoots *)
    destruct (mn s) eqn:Em; try discriminate.
    destruct (close_all s (roots nt)) as [s1|] eqn:Eca; try discriminate. injection H as <-.
    apply close_all_some in Eca.
    destruct Eca as (_ & Hsb & _ & Hcl & _ & _ & _ & _ & _ & Hs & _ & Ht).
    constructor; cbn [evs mn_after src_after once_after closing_after closes guard tr mn src]; eauto.
    all: intros m; destruct (Hsb m) as (a0 & b0 & _); unfold node in *; cbn [nodes] in *; congruence.
  - destruct (mn s) eqn:Em; try discriminate. destruct (all_exited s) eqn:Ea; try discriminate. injection H as <-.
    constructor; cbn; eauto.
  - destruct (mn s) eqn:Em; try discriminate. destruct (_ <=? _); try discriminate. injection H as <-.
    constructor; cbn; eauto.
  - injection H as <-. constructor; cbn; eauto.
  - (* Deq *)
    destruct (nth_error (ws (node s n)) w) as [[]|] eqn:Hg; try discriminate.
    destruct (q (node s n)) eqn:Hq; try discriminate. injection H as <-.
    fp_local Hg. all: rewrite ?Hq; auto. split; auto; discriminate.
  - (* Return *)
    destruct (nth_error (ws (node s n)) w) as [[| it | | | | | |]|] eqn:Hg; try discriminate.
    destruct (outcome_ok _ _ _); try discriminate.
    assert (Hgen : forall o, footprint nt s (Return n w o)
              (log (set_node s n (set_worker (count_outcome (node s n) o) w (after_deliveries (deliveries nt n it o))))
                   [TRet n it o])).
    { intros o'.
      assert (Hic : isclosing (WProc it) = isclosing (after_deliveries (deliveries nt n it o'))).
      { destruct (deliveries nt n it o'); reflexivity. }
      constructor; autorewrite with fb; cbn [evs mn_after src_after once_after closing_after closes guard];
        rewrite ?Hg; eauto; intros m; rewrite ?node_log;
        destruct (fp_worker_local s n (set_worker (count_outcome (node s n) o') w
                    (after_deliveries (deliveries nt n it o'))) m _ _ _ Hg ltac:(autorewrite with fb; reflexivity) Hic
                    ltac:(autorewrite with fb; reflexivity) ltac:(autorewrite with fb; reflexivity)) as (A & B & C);
        try congruence; auto. rewrite C; auto. }
    destruct o as [es|err|]; injection H as <-.
    + apply (Hgen (ORes es)).
    + apply (Hgen (OFail err)).
    + fp_local Hg.
  - (* SendW *)
    destruct (nth_error (ws (node s n)) w) as [[| |[|[c it] rest]| | | | |]|] eqn:Hg; try discriminate.
    destruct (try_send nt s c it) as [s1| |] eqn:Ets; try discriminate. injection H as <-.
    pose proof (ExecMain.try_send_frame _ _ _ _ _ Ets) as (Ht & Hs & Hm & _).
    apply try_send_sent in Ets. destruct Ets as (Hc & Hsl & _).
    assert (Hg1 : nth_error (ws (node s1 n)) w = Some (WSend ((c, it) :: rest))).
    { destruct (Hsl n) as (a0 & _). rewrite a0. exact Hg. }
    assert (Hic : isclosing (WSend ((c, it) :: rest)) = isclosing (after_deliveries rest)).
    { destruct rest; reflexivity. }
    constructor; cbn [evs mn_after src_after once_after closing_after closes guard]; autorewrite with fb;
      rewrite ?Hg; eauto; intros m;
      destruct (fp_worker_local s1 n (set_worker (node s1 n) w (after_deliveries rest)) m _ _ _ Hg1
                  ltac:(autorewrite with fb; reflexivity) Hic
                  ltac:(autorewrite with fb; reflexivity) ltac:(autorewrite with fb; reflexivity)) as (A & B & C);
      destruct (Hsl m) as (a0 & b0 & c0 & _); try congruence.
    rewrite C, c0. auto.
  - (* SeeClosed *)
    destruct (nth_error (ws (node s n)) w) as [[]|] eqn:Hg; try discriminate.
    destruct (q (node s n)) eqn:Hq; try discriminate. destruct (closed (node s n)) eqn:Hc; try discriminate.
    injection H as <-. fp_local Hg.
  - destruct (nth_error (ws (node s n)) w) as [[]|] eqn:Hg; try discriminate.
    destruct (forallb wpast (ws (node s n))) eqn:Hall; try discriminate. injection H as <-. fp_local Hg.
  - (* OnceEnter *)
    destruct (nth_error (ws (node s n)) w) as [[]|] eqn:Hg; try discriminate.
    destruct (once (node s n)) eqn:Ho; try discriminate. injection H as <-.
    pose proof (node_ws_some_lt _ _ _ _ Hg) as Hn.
    constructor; autorewrite with fb; cbn [evs mn_after src_after once_after closing_after closes guard]; eauto;
      intros m; rewrite ?node_log; rewrite node_set_node_if by assumption;
      destruct (Nat.eqb_spec m n) as [->|Hne]; autorewrite with fb; auto;
      try (eapply existsb_upd_same; eauto; fail).
  - (* ShutdownReturn *)
    destruct (nth_error (ws (node s n)) w) as [[]|] eqn:Hg; try discriminate.
    destruct (inflight (node s n)) eqn:Hf; try discriminate. destruct (existsb (owns n) (cbs s)); try discriminate.
    injection H as <-.
    pose proof (node_ws_some_lt _ _ _ _ Hg) as Hn.
    constructor; autorewrite with fb; cbn [evs mn_after src_after once_after closing_after closes guard]; eauto;
      intros m; rewrite ?node_log; rewrite node_set_node_if by assumption;
      destruct (Nat.eqb_spec m n) as [->|Hne]; autorewrite with fb; auto;
      try (eapply existsb_upd_true; eauto; fail).
  - (* CloseKids *)
    destruct (nth_error (ws (node s n)) w) as [[]|] eqn:Hg; try discriminate.
    destruct (close_all s (targets (info nt n))) as [s1|] eqn:Eca; try discriminate. injection H as <-.
    pose proof (node_ws_some_lt _ _ _ _ Hg) as Hn.
    apply close_all_some in Eca.
    destruct Eca as (_ & Hsb & _ & Hcl & _ & Hlen & _ & Hm & _ & Hs & _ & Ht).
    assert (Hn1 : n < length (nodes s1)) by lia.
    constructor; autorewrite with fb; cbn [evs mn_after src_after once_after closing_after closes guard]; eauto;
      intros m; rewrite node_set_node_if by assumption; destruct (Hsb m) as (a0 & b0 & _);
      destruct (Nat.eqb_spec m n) as [->|Hne]; autorewrite with fb; auto; try congruence.
  - (* OnceSkip *)
    destruct (nth_error (ws (node s n)) w) as [[]|] eqn:Hg; try discriminate.
    destruct (once (node s n)) eqn:Ho; try discriminate. injection H as <-. fp_local Hg.
  - (* Callback *)
    destruct (remove_one it (inflight (node s n))) as [rest|] eqn:Hr; try discriminate.
    destruct (outcome_ok _ _ _); try discriminate. injection H as <-.
    pose proof (node_inflight_lt _ _ (remove_one_some_nonempty _ _ _ Hr)) as Hn.
    match goal with |- context [set_node s n ?x] => set (x' := x) end.
    assert (Hnode : forall m, once (node (set_node s n x') m) = once (node s m)
                              /\ ws (node (set_node s n x') m) = ws (node s m)
                              /\ closed (node (set_node s n x') m) = closed (node s m)).
    { intros m. rewrite node_set_node_if by assumption. destruct (Nat.eqb_spec m n) as [->|Hne]; auto.
      subst x'. autorewrite with fb. auto. }
    constructor; cbn [evs mn_after src_after once_after closing_after closes guard]; eauto;
      destruct (deliveries nt n it o); autorewrite with fb; auto;
      intros m; destruct (Hnode m) as (A & B & C); rewrite ?node_log, ?node_set_cbs; try congruence;
      rewrite C; auto.
  - (* SendC *)
    destruct (nth_error (cbs s) i) as [[n [|[c it] rest]]|] eqn:Hg; try discriminate.
    destruct (try_send nt s c it) as [s1| |] eqn:Ets; try discriminate. injection H as <-.
    pose proof (ExecMain.try_send_frame _ _ _ _ _ Ets) as (Ht & Hs & Hm & _).
    apply try_send_sent in Ets. destruct Ets as (Hc & Hsl & _).
    constructor; cbn [evs mn_after src_after once_after closing_after closes guard]; autorewrite with fb; eauto;
      intros m; destruct (Hsl m) as (a0 & b0 & c0 & _); rewrite ?node_set_cbs; try congruence.
    rewrite c0. auto.
  - (* SrcSetupFail *)
    destruct (src s) eqn:Es; try discriminate. injection H as <-. constructor; cbn; rewrite ?Es; eauto.
Qed.

(* ------------------------------------------------------------------ the link invariant *)
Definition setup_ev (n : nat) (e : tev) : bool := match e with TSetup m => m =? n | _ => false end.
Definition cnt_setup (n : nat) (p : list tev) : nat := length (filter (setup_ev n) p).
Definition is_wproc := ExecCount.is_wproc.

Record inv_link (nt : net) (s : state) : Prop := {
  (* (a) every node of the table was set up exactly once, nothing else was, the source was started *)
  k_setup : forall n, n < length nt -> is_setup n (tr s) = true /\ cnt_setup n (tr s) = 1;
  k_setup_range : forall m, length nt <= m -> is_setup m (tr s) = false;
  k_start : any_start (tr s) = true;
  (* (b) Shutdown has begun <-> the once has been entered *)
  k_shutb : forall n, shutb n (tr s) = negb (match once (node s n) with ONone => true | _ => false end);
  (* (c) Shutdown has returned <-> the once is done, or running with its worker about to close the children *)
  k_shute : forall n, shute n (tr s) = match once (node s n) with
                                      | ODone => true
                                      | ORunning => existsb isclosing (ws (node s n))
                                      | ONone => false
                                      end;
  (* (d) *)
  k_done : is_done (tr s) = match mn s with MDone => true | _ => false end;
  (* (e), (f) *)
  k_nil : any_nil_end (tr s) = match src s with SClosed => true | _ => false end;
  k_run : src_running (tr s) = match src s with SRunning _ => true | _ => false end;
  (* a Setup of a replacement source has failed <-> the process is gone *)
  k_dead : any_prepfail (tr s) = match src s with SDead => true | _ => false end;
  (* (g) *)
  k_calls : forall n, n < length nt -> open_calls n (tr s) = length (filter is_wproc (ws (node s n)));
  (* (h) main closes the roots only after it has seen the source channel closed *)
  k_root : forall r, In r (roots nt) -> closed (node s r) = true -> src s = SClosed;
  (* a closed channel is a root's or has a feeder *)
  k_fed : forall c, closed (node s c) = true ->
            In c (roots nt) \/ exists m, m < length nt /\ In c (targets (info nt m));
  k_main : match mn s with MCloseRoots | MWait | MDone => src s = SClosed | _ => True end
}.

(* the part proved by induction over the schedule; the rest follows from it, [inv_life'], p1's
   [inv_count] and ExecMain's [src_history] *)
Record link_core (nt : net) (s : state) : Prop := {
  c_setup : forall n, n < length nt -> is_setup n (tr s) = true /\ cnt_setup n (tr s) = 1;
  c_setup_range : forall m, length nt <= m -> is_setup m (tr s) = false;
  c_start : any_start (tr s) = true;
  c_shutb : forall n, shutb n (tr s) = negb (match once (node s n) with ONone => true | _ => false end);
  c_shute : forall n, shute n (tr s) = match once (node s n) with
                                      | ODone => true
                                      | ORunning => existsb isclosing (ws (node s n))
                                      | ONone => false
                                      end;
  c_done : is_done (tr s) = match mn s with MDone => true | _ => false end;
  c_fed : forall c, closed (node s c) = true ->
            In c (roots nt) \/ exists m, m < length nt /\ In c (targets (info nt m));
  c_main : match mn s with MCloseRoots | MWait | MDone => src s = SClosed | _ => True end
}.

Lemma has_app : forall P a b, has P (a ++ b) = has P a || has P b.
Proof. intros. unfold has. apply existsb_app. Qed.

(* case analysis over the events of an action *)
Ltac evs_cases s :=
  cbn [evs];
  repeat match goal with
  | |- context [match src s with _ => _ end] => destruct (src s)
  | |- context [match q (node s ?n) with _ => _ end] => destruct (q (node s n))
  | |- context [match nth_error (ws (node s ?n)) ?w with _ => _ end] =>
      destruct (nth_error (ws (node s n)) w) as [[]|]
  end.

Lemma evs_no_setup : forall nt s a n, filter (setup_ev n) (evs nt s a) = [] /\ is_setup n (evs nt s a) = false.
Proof. intros. destruct a; evs_cases s; split; reflexivity. Qed.

Lemma evs_start_mono : forall nt s a p, any_start p = true -> any_start (evs nt s a ++ p) = true.
Proof. intros. unfold any_start in *. rewrite has_app, H. apply orb_true_r. Qed.

(* ---- init ---- *)
Lemma filter_rev_length : forall A (f : A -> bool) l, length (filter f (rev l)) = length (filter f l).
Proof.
  induction l as [|a l IH]; cbn; auto. rewrite filter_app, app_length, IH. cbn.
  destruct (f a); cbn; lia.
Qed.

Lemma cnt_setup_seq : forall n len a,
  length (filter (setup_ev n) (map TSetup (seq a len))) = if (a <=? n) && (n <? a + len) then 1 else 0.
Proof.
  induction len as [|len IH]; intros a; cbn [seq map filter].
  - cbn [length]. destruct (Nat.leb_spec a n), (Nat.ltb_spec n (a + 0)); cbn; auto; lia.
  - change (setup_ev n (TSetup a)) with (a =? n).
    destruct (Nat.eqb_spec a n) as [->|Hne]; cbn [length]; rewrite IH;
      repeat match goal with
      | |- context [?x <=? ?y] => destruct (Nat.leb_spec x y)
      | |- context [?x <? ?y] => destruct (Nat.ltb_spec x y)
      end; cbn; lia.
Qed.

Lemma is_setup_init_trace : forall nt n,
  is_setup n (tr (init nt)) = (n <? length nt) /\ cnt_setup n (tr (init nt)) = if n <? length nt then 1 else 0.
Proof.
  intros nt n. unfold init; cbn [tr].
  assert (Hc : cnt_setup n (TStart 0 :: rev (map TSetup (seq 0 (length nt))) ++ [TPrep 0])
               = if n <? length nt then 1 else 0).
  { unfold cnt_setup. cbn [filter setup_ev]. rewrite filter_app, app_length. cbn [filter setup_ev length].
    rewrite filter_rev_length, cnt_setup_seq. cbn. rewrite Nat.add_0_r. destruct (n <? length nt); reflexivity. }
  split; auto.
  unfold is_setup, has. change (fun e : tev => match e with TSetup m => m =? n | _ => false end) with (setup_ev n).
  unfold cnt_setup in Hc.
  match goal with |- existsb _ ?l = _ => set (p := l) in * end.
  destruct (existsb (setup_ev n) p) eqn:E.
  - apply existsb_exists in E. destruct E as [e [Hin He]].
    assert (In e (filter (setup_ev n) p)) by (apply filter_In; auto).
    destruct (n <? length nt); auto. destruct (filter (setup_ev n) p); [contradiction|discriminate].
  - destruct (n <? length nt); auto.
    destruct (filter (setup_ev n) p) as [|e l] eqn:Ef; [discriminate|].
    assert (Hin : In e (filter (setup_ev n) p)) by (rewrite Ef; left; auto).
    apply filter_In in Hin. destruct Hin as [Hin He].
    assert (existsb (setup_ev n) p = true) by (apply existsb_exists; eauto). congruence.
Qed.

Lemma link_core_init : forall nt, link_core nt (init nt).
Proof.
  intros nt. constructor.
  - intros n Hn. destruct (is_setup_init_trace nt n) as [A B].
    rewrite A, B. replace (n <? length nt) with true by (symmetry; apply Nat.ltb_lt; auto). auto.
  - intros m Hm. destruct (is_setup_init_trace nt m) as [A _]. rewrite A. apply Nat.ltb_ge; auto.
  - reflexivity.
  - intros n. rewrite node_init. cbn [once init_node negb]. unfold init; cbn [tr]. unfold shutb, has.
    cbn [existsb]. rewrite existsb_app. cbn. rewrite orb_false_r.
    destruct (existsb _ (rev _)) eqn:E; auto. apply existsb_exists in E. destruct E as [e [Hin He]].
    apply in_rev, in_map_iff in Hin. destruct Hin as [x [<- _]]. discriminate.
  - intros n. rewrite node_init. cbn [once init_node]. unfold init; cbn [tr]. unfold shute, has.
    cbn [existsb]. rewrite existsb_app. cbn. rewrite orb_false_r.
    destruct (existsb _ (rev _)) eqn:E; auto. apply existsb_exists in E. destruct E as [e [Hin He]].
    apply in_rev, in_map_iff in Hin. destruct Hin as [x [<- _]]. discriminate.
  - unfold init; cbn [tr mn]. unfold is_done, has. cbn [existsb]. rewrite existsb_app. cbn. rewrite orb_false_r.
    destruct (existsb _ (rev _)) eqn:E; auto. apply existsb_exists in E. destruct E as [e [Hin He]].
    apply in_rev, in_map_iff in Hin. destruct Hin as [x [<- _]]. discriminate.
  - intros c. rewrite node_init. cbn. discriminate.
  - exact Logic.I.
Qed.

(* ---- step ---- *)
Lemma guard_once_running : forall nt s n w st, inv_shape nt s -> inv_life' nt s ->
  nth_error (ws (node s n)) w = Some st -> is_running_once st = true -> once (node s n) = ORunning.
Proof.
  intros nt s n w st [Hlen _] I Hg Hr.
  pose proof (node_ws_some_lt _ _ _ _ Hg) as Hn. assert (Hn' : n < length nt) by lia.
  eapply running_once_O; eauto. apply (i_nodes _ _ I n Hn').
Qed.

Lemma link_core_step : forall nt T s a s', wf_net nt = true -> inv_shape nt s -> inv_life' nt s ->
  link_core nt s -> step nt T s a = Ok s' -> link_core nt s'.
Proof.
  intros nt T s a s' Hwf Hs I K H.
  pose proof (step_fp _ _ _ _ _ H) as F. destruct F as [G Ftr Fmn Fsrc Fonce Fclosing Fclosed].
  destruct K as [K1 K2 K3 K4 K5 K6 K7 K8].
  constructor; rewrite ?Ftr, ?Fmn, ?Fsrc.
  - intros n Hn. destruct (evs_no_setup nt s a n) as [A B]. destruct (K1 n Hn) as [C D].
    unfold is_setup, cnt_setup in *. rewrite has_app, B, C, filter_app, A. auto.
  - intros m Hm. destruct (evs_no_setup nt s a m) as [A B].
    unfold is_setup in *. rewrite has_app, B, (K2 m Hm). reflexivity.
  - apply evs_start_mono; auto.
  - (* shutb *)
    intros n. rewrite Fonce. unfold shutb in *. rewrite has_app, K4. clear K4 K5.
    destruct a; evs_cases s; cbn [has existsb orb once_after]; try reflexivity.
    + destruct (Nat.eqb_spec n n0) as [->|Hne].
      * rewrite Nat.eqb_refl. reflexivity.
      * replace (n0 =? n) with false by (symmetry; apply Nat.eqb_neq; congruence). reflexivity.
    + destruct (Nat.eqb_spec n n0) as [->|Hne]; auto.
      cbn [guard] in G. rewrite (guard_once_running _ _ _ _ _ Hs I G eq_refl). reflexivity.
  - (* shute *)
    intros n. rewrite Fonce, Fclosing. unfold shute in *. rewrite has_app, K5. clear K4 K5.
    destruct a; evs_cases s; cbn [has existsb orb once_after closing_after]; try reflexivity.
    + (* OnceEnter: no worker of n is closing yet *)
      destruct (Nat.eqb_spec n n0) as [->|Hne]; auto.
      cbn [guard] in G. destruct G as [Hg Ho]. rewrite Ho.
      destruct (existsb isclosing (ws (node s n0))) eqn:E; auto.
      apply existsb_to_nth_error in E. destruct E as (i & st & Hi & Hc). destruct st; try discriminate.
      rewrite (guard_once_running _ _ _ _ _ Hs I Hi eq_refl) in Ho. discriminate.
    + (* ShutdownReturn *)
      cbn [guard] in G. pose proof (guard_once_running _ _ _ _ _ Hs I G eq_refl) as Ho.
      destruct (Nat.eqb_spec n n0) as [->|Hne].
      * rewrite Nat.eqb_refl, Ho. reflexivity.
      * replace (n0 =? n) with false by (symmetry; apply Nat.eqb_neq; congruence). reflexivity.
    + (* CloseKids *)
      cbn [guard] in G. pose proof (guard_once_running _ _ _ _ _ Hs I G eq_refl) as Ho.
      destruct (Nat.eqb_spec n n0) as [->|Hne]; auto.
      rewrite Ho. eapply existsb_nth_error; eauto.
  - (* is_done *)
    unfold is_done in *. rewrite has_app, K6. clear K4 K5.
    destruct a; cbn [guard] in G; evs_cases s; cbn [has existsb orb mn_after]; try reflexivity.
    + destruct G as [_ ->]. destruct (roots nt); reflexivity.
    + destruct G as (it & r & rs & ->). destruct rs; reflexivity.
    + destruct G as [-> _]. reflexivity.
    + rewrite G. reflexivity.
  - (* fed *)
    intros c Hc. apply Fclosed in Hc. destruct Hc as [Hc|Hc]; auto.
    destruct a; cbn [closes] in Hc; try contradiction; auto.
    right. exists n. split; auto. cbn [guard] in G. destruct Hs as [Hlen _].
    pose proof (node_ws_some_lt _ _ _ _ G). lia.
  - (* main past its loop => source closed *)
    destruct a; cbn [guard] in G; cbn [mn_after src_after]; auto.
    + destruct (roots nt); exact Logic.I.
    + destruct (mn s); auto.
    + destruct G as [k Hk]. rewrite Hk in *. destruct (mn s); auto; discriminate.
    + destruct G as [k Hk]. rewrite Hk in *. destruct (mn s); auto; discriminate.
    + destruct G as (it & r & rs & Hm). rewrite Hm. destruct rs; exact Logic.I.
    + tauto.
    + rewrite G in K8. exact K8.
    + destruct G as [Hm _]. rewrite Hm in K8. exact K8.
    + rewrite G in K8. exact K8.
    + destruct G as [k Hk]. rewrite Hk in *. destruct (mn s); auto; discriminate.
Qed.

(* ---- reachable states ---- *)
Lemma link_core_reachable : forall nt T s, wf_net nt = true -> reachable nt T s -> link_core nt s.
Proof.
  intros nt T s Hwf [sch Hr].
  assert (G : forall sch s0 s1, reachable nt T s0 -> link_core nt s0 -> run nt T s0 sch = Ok s1 -> link_core nt s1).
  { induction sch0 as [|a sch0 IH]; intros s0 s1 R0 K0 H; cbn [run] in H.
    - injection H as <-. exact K0.
    - destruct (step nt T s0 a) as [s2| |] eqn:E; try discriminate.
      apply (IH s2 s1); auto.
      + eapply reachable_step; eauto.
      + destruct (life'_reachable nt T s0 Hwf R0) as [Hs I]. eapply link_core_step; eauto. }
  apply (G sch (init nt) s); auto.
  - exists []. reflexivity.
  - apply link_core_init.
Qed.

(* the source clauses follow from the history of incarnations (ExecMain) *)
Lemma has_src_evs : forall P p, (forall e, P e = true -> ExecMain.is_src_ev e = true) ->
  has P (ExecMain.src_evs p) = has P p.
Proof.
  intros P p HP. unfold has, ExecMain.src_evs. induction p as [|e p IH]; cbn; auto.
  destruct (ExecMain.is_src_ev e) eqn:E; cbn; rewrite IH; auto.
  destruct (P e) eqn:EP; auto. rewrite (HP e EP) in E. discriminate.
Qed.

Lemma src_running_src_evs : forall p, src_running (ExecMain.src_evs p) = src_running p.
Proof.
  unfold ExecMain.src_evs. induction p as [|e p IH]; cbn; auto.
  destruct e; cbn; auto.
Qed.

Lemma nil_end_failed : forall k, any_nil_end (ExecMain.failed k) = false.
Proof. induction k; cbn; auto. Qed.

Lemma prepfail_failed : forall k, any_prepfail (ExecMain.failed k) = false.
Proof. induction k; cbn; auto. Qed.

Lemma src_clauses : forall s, ExecMain.src_history s ->
  any_nil_end (tr s) = match src s with SClosed => true | _ => false end
  /\ src_running (tr s) = match src s with SRunning _ => true | _ => false end
  /\ any_prepfail (tr s) = match src s with SDead => true | _ => false end.
Proof.
  intros s Hh. unfold ExecMain.src_history in Hh.
  rewrite <- src_running_src_evs. unfold any_nil_end, any_prepfail.
  rewrite <- (has_src_evs _ (tr s)) by (intros [] He; try discriminate; reflexivity).
  rewrite <- (has_src_evs (fun e => match e with TPrepFail _ => true | _ => false end) (tr s))
    by (intros [] He; try discriminate; reflexivity).
  fold any_prepfail.
  destruct (src s).
  - rewrite Hh. split; [|split; [reflexivity|]]; cbn; [apply nil_end_failed|apply prepfail_failed].
  - rewrite Hh. split; [|split; [reflexivity|]]; [apply (nil_end_failed (S k))|apply (prepfail_failed (S k))].
  - destruct Hh as [k Hh]. rewrite Hh. split; [|split]; try reflexivity. cbn. apply prepfail_failed.
  - destruct Hh as [k Hh]. rewrite Hh. split; [|split]; try reflexivity. cbn. apply (nil_end_failed (S k)).
Qed.

(* calls in progress, length form of p1's inv_calls *)
Lemma open_calls_reachable : forall nt T s n, reachable nt T s -> n < length nt ->
  open_calls n (tr s) = length (filter is_wproc (ws (node s n))).
Proof.
  intros nt T s n HR Hn. apply ExecCount.count_inv_reachable in HR.
  destruct HR as (_ & _ & _ & _ & _ & H6 & _).
  assert (L1 : length (entered n (tr s)) = length (rets n (tr s)) + length (ExecCount.procs (ws (node s n)))).
  { rewrite <- app_length. apply ExecBase.count_item_all_length. intro x.
    rewrite ExecBase.count_item_app, <- ExecCount.procs_count. apply H6. }
  rewrite ExecCount.procs_length in L1. unfold open_calls, is_wproc. lia.
Qed.

Theorem link_reachable : forall nt T s, wf_net nt = true -> reachable nt T s -> inv_link nt s.
Proof.
  intros nt T s Hwf HR.
  destruct (link_core_reachable nt T s Hwf HR) as [K1 K2 K3 K4 K5 K6 K7 K8].
  destruct (src_clauses s (ExecMain.source_history_reachable nt T s HR)) as (Knil & Krun & Kdead).
  destruct (life'_reachable nt T s Hwf HR) as [Hs I].
  constructor; auto.
  - intros n Hn. eapply open_calls_reachable; eauto.
  - intros r Hr Hc. pose proof (i_g7 _ _ I r Hr Hc) as Hp. unfold main_past_loop in Hp.
    destruct (mn s); try discriminate; exact K8.
Qed.

Print Assumptions step_fp.
Print Assumptions link_reachable.
