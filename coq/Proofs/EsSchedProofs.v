(* the scheduled machine (token pool + goroutines) reaches, on EVERY complete schedule, the answers and bulk requests
   of the schedule-free semantics (as multisets) *)
From Coq Require Import List ZArith Bool Arith Lia ZifyBool.
From FB Require Import Lib.Sexp Lib.Eqb Lib.E7Lib Model.EsClient Judge.E7 Proofs.EsProofs Proofs.EsSpecProofs.
Import ListNotations.
Open Scope Z_scope.

Section Sched.
Variable cfg : ecfg.
Variable sc : script.

Definition FUEL := fuel_for cfg sc.
Definition pot (t : task) : nat := ((max_retries cfg - t_n t) + (script_len sc - t_send t))%nat.
Definition task_ok (t : task) : Prop := (t_n t <= max_retries cfg)%nat /\ (S (pot t) < FUEL)%nat.

Lemma fresh_ok b : task_ok (fresh b).
Proof. unfold task_ok, pot, FUEL, fuel_for; simpl. lia. Qed.

(* what a request leads to after its own response *)
Definition rest (t : task) : trace :=
  match snd (handle cfg sc t) with Some t' => lineage FUEL cfg sc t' | None => tr_empty end.

Lemma handle_next_pot t t' :
  (t_n t <= max_retries cfg)%nat -> snd (handle cfg sc t) = Some t' ->
  (t_n t' <= max_retries cfg)%nat /\ (pot t' < pot t)%nat.
Proof.
  intros Hn. destruct (t_docs t) as [|d0 ds] eqn:Ed.
  { unfold handle. rewrite Ed. discriminate. }
  assert (Hne : t_docs t <> []) by (rewrite Ed; discriminate).
  rewrite (handle_cases cfg sc t Hne). cbv zeta.
  destruct (existsb is_whole _) eqn:Ew.
  - apply existsb_exists in Ew as [o [Ho Ew]]. apply in_map_iff in Ho as [dw [<- _]]. apply whole_bound in Ew.
    intros [= <-]. unfold pot; simpl. lia.
  - destruct (forallb is_ok _); [discriminate|]. cbn [snd].
    destruct (t_n t =? max_retries cfg)%nat eqn:En; [discriminate|]. apply Nat.eqb_neq in En.
    intros [= <-]. unfold pot; simpl. lia.
Qed.

(* more fuel than needed changes nothing *)
Lemma lineage_stable : forall f t, (t_n t <= max_retries cfg)%nat -> (pot t < f)%nat ->
  lineage (S f) cfg sc t = lineage f cfg sc t.
Proof.
  induction f as [|f IH]; intros t Hn Hp; [lia|].
  rewrite (lineage_S (S f)), (lineage_S f).
  destruct (snd (handle cfg sc t)) as [t'|] eqn:E; [|reflexivity].
  destruct (handle_next_pot t t' Hn E) as [Hn' Hp']. rewrite IH; auto. lia.
Qed.

Lemma lineage_unfold t : task_ok t ->
  lineage FUEL cfg sc t
  = tr_app {| tr_answers := fst (handle cfg sc t); tr_calls := call_of t; tr_fuel_out := false |} (rest t).
Proof.
  intros [Hn Hp]. unfold rest. destruct FUEL as [|f] eqn:EF; [lia|].
  rewrite lineage_S. destruct (snd (handle cfg sc t)) as [t'|] eqn:E; [|reflexivity].
  destruct (handle_next_pot t t' Hn E) as [Hn' Hp']. rewrite lineage_stable; auto. lia.
Qed.

Lemma next_ok t t' : task_ok t -> snd (handle cfg sc t) = Some t' -> task_ok t'.
Proof. intros [Hn Hp] E. destruct (handle_next_pot t t' Hn E). split; auto. lia. Qed.

(* ---------- counting ---------- *)
Variable pa : Z * answer -> bool.
Variable pc : list doc -> bool.
Definition cA (l : list (Z * answer)) : nat := length (filter pa l).
Definition cC (l : list (list doc)) : nat := length (filter pc l).
Lemma cA_app a b : cA (a ++ b) = (cA a + cA b)%nat. Proof. unfold cA. now rewrite filter_app, app_length. Qed.
Lemma cC_app a b : cC (a ++ b) = (cC a + cC b)%nat. Proof. unfold cC. now rewrite filter_app, app_length. Qed.

Definition sumA {X} (f : X -> nat) (l : list X) : nat := fold_right (fun x acc => (f x + acc)%nat) O l.
Lemma sumA_app {X} (f : X -> nat) a b : sumA f (a ++ b) = (sumA f a + sumA f b)%nat.
Proof. induction a; simpl; lia. Qed.
Lemma sumA_remove {X} (f : X -> nat) i l x : nth_error l i = Some x -> (sumA f (remove_nth i l) + f x = sumA f l)%nat.
Proof.
  revert i; induction l as [|a l IH]; intros [|i]; simpl; try discriminate.
  - intros [= ->]. lia.
  - intros H. specialize (IH _ H). lia.
Qed.
Lemma sumA_set {X} (f : X -> nat) i l x y : nth_error l i = Some x -> (sumA f (set_nth i y l) + f x = sumA f l + f y)%nat.
Proof.
  revert i; induction l as [|a l IH]; intros [|i]; simpl; try discriminate.
  - intros [= ->]. lia.
  - intros H. specialize (IH _ H). lia.
Qed.

Definition wA (t : task) : nat := cA (tr_answers (lineage FUEL cfg sc t)).
Definition wC (t : task) : nat := cC (tr_calls (lineage FUEL cfg sc t)).
Definition rA (x : task * bool) : nat := if snd x then O else (cA (fst (handle cfg sc (fst x))) + cA (tr_answers (rest (fst x))))%nat.
Definition rC (x : task * bool) : nat := if snd x then O else cC (tr_calls (rest (fst x))).

Definition sinv (s : mstate) : Prop :=
  Forall task_ok (m_waiting s)
  /\ Forall (fun x => snd x = false -> task_ok (fst x)) (m_running s)
  /\ (cA (m_answers s) + sumA wA (m_waiting s) + sumA rA (m_running s)
      = cA (b_direct (m_batcher s)) + sumA (fun b => wA (fresh b)) (b_batches (m_batcher s)))%nat
  /\ (cC (m_calls s) + sumA wC (m_waiting s) + sumA rC (m_running s)
      = sumA (fun b => wC (fresh b)) (b_batches (m_batcher s)))%nat.

Lemma sinv_init : sinv (m_init cfg).
Proof. unfold sinv; simpl. repeat split; constructor. Qed.

Lemma bstep_extends s o :
  exists db dd, b_batches (bstep cfg s o) = b_batches s ++ db /\ b_direct (bstep cfg s o) = b_direct s ++ dd.
Proof.
  destruct o as [d|id|]; cbn [bstep].
  - destruct (length (b_pending s ++ [d]) =? batch_size cfg)%nat; cbn [b_batches b_direct].
    + exists [b_pending s ++ [d]], []. now rewrite app_nil_r.
    + exists [], []. now rewrite !app_nil_r.
  - exists [], [(id, AOther)]. cbn [b_batches b_direct]. now rewrite app_nil_r.
  - exists [b_pending s], []. cbn [b_batches b_direct]. now rewrite app_nil_r.
Qed.

Lemma wA_unfold t : task_ok t -> wA t = (cA (fst (handle cfg sc t)) + cA (tr_answers (rest t)))%nat.
Proof. intros H. unfold wA. rewrite (lineage_unfold t H). cbn [tr_app tr_answers]. apply cA_app. Qed.
Lemma wC_unfold t : task_ok t -> wC t = (cC (call_of t) + cC (tr_calls (rest t)))%nat.
Proof. intros H. unfold wC. rewrite (lineage_unfold t H). cbn [tr_app tr_calls]. apply cC_app. Qed.

Lemma Forall_remove_nth {X} (P : X -> Prop) i l : Forall P l -> Forall P (remove_nth i l).
Proof. revert i; induction l as [|a l IH]; intros [|i] H; simpl; auto; inversion H; subst; auto. Qed.
Lemma Forall_set_nth {X} (P : X -> Prop) i y l : Forall P l -> P y -> Forall P (set_nth i y l).
Proof. revert i; induction l as [|a l IH]; intros [|i] H Hy; simpl; auto; inversion H; subst; auto. Qed.
Lemma Forall_nth_error {X} (P : X -> Prop) i l x : Forall P l -> nth_error l i = Some x -> P x.
Proof. intros H E. rewrite Forall_forall in H. apply H. eapply nth_error_In; eauto. Qed.

Lemma sinv_step s a s' : mstep cfg sc s a = Some s' -> sinv s -> sinv s'.
Proof.
  intros Hs [Hw [Hr [HA HC]]]. destruct a as [o| |i|i|i]; cbn [mstep] in Hs.
  - destruct (m_stopped s); [discriminate|]. injection Hs as <-.
    destruct (bstep_extends (m_batcher s) o) as [db [dd [Eb Ed]]].
    unfold sinv, new_batches. cbn [m_waiting m_running m_answers m_calls m_batcher].
    rewrite Eb, Ed, !skipn_app_exact. repeat split.
    + apply Forall_app; split; auto. apply Forall_forall. intros t Ht. apply in_map_iff in Ht as [b [<- _]]. apply fresh_ok.
    + assumption.
    + rewrite !cA_app, !sumA_app.
      assert (sumA wA (map fresh db) = sumA (fun b => wA (fresh b)) db) by (clear; induction db; simpl; auto).
      lia.
    + rewrite !sumA_app.
      assert (sumA wC (map fresh db) = sumA (fun b => wC (fresh b)) db) by (clear; induction db; simpl; auto).
      lia.
  - injection Hs as <-. unfold sinv; simpl. auto.
  - destruct (nth_error (m_waiting s) i) as [t|] eqn:En; [|discriminate].
    destruct (m_tokens s) as [|k]; [discriminate|]. injection Hs as <-.
    pose proof (Forall_nth_error _ _ _ _ Hw En) as Hok.
    unfold sinv. cbn [m_waiting m_running m_answers m_calls m_batcher]. repeat split.
    + now apply Forall_remove_nth.
    + apply Forall_app; split; auto.
    + pose proof (sumA_remove wA _ _ _ En) as H. rewrite sumA_app.
      assert (E1 : sumA rA [(t, false)] = (cA (fst (handle cfg sc t)) + cA (tr_answers (rest t)))%nat) by (simpl; unfold rA; simpl; lia).
      rewrite E1. rewrite (wA_unfold t Hok) in H. lia.
    + pose proof (sumA_remove wC _ _ _ En) as H. rewrite sumA_app, cC_app.
      assert (E1 : sumA rC [(t, false)] = cC (tr_calls (rest t))) by (simpl; unfold rC; simpl; lia).
      rewrite E1. rewrite (wC_unfold t Hok) in H. lia.
  - destruct (nth_error (m_running s) i) as [[t [|]]|] eqn:En; try discriminate.
    destruct (handle cfg sc t) as [ans next] eqn:Eh. injection Hs as <-.
    pose proof (Forall_nth_error _ _ _ _ Hr En eq_refl) as Hok. cbn [fst] in Hok.
    assert (Hnext : Forall task_ok (opt_list next)).
    { destruct next as [t'|]; simpl; constructor; [|constructor]. apply (next_ok t t' Hok). now rewrite Eh. }
    unfold sinv. cbn [m_waiting m_running m_answers m_calls m_batcher]. repeat split.
    + apply Forall_app; split; auto.
    + apply Forall_set_nth; auto; cbn [snd]; discriminate.
    + pose proof (sumA_set rA _ _ _ (t, true) En) as H.
      assert (E1 : rA (t, false) = (cA ans + cA (tr_answers (rest t)))%nat) by (unfold rA; cbn [fst snd]; now rewrite Eh).
      assert (E2 : rA (t, true) = O) by reflexivity. rewrite E1, E2 in H.
      rewrite cA_app, sumA_app.
      assert (sumA wA (opt_list next) = cA (tr_answers (rest t))).
      { unfold rest. rewrite Eh. cbn [snd]. destruct next; simpl; [unfold wA; lia|reflexivity]. }
      lia.
    + pose proof (sumA_set rC _ _ _ (t, true) En) as H.
      assert (E1 : rC (t, false) = cC (tr_calls (rest t))) by reflexivity.
      assert (E2 : rC (t, true) = O) by reflexivity. rewrite E1, E2 in H.
      rewrite sumA_app.
      assert (sumA wC (opt_list next) = cC (tr_calls (rest t))).
      { unfold rest. rewrite Eh. cbn [snd]. destruct next; simpl; [unfold wC; lia|reflexivity]. }
      lia.
  - destruct (nth_error (m_running s) i) as [[t [|]]|] eqn:En; try discriminate. injection Hs as <-.
    unfold sinv. cbn [m_waiting m_running m_answers m_calls m_batcher]. repeat split; auto.
    + now apply Forall_remove_nth.
    + pose proof (sumA_remove rA _ _ _ En) as H. assert (E2 : rA (t, true) = O) by reflexivity. rewrite E2 in H. lia.
    + pose proof (sumA_remove rC _ _ _ En) as H. assert (E2 : rC (t, true) = O) by reflexivity. rewrite E2 in H. lia.
Qed.

Lemma sinv_run sch : forall s s', mrun cfg sc s sch = Some s' -> sinv s -> sinv s'.
Proof.
  induction sch as [|a sch IH]; simpl; intros s s'.
  - intros [= <-]; auto.
  - destruct (mstep cfg sc s a) as [s1|] eqn:E; [|discriminate]. intros Hr Hi. eapply IH; eauto using sinv_step.
Qed.

Lemma sum_run_trace_A bs : sumA (fun b => wA (fresh b)) bs = cA (tr_answers (run_trace cfg sc bs)).
Proof. induction bs as [|b bs IH]; simpl; [reflexivity|]. rewrite cA_app, <- IH. reflexivity. Qed.
Lemma sum_run_trace_C bs : sumA (fun b => wC (fresh b)) bs = cC (tr_calls (run_trace cfg sc bs)).
Proof. induction bs as [|b bs IH]; simpl; [reflexivity|]. rewrite cC_app, <- IH. reflexivity. Qed.

Lemma quiescent_counts sch s :
  mrun cfg sc (m_init cfg) sch = Some s -> quiescent s = true ->
  cA (m_answers s) = cA (b_direct (m_batcher s) ++ tr_answers (run_trace cfg sc (b_batches (m_batcher s))))
  /\ cC (m_calls s) = cC (tr_calls (run_trace cfg sc (b_batches (m_batcher s)))).
Proof.
  intros Hr Hq. destruct (sinv_run _ _ _ Hr sinv_init) as [_ [_ [HA HC]]].
  unfold quiescent in Hq. destruct (m_waiting s); [|discriminate]. destruct (m_running s); [|discriminate].
  simpl in HA, HC. rewrite cA_app, <- sum_run_trace_A, <- sum_run_trace_C. lia.
Qed.
End Sched.

(* the batcher inside the machine is the batcher run on the arrivals of the schedule *)
Definition sched_ops (sch : list action) : list op :=
  flat_map (fun a => match a with AOp o => [o] | _ => [] end) sch.

Lemma mstep_batcher cfg sc s a s' :
  mstep cfg sc s a = Some s' ->
  m_batcher s' = fold_left (bstep cfg) (sched_ops [a]) (m_batcher s).
Proof.
  destruct a as [o| |i|i|i]; cbn [mstep sched_ops flat_map app fold_left].
  - destruct (m_stopped s); [discriminate|]. now intros [= <-].
  - now intros [= <-].
  - destruct (nth_error (m_waiting s) i); [|discriminate]. destruct (m_tokens s); [discriminate|]. now intros [= <-].
  - destruct (nth_error (m_running s) i) as [[t [|]]|]; try discriminate. destruct (handle cfg sc t). now intros [= <-].
  - destruct (nth_error (m_running s) i) as [[t [|]]|]; try discriminate. now intros [= <-].
Qed.

Lemma mrun_batcher cfg sc sch : forall s s',
  mrun cfg sc s sch = Some s' -> m_batcher s' = fold_left (bstep cfg) (sched_ops sch) (m_batcher s).
Proof.
  induction sch as [|a sch IH]; simpl; intros s s'.
  - now intros [= <-].
  - destruct (mstep cfg sc s a) as [s1|] eqn:E; [|discriminate]. intros Hr.
    rewrite (IH _ _ Hr), (mstep_batcher _ _ _ _ _ E). unfold sched_ops. cbn [flat_map].
    rewrite app_nil_r, fold_left_app. reflexivity.
Qed.

(* Every complete schedule — any interleaving of arrivals, timer firings, Shutdown, token acquisitions, responses and
   token releases that leaves no goroutine waiting or running — yields, as multisets, exactly the answers and the
   bulk requests of the schedule-free semantics [es_run] on the arrivals of that schedule. *)
Theorem schedule_independent cfg sc sch s :
  mrun cfg sc (m_init cfg) sch = Some s -> quiescent s = true ->
  let r := es_run cfg sc (sched_ops sch) false in
  (forall pa, length (filter pa (m_answers s)) = length (filter pa (e_answers r)))
  /\ (forall pc, length (filter pc (m_calls s)) = length (filter pc (e_calls r))).
Proof.
  intros Hr Hq. cbv zeta.
  assert (EB : m_batcher s = brun cfg (sched_ops sch)) by (apply (mrun_batcher _ _ _ _ _ Hr)).
  unfold es_run, bfinish. cbn [e_answers e_calls]. rewrite <- EB.
  split; intros p.
  - destruct (quiescent_counts cfg sc p (fun _ => true) sch s Hr Hq) as [A _]. exact A.
  - destruct (quiescent_counts cfg sc (fun _ => true) p sch s Hr Hq) as [_ C]. exact C.
Qed.
