(* E1 — soundness of the trace specification: every run of the model satisfies [trace_ok]
   (Model/TraceSpec.v), for every well-formed net whose nodes all have at least one worker.
   Each step prepends events whose [ev_ok] is [] given the invariants of the pre-state:
   [inv_link] (Proofs/ExecLink.v), [inv_life'] (Proofs/ExecLife.v), [inv_count] (Proofs/ExecCount.v),
   [src_history] (Proofs/ExecMain.v). *)
From Coq Require Import List ZArith Bool Arith Lia.
From FB Require Import Model.Exec Model.TraceSpec Model.ExecInv.
From FB Require Proofs.ExecBase Proofs.ExecCount Proofs.ExecMain.
From FB Require Import Proofs.ExecLifeBase Proofs.ExecLife Proofs.ExecLink.
Import ListNotations.
Local Open Scope nat_scope.

(* ------------------------------------------------------------------ small list facts *)
Lemma filter_lt : forall A (f : A -> bool) l i a, nth_error l i = Some a -> f a = false ->
  length (filter f l) < length l.
Proof.
  induction l as [|b l IH]; intros i a H Hf; destruct i; cbn in *; try discriminate.
  - inversion H; subst. rewrite Hf. pose proof (ExecCount.filter_length_bound _ f l). lia.
  - specialize (IH i a H Hf). destruct (f b); cbn; lia.
Qed.

Lemma filter_none : forall A (f : A -> bool) l, (forall i a, nth_error l i = Some a -> f a = false) -> filter f l = [].
Proof.
  induction l as [|b l IH]; intros H; cbn; auto.
  rewrite (H 0 b eq_refl). apply IH. intros i a Hi. apply (H (S i) a Hi).
Qed.

Lemma filter_two : forall A (f : A -> bool) l i j a b, nth_error l i = Some a -> nth_error l j = Some b ->
  i <> j -> f a = true -> f b = true -> 2 <= length (filter f l).
Proof.
  intros A f l i j a b Hi Hj Hne Ha Hb.
  destruct (existsb (fun _ => true) l) eqn:E; [|].
  2:{ assert (existsb (fun _ : A => true) l = true) by (eapply existsb_nth_error; eauto). congruence. }
  clear E. revert i j Hi Hj Hne.
  induction l as [|c l IH]; intros i j Hi Hj Hne; [destruct i; discriminate|].
  destruct i, j; cbn in *; try congruence.
  - inversion Hi; subst. rewrite Ha. pose proof (filter_pos _ f l j b Hj Hb). cbn. lia.
  - inversion Hj; subst. rewrite Hb. pose proof (filter_pos _ f l i a Hi Ha). cbn. lia.
  - assert (i <> j) by congruence. specialize (IH i j Hi Hj H). destruct (f c); cbn; lia.
Qed.

Lemma sumf_ge : forall A (f : A -> nat) l i a, nth_error l i = Some a -> f a <= sumf f l.
Proof.
  induction l as [|b l IH]; intros i a H; destruct i; cbn in *; try discriminate.
  - inversion H; subst. lia.
  - specialize (IH i a H). lia.
Qed.

(* ------------------------------------------------------------------ ev_ok, clause by clause *)
Lemma ev_ok_emit : forall nt e p, src_running p = true -> any_prepfail p = false -> ev_ok nt (TEmit e) p = [].
Proof. intros. unfold ev_ok. rewrite H, H0. reflexivity. Qed.

Lemma ev_ok_end : forall nt k b p, started k p = true -> ended k p = false -> any_prepfail p = false ->
  ev_ok nt (TEnd k b) p = [].
Proof. intros. unfold ev_ok. rewrite H, H0, H1. reflexivity. Qed.

Lemma ev_ok_prep_succ : forall nt k p, prepped (S k) p = false -> ended_with k false p = true ->
  any_prepfail p = false -> ev_ok nt (TPrep (S k)) p = [].
Proof. intros. unfold ev_ok. rewrite H, H0, H1. reflexivity. Qed.

Lemma ev_ok_prepfail_succ : forall nt k p, prepped (S k) p = false -> ended_with k false p = true ->
  any_prepfail p = false -> ev_ok nt (TPrepFail (S k)) p = [].
Proof. intros. unfold ev_ok. rewrite H, H0, H1. reflexivity. Qed.

Lemma ev_ok_start_succ : forall nt k p, prepped (S k) p = true -> started (S k) p = false ->
  ended_with k false p = true -> any_nil_end p = false -> any_prepfail p = false -> ev_ok nt (TStart (S k)) p = [].
Proof. intros. unfold ev_ok. rewrite H, H0, H1, H2, H3. reflexivity. Qed.

Lemma ev_ok_done : forall nt clean p, is_done p = false ->
  (clean = true -> forallb (fun n => shute n p) (seq 0 (length nt)) = true) -> ev_ok nt (TDone clean) p = [].
Proof. intros. unfold ev_ok. rewrite H. destruct clean; auto. rewrite H0; auto. Qed.

Lemma ev_ok_enter : forall nt n it p, is_setup n p = true -> shutb n p = false ->
  (open_calls n p <? nworkers (info nt n)) = true ->
  (count_item it (entered n p) <? count_item it (supply nt n p)) = true ->
  ev_ok nt (TEnter n it) p = [].
Proof. intros. unfold ev_ok. rewrite H, H0, H1, H2. reflexivity. Qed.

Lemma ev_ok_ret : forall nt n it o p, (count_item it (rets n p) <? count_item it (entered n p)) = true ->
  ev_ok nt (TRet n it o) p = [].
Proof. intros. unfold ev_ok. rewrite H. reflexivity. Qed.

Lemma ev_ok_cb : forall nt n it o p, (count_item it (cbacks n p) <? count_item it (laters n p)) = true ->
  ev_ok nt (TCb n it o) p = [].
Proof. intros. unfold ev_ok. rewrite H. reflexivity. Qed.

Lemma ev_ok_shutb : forall nt n p, shutb n p = false -> (open_calls n p =? 0) = true ->
  upstream_finished nt n p = true -> ev_ok nt (TShutBegin n) p = [].
Proof. intros. unfold ev_ok. rewrite H, H0, H1. reflexivity. Qed.

Lemma ev_ok_shute : forall nt n p, shutb n p = true -> shute n p = false -> ev_ok nt (TShutEnd n) p = [].
Proof. intros. unfold ev_ok. rewrite H, H0. reflexivity. Qed.

(* ------------------------------------------------------------------ the source history *)
Lemma started_src : forall k p, started k (ExecMain.src_evs p) = started k p.
Proof. intros. apply has_src_evs. intros [] H; try discriminate; reflexivity. Qed.
Lemma ended_src : forall k p, ended k (ExecMain.src_evs p) = ended k p.
Proof. intros. apply has_src_evs. intros [] H; try discriminate; reflexivity. Qed.
Lemma prepped_src : forall k p, prepped k (ExecMain.src_evs p) = prepped k p.
Proof. intros. apply has_src_evs. intros [] H; try discriminate; reflexivity. Qed.
Lemma ended_with_src : forall k b p, ended_with k b (ExecMain.src_evs p) = ended_with k b p.
Proof. intros. apply has_src_evs. intros [] H; try discriminate; reflexivity. Qed.

Lemma failed_fresh : forall k' k, k' <= k ->
  started k (ExecMain.failed k') = false /\ ended k (ExecMain.failed k') = false /\ prepped k (ExecMain.failed k') = false.
Proof.
  induction k' as [|j IH]; intros k Hle; [repeat split; reflexivity|].
  destruct (IH k ltac:(lia)) as (A & B & C).
  assert (E : (j =? k) = false) by (apply Nat.eqb_neq; lia).
  unfold started, ended, prepped, has in *. cbn [ExecMain.failed existsb]. rewrite E, A, B, C. repeat split; reflexivity.
Qed.

(* ------------------------------------------------------------------ feeders *)
Lemma find_parent_spec : forall l i c,
  match find_parent l i c with
  | FSource => False
  | FResults m => i <= m < i + length l /\ In c (nkids (nth (m - i) l dummy_info))
  | FFails m => i <= m < i + length l /\ nhandler (nth (m - i) l dummy_info) = Some c
  | FNone => forall j, j < length l -> ~ In c (targets (nth j l dummy_info))
  end.
Proof.
  induction l as [|x l IH]; intros i c; cbn [find_parent].
  - intros j Hj. cbn in Hj. lia.
  - destruct (existsb (Nat.eqb c) (nkids x)) eqn:Ek.
    + cbn [length]. split; [lia|]. rewrite Nat.sub_diag. cbn [nth].
      apply existsb_exists in Ek. destruct Ek as [y [Hy Hcy]]. apply Nat.eqb_eq in Hcy. subst. exact Hy.
    + assert (Hnk : ~ In c (nkids x)).
      { intro Hin. assert (existsb (Nat.eqb c) (nkids x) = true).
        { apply existsb_exists. exists c. split; auto. apply Nat.eqb_refl. } congruence. }
      assert (Hrec : match find_parent l (S i) c with
                     | FSource => False
                     | FResults m => i <= m < i + length (x :: l) /\ In c (nkids (nth (m - i) (x :: l) dummy_info))
                     | FFails m => i <= m < i + length (x :: l) /\ nhandler (nth (m - i) (x :: l) dummy_info) = Some c
                     | FNone => (nhandler x <> Some c) -> forall j, j < length (x :: l) -> ~ In c (targets (nth j (x :: l) dummy_info))
                     end).
      { specialize (IH (S i) c). destruct (find_parent l (S i) c); auto.
        - destruct IH as [A B]. cbn [length]. split; [lia|]. replace (m - i) with (S (m - S i)) by lia. exact B.
        - destruct IH as [A B]. cbn [length]. split; [lia|]. replace (m - i) with (S (m - S i)) by lia. exact B.
        - intros Hh j Hj. destruct j as [|j]; cbn [nth].
          + unfold targets. intro Hin. apply in_app_or in Hin. destruct Hin as [Hin|Hin]; [contradiction|].
            destruct (nhandler x); [|destruct Hin]. destruct Hin as [->|[]]. congruence.
          + apply IH. cbn in Hj. lia. }
      destruct (nhandler x) as [h|] eqn:Eh.
      * destruct (Nat.eqb_spec h c) as [->|Hne].
        -- cbn [length]. split; [lia|]. rewrite Nat.sub_diag. cbn [nth]. exact Eh.
        -- destruct (find_parent l (S i) c); auto. apply Hrec. congruence.
      * destruct (find_parent l (S i) c); auto. apply Hrec. congruence.
Qed.

Lemma root_role : forall nt n, In n (roots nt) <-> n < length nt /\ nrole (info nt n) = RRoot.
Proof.
  intros. unfold roots, info. rewrite roots_from_spec. rewrite Nat.sub_0_r. cbn. split; intros; intuition lia.
Qed.

(* the feeder computed by the specification is the unique node that lists c among its targets *)
Lemma feeder_of_target : forall nt m c, wf_net nt = true -> m < length nt -> In c (targets (info nt m)) ->
  feeder_of nt c = FResults m \/ feeder_of nt c = FFails m.
Proof.
  intros nt m c Hwf Hm Hc. unfold feeder_of.
  assert (Hc' : c < length nt) by (eapply wf_target_lt; eauto).
  destruct (nrole (info nt c)) eqn:Er.
  - exfalso. apply (wf_target_not_root nt Hwf m c Hm Hc). apply root_role. auto.
  - pose proof (find_parent_spec nt 0 c) as Hs. destruct (find_parent nt 0 c) as [|m'|m'|].
    + contradiction.
    + destruct Hs as [A B]. rewrite Nat.sub_0_r in B. left. f_equal.
      eapply (wf_targets_unique nt Hwf m' m c); eauto; try lia. unfold targets, info. apply in_or_app; auto.
    + destruct Hs as [A B]. rewrite Nat.sub_0_r in B. right. f_equal.
      eapply (wf_targets_unique nt Hwf m' m c); eauto; try lia. unfold targets, info. rewrite B. apply in_or_app; right; left; auto.
    + exfalso. apply (Hs m Hm). exact Hc.
  - pose proof (find_parent_spec nt 0 c) as Hs. destruct (find_parent nt 0 c) as [|m'|m'|].
    + contradiction.
    + destruct Hs as [A B]. rewrite Nat.sub_0_r in B. left. f_equal.
      eapply (wf_targets_unique nt Hwf m' m c); eauto; try lia. unfold targets, info. apply in_or_app; auto.
    + destruct Hs as [A B]. rewrite Nat.sub_0_r in B. right. f_equal.
      eapply (wf_targets_unique nt Hwf m' m c); eauto; try lia. unfold targets, info. rewrite B. apply in_or_app; right; left; auto.
    + exfalso. apply (Hs m Hm). exact Hc.
Qed.

(* ------------------------------------------------------------------ the initial trace *)
Lemma has_rev_setups : forall P l, (forall m, P (TSetup m) = false) -> has P (rev (map TSetup l)) = false.
Proof.
  intros P l HP. unfold has. destruct (existsb P (rev (map TSetup l))) eqn:E; auto.
  apply existsb_exists in E. destruct E as [e [Hin He]]. apply in_rev, in_map_iff in Hin.
  destruct Hin as [m [<- _]]. rewrite HP in He. discriminate.
Qed.

Lemma trace_ok_setups : forall nt k, k <= length nt ->
  trace_ok nt (rev (map TSetup (seq 0 k)) ++ [TPrep 0]) = [].
Proof.
  intros nt k. induction k as [|k IH]; intros Hk.
  - reflexivity.
  - rewrite seq_S, map_app, rev_app_distr. cbn [map rev app plus trace_ok].
    rewrite IH by lia. rewrite app_nil_r.
    unfold ev_ok.
    replace (k <? length nt) with true by (symmetry; apply Nat.ltb_lt; lia).
    assert (A : is_setup k (rev (map TSetup (seq 0 k)) ++ [TPrep 0]) = false).
    { unfold is_setup. rewrite has_app. cbn. rewrite orb_false_r.
      unfold has. destruct (existsb _ _) eqn:E; auto. apply existsb_exists in E. destruct E as [e [Hin He]].
      apply in_rev, in_map_iff in Hin. destruct Hin as [m [<- Hm]]. apply in_seq in Hm.
      apply Nat.eqb_eq in He. lia. }
    assert (B : any_start (rev (map TSetup (seq 0 k)) ++ [TPrep 0]) = false).
    { unfold any_start. rewrite has_app. cbn. rewrite orb_false_r. apply has_rev_setups. reflexivity. }
    rewrite A, B. reflexivity.
Qed.

Lemma trace_ok_init : forall nt, trace_ok nt (tr (init nt)) = [].
Proof.
  intros nt. unfold init; cbn [tr trace_ok]. rewrite trace_ok_setups by lia. rewrite app_nil_r.
  unfold ev_ok.
  assert (A : prepped 0 (rev (map TSetup (seq 0 (length nt))) ++ [TPrep 0]) = true).
  { unfold prepped. rewrite has_app. cbn. apply orb_true_r. }
  assert (B : started 0 (rev (map TSetup (seq 0 (length nt))) ++ [TPrep 0]) = false).
  { unfold started. rewrite has_app. cbn. rewrite orb_false_r. apply has_rev_setups. reflexivity. }
  assert (C : any_nil_end (rev (map TSetup (seq 0 (length nt))) ++ [TPrep 0]) = false).
  { unfold any_nil_end. rewrite has_app. cbn. rewrite orb_false_r. apply has_rev_setups. reflexivity. }
  assert (D : any_prepfail (rev (map TSetup (seq 0 (length nt))) ++ [TPrep 0]) = false).
  { unfold any_prepfail. rewrite has_app. cbn. rewrite orb_false_r. apply has_rev_setups. reflexivity. }
  rewrite A, B, C, D. reflexivity.
Qed.

(* ------------------------------------------------------------------ what the trace entitles a node to *)
(* [produced nt c x p] (the left side of p1's CONS invariant) is exactly the number of x in the
   specification's [supply nt c p]: only the unique feeder of c contributes *)
Lemma cnt_pair_none : forall c x l, (forall d, In d l -> fst d <> c) -> cnt_pair c x l = 0.
Proof.
  intros c x l H. unfold cnt_pair. rewrite filter_none; auto.
  intros i d Hi. unfold pair_is. apply nth_error_In in Hi. specialize (H d Hi).
  replace (fst d =? c) with false by (symmetry; apply Nat.eqb_neq; auto). reflexivity.
Qed.

Lemma cnt_pair_not_target : forall nt c x m it o, ~ In c (targets (info nt m)) ->
  cnt_pair c x (deliveries nt m it o) = 0.
Proof.
  intros. apply cnt_pair_none. intros d Hd E. subst. apply H. eapply deliveries_targets; eauto.
Qed.

Lemma cnt_pair_own : forall c x (f : Z -> item) es,
  cnt_pair c x (map (fun e => (c, f e)) es) = count_item x (map f es).
Proof.
  intros. induction es as [|e es IH]; [reflexivity|].
  cbn [map]. rewrite ExecBase.cnt_pair_cons, IH. cbn [count_item]. unfold pair_is. cbn [fst snd].
  rewrite Nat.eqb_refl, (ExecBase.item_eqb_sym x (f e)). reflexivity.
Qed.

Lemma cnt_pair_fanout : forall c x es kids, NoDup kids -> In c kids ->
  cnt_pair c x (flat_map (fun c' => map (fun e => (c', (e, 0%Z))) es) kids)
  = count_item x (map (fun e => (e, 0%Z)) es).
Proof.
  intros c x es kids. induction kids as [|k ks IH]; intros Hnd Hin; [destruct Hin|].
  inversion Hnd; subst. cbn [flat_map]. rewrite ExecBase.cnt_pair_app.
  destruct (Nat.eq_dec k c) as [->|Hne].
  - rewrite (cnt_pair_own c x (fun e => (e, 0%Z))).
    rewrite (cnt_pair_none c x (flat_map _ ks)); [apply Nat.add_0_r|].
    intros d Hd E. apply in_flat_map in Hd. destruct Hd as [c' [Hc' Hd]]. apply in_map_iff in Hd.
    destruct Hd as [e [<- _]]. cbn in E. subst. contradiction.
  - rewrite (cnt_pair_none c x (map _ es)).
    + destruct Hin as [->|Hin]; [congruence|]. rewrite IH; auto.
    + intros d Hd E. apply in_map_iff in Hd. destruct Hd as [e [<- _]]. cbn in E. congruence.
Qed.

Lemma cnt_pair_kids_none : forall c x es kids, ~ In c kids ->
  cnt_pair c x (flat_map (fun c' => map (fun e => (c', (e, 0%Z))) es) kids) = 0.
Proof.
  intros. apply cnt_pair_none. intros d Hd E. apply in_flat_map in Hd. destruct Hd as [c' [Hc' Hd]].
  apply in_map_iff in Hd. destruct Hd as [e [<- _]]. cbn in E. subst. contradiction.
Qed.

Lemma cnt_nat_notin : forall c l, ~ In c l -> cnt_nat c l = 0.
Proof.
  intros. unfold cnt_nat. rewrite filter_none; auto. intros i a Hi. apply nth_error_In in Hi.
  apply Nat.eqb_neq. intro; subst; contradiction.
Qed.

Lemma cnt_nat_nodup : forall c l, NoDup l -> In c l -> cnt_nat c l = 1.
Proof.
  intros c l. induction l as [|a l IH]; intros Hnd Hin; [destruct Hin|].
  inversion Hnd; subst. rewrite ExecBase.cnt_nat_cons. destruct Hin as [->|Hin].
  - rewrite Nat.eqb_refl, cnt_nat_notin; auto.
  - replace (c =? a) with false by (symmetry; apply Nat.eqb_neq; intro; subst; contradiction).
    rewrite IH; auto.
Qed.

Lemma targets_oob : forall nt m, length nt <= m -> targets (info nt m) = [].
Proof. intros. unfold info. rewrite nth_overflow by assumption. reflexivity. Qed.

Lemma supply_cons : forall nt c e p, supply nt c (e :: p) = supply nt c [e] ++ supply nt c p.
Proof.
  intros. unfold supply. destruct (feeder_of nt c).
  - apply (ExecBase.emitted_app [e] p).
  - apply (ExecBase.results_app m [e] p).
  - apply (ExecBase.failreps_app m [e] p).
  - reflexivity.
Qed.

(* classification of a node by its feeder *)
Inductive fed_by (nt : net) (c : nat) : feeder -> Prop :=
| fed_source : In c (roots nt) -> fed_by nt c FSource
| fed_results : forall m, m < length nt -> In c (nkids (info nt m)) -> nhandler (info nt m) <> Some c ->
                ~ In c (roots nt) -> fed_by nt c (FResults m)
| fed_fails : forall m, m < length nt -> nhandler (info nt m) = Some c -> ~ In c (nkids (info nt m)) ->
              ~ In c (roots nt) -> fed_by nt c (FFails m)
| fed_none : (forall m, ~ In c (targets (info nt m))) -> ~ In c (roots nt) -> fed_by nt c FNone.

Lemma feeder_of_fed : forall nt c, wf_net nt = true -> c < length nt -> fed_by nt c (feeder_of nt c).
Proof.
  intros nt c Hwf Hc. unfold feeder_of.
  destruct (nrole (info nt c)) eqn:Er.
  - apply fed_source. apply root_role; auto.
  - assert (Hnr : ~ In c (roots nt)) by (intro Hr; apply root_role in Hr; destruct Hr; congruence).
    pose proof (find_parent_spec nt 0 c) as Hs. destruct (find_parent nt 0 c) as [|m|m|]; [contradiction| | |].
    + destruct Hs as [A B]. rewrite Nat.sub_0_r in B. assert (Hm : m < length nt) by lia.
      pose proof (wf_targets_NoDup nt Hwf m Hm) as Hnd. unfold targets in Hnd. fold (info nt m) in B.
      apply fed_results; auto. intro Eh. rewrite Eh in Hnd.
      apply (NoDup_app_disj _ _ _ c Hnd); auto. left; auto.
    + destruct Hs as [A B]. rewrite Nat.sub_0_r in B. assert (Hm : m < length nt) by lia.
      pose proof (wf_targets_NoDup nt Hwf m Hm) as Hnd. unfold targets in Hnd. fold (info nt m) in B.
      apply fed_fails; auto. intro Hk. rewrite B in Hnd.
      apply (NoDup_app_disj _ _ _ c Hnd); auto. left; auto.
    + apply fed_none; auto. intros m Hin. destruct (Nat.lt_ge_cases m (length nt)) as [Hm|Hm].
      * apply (Hs m Hm). exact Hin.
      * rewrite targets_oob in Hin by assumption. destruct Hin.
  - assert (Hnr : ~ In c (roots nt)) by (intro Hr; apply root_role in Hr; destruct Hr; congruence).
    pose proof (find_parent_spec nt 0 c) as Hs. destruct (find_parent nt 0 c) as [|m|m|]; [contradiction| | |].
    + destruct Hs as [A B]. rewrite Nat.sub_0_r in B. assert (Hm : m < length nt) by lia.
      pose proof (wf_targets_NoDup nt Hwf m Hm) as Hnd. unfold targets in Hnd. fold (info nt m) in B.
      apply fed_results; auto. intro Eh. rewrite Eh in Hnd.
      apply (NoDup_app_disj _ _ _ c Hnd); auto. left; auto.
    + destruct Hs as [A B]. rewrite Nat.sub_0_r in B. assert (Hm : m < length nt) by lia.
      pose proof (wf_targets_NoDup nt Hwf m Hm) as Hnd. unfold targets in Hnd. fold (info nt m) in B.
      apply fed_fails; auto. intro Hk. rewrite B in Hnd.
      apply (NoDup_app_disj _ _ _ c Hnd); auto. left; auto.
    + apply fed_none; auto. intros m Hin. destruct (Nat.lt_ge_cases m (length nt)) as [Hm|Hm].
      * apply (Hs m Hm). exact Hin.
      * rewrite targets_oob in Hin by assumption. destruct Hin.
Qed.

(* a node other than the feeder never delivers to c *)
Lemma other_not_target : forall nt c m0 m, wf_net nt = true -> m0 < length nt ->
  In c (targets (info nt m0)) -> m <> m0 -> ~ In c (targets (info nt m)).
Proof.
  intros nt c m0 m Hwf Hm0 Hc Hne Hin. destruct (Nat.lt_ge_cases m (length nt)) as [Hm|Hm].
  - apply Hne. eapply wf_targets_unique; eauto.
  - rewrite targets_oob in Hin by assumption. destruct Hin.
Qed.

Lemma root_not_target : forall nt c m, wf_net nt = true -> In c (roots nt) -> ~ In c (targets (info nt m)).
Proof.
  intros nt c m Hwf Hr Hin. destruct (Nat.lt_ge_cases m (length nt)) as [Hm|Hm].
  - eapply wf_target_not_root; eauto.
  - rewrite targets_oob in Hin by assumption. destruct Hin.
Qed.

Lemma results_single : forall m n it o,
  results m [TRet n it o] = (if n =? m then match o with ORes es => map (fun e => (e, 0%Z)) es | _ => [] end else [])
  /\ results m [TCb n it o] = (if n =? m then match o with ORes es => map (fun e => (e, 0%Z)) es | _ => [] end else []).
Proof.
  intros. unfold results, outcomes. cbn [flat_map]. destruct (n =? m); [|split; reflexivity].
  destruct o; cbn; rewrite ?app_nil_r; split; reflexivity.
Qed.

Lemma failreps_single : forall m n it o,
  failreps m [TRet n it o] = (if n =? m then match o with OFail err => [(fst it, err)] | _ => [] end else [])
  /\ failreps m [TCb n it o] = (if n =? m then match o with OFail err => [(fst it, err)] | _ => [] end else []).
Proof.
  intros. unfold failreps, outcomes. cbn [flat_map]. destruct (n =? m); [|split; reflexivity].
  destruct o; cbn; split; reflexivity.
Qed.

(* deliveries of the feeder m to its child c / its handler c *)
Lemma deliveries_to_kid : forall nt c x m it o, NoDup (targets (info nt m)) -> In c (nkids (info nt m)) ->
  nhandler (info nt m) <> Some c ->
  cnt_pair c x (deliveries nt m it o)
  = count_item x (match o with ORes es => map (fun e => (e, 0%Z)) es | _ => [] end).
Proof.
  intros nt c x m it o Hnd Hk Hh. destruct o as [es|err|]; cbn [deliveries].
  - apply cnt_pair_fanout; auto. unfold targets in Hnd. eapply NoDup_app_l; eauto.
  - destruct (nhandler (info nt m)) as [h|]; [|reflexivity].
    apply cnt_pair_none. intros d [<-|[]] E. cbn in E. congruence.
  - reflexivity.
Qed.

Lemma deliveries_to_handler : forall nt c x m it o, nhandler (info nt m) = Some c -> ~ In c (nkids (info nt m)) ->
  cnt_pair c x (deliveries nt m it o)
  = count_item x (match o with OFail err => [(fst it, err)] | _ => [] end).
Proof.
  intros nt c x m it o Hh Hk. destruct o as [es|err|]; cbn [deliveries].
  - apply cnt_pair_kids_none; auto.
  - rewrite Hh. rewrite ExecBase.cnt_pair_cons, ExecBase.cnt_pair_nil. unfold pair_is. cbn [fst snd count_item].
    rewrite Nat.eqb_refl, (ExecBase.item_eqb_sym x). reflexivity.
  - reflexivity.
Qed.

Lemma produced_by_supply : forall nt c x e, wf_net nt = true -> c < length nt ->
  produced_by nt c x e = count_item x (supply nt c [e]).
Proof.
  intros nt c x e Hwf Hc. pose proof (feeder_of_fed nt c Hwf Hc) as Hf.
  unfold supply. remember (feeder_of nt c) as f eqn:Ef. clear Ef.
  destruct Hf as [Hr | m Hm Hk Hh Hnr | m Hm Hh Hk Hnr | Hno Hnr].
  - (* a root: fed by the source only *)
    destruct e; try reflexivity; cbn [produced_by].
    + cbn. rewrite cnt_nat_nodup by (auto using wf_roots_NoDup).
      rewrite (ExecBase.item_eqb_sym x). destruct (item_eqb _ _); reflexivity.
    + rewrite cnt_pair_not_target by (apply root_not_target; auto). reflexivity.
    + rewrite cnt_pair_not_target by (apply root_not_target; auto). reflexivity.
  - (* a child of m *)
    assert (Hct : In c (targets (info nt m))) by (unfold targets; apply in_or_app; auto).
    destruct e; try reflexivity; cbn [produced_by].
    + cbn. rewrite cnt_nat_notin by auto. destruct (item_eqb _ _); reflexivity.
    + destruct (results_single m n it o) as [-> _]. destruct (Nat.eqb_spec n m) as [->|Hne].
      * apply deliveries_to_kid; auto. apply wf_targets_NoDup; auto.
      * rewrite cnt_pair_not_target by (eapply other_not_target; eauto). reflexivity.
    + destruct (results_single m n it o) as [_ ->]. destruct (Nat.eqb_spec n m) as [->|Hne].
      * apply deliveries_to_kid; auto. apply wf_targets_NoDup; auto.
      * rewrite cnt_pair_not_target by (eapply other_not_target; eauto). reflexivity.
  - (* the handler of m *)
    assert (Hct : In c (targets (info nt m))) by (unfold targets; rewrite Hh; apply in_or_app; right; left; auto).
    destruct e; try reflexivity; cbn [produced_by].
    + cbn. rewrite cnt_nat_notin by auto. destruct (item_eqb _ _); reflexivity.
    + destruct (failreps_single m n it o) as [-> _]. destruct (Nat.eqb_spec n m) as [->|Hne].
      * apply deliveries_to_handler; auto.
      * rewrite cnt_pair_not_target by (eapply other_not_target; eauto). reflexivity.
    + destruct (failreps_single m n it o) as [_ ->]. destruct (Nat.eqb_spec n m) as [->|Hne].
      * apply deliveries_to_handler; auto.
      * rewrite cnt_pair_not_target by (eapply other_not_target; eauto). reflexivity.
  - (* nobody feeds c *)
    destruct e; try reflexivity; cbn [produced_by].
    + cbn. rewrite cnt_nat_notin by auto. destruct (item_eqb _ _); reflexivity.
    + rewrite cnt_pair_not_target by auto. reflexivity.
    + rewrite cnt_pair_not_target by auto. reflexivity.
Qed.

Theorem produced_supply : forall nt c x p, wf_net nt = true -> c < length nt ->
  produced nt c x p = count_item x (supply nt c p).
Proof.
  intros nt c x p Hwf Hc. induction p as [|e p IH]; [unfold supply; destruct (feeder_of nt c); reflexivity|].
  rewrite supply_cons, ExecBase.count_item_app, <- IH, <- produced_by_supply by assumption. reflexivity.
Qed.

(* ------------------------------------------------------------------ every step keeps the trace admissible *)
Lemma nworkers_pos : forall nt n, forallb (fun x => 0 <? nworkers x) nt = true -> n < length nt ->
  0 < nworkers (info nt n).
Proof.
  intros nt n H Hn. rewrite forallb_forall in H. apply Nat.ltb_lt. apply H. unfold info. apply nth_In; auto.
Qed.

Lemma trace_ok_step : forall nt T s a s', wf_net nt = true -> forallb (fun x => 0 <? nworkers x) nt = true ->
  reachable nt T s -> step nt T s a = Ok s' -> trace_ok nt (tr s) = [] -> trace_ok nt (tr s') = [].
Proof.
  intros nt T s a s' Hwf Hpos HR H Hok.
  pose proof (step_fp _ _ _ _ _ H) as F. destruct F as [G Ftr _ _ _ _ _].
  pose proof (link_reachable nt T s Hwf HR) as K.
  destruct (life'_reachable nt T s Hwf HR) as [Hs I]. pose proof Hs as [Hlen Hws].
  pose proof (ExecCount.count_inv_reachable nt T s HR) as C.
  destruct C as (Ccons & Cchan & _ & _ & _ & Ccalls & Cflight & _).
  pose proof (ExecMain.source_history_reachable nt T s HR) as Hh. unfold ExecMain.src_history in Hh.
  pose proof (k_dead _ _ K) as Kdead.
  rewrite Ftr. clear Ftr H.
  destruct a; cbn [guard] in G; cbn [evs]; try exact Hok.
  - (* SrcEmit *)
    cbn [app trace_ok]. rewrite Hok, app_nil_r. destruct G as [[k Hk] _]. apply ev_ok_emit.
    + rewrite (k_run _ _ K), Hk. reflexivity.
    + rewrite Kdead, Hk. reflexivity.
  - (* SrcReturnNil *)
    destruct G as [k Hk]. rewrite Hk in *. cbn [app trace_ok]. rewrite Hok, app_nil_r. apply ev_ok_end.
    + rewrite <- started_src, Hh. unfold started, has. cbn [existsb]. rewrite Nat.eqb_refl. reflexivity.
    + rewrite <- ended_src, Hh. destruct (failed_fresh k k (le_n _)) as (_ & B & _).
      unfold ended, has in *. cbn [existsb]. rewrite B. reflexivity.
    + exact Kdead.
  - (* SrcReturnErr *)
    destruct G as [k Hk]. rewrite Hk in *. cbn [app trace_ok]. rewrite Hok, app_nil_r. apply ev_ok_end.
    + rewrite <- started_src, Hh. unfold started, has. cbn [existsb]. rewrite Nat.eqb_refl. reflexivity.
    + rewrite <- ended_src, Hh. destruct (failed_fresh k k (le_n _)) as (_ & B & _).
      unfold ended, has in *. cbn [existsb]. rewrite B. reflexivity.
    + exact Kdead.
  - (* SrcRestart *)
    destruct G as [k Hk]. pose proof (k_nil _ _ K) as Knil. rewrite Hk in *.
    cbn [app trace_ok]. rewrite Hok, app_nil_r.
    destruct (failed_fresh (S k) (S k) (le_n _)) as (A & _ & B).
    assert (P1 : prepped (S k) (tr s) = false) by (rewrite <- prepped_src, Hh; exact B).
    assert (P2 : started (S k) (tr s) = false) by (rewrite <- started_src, Hh; exact A).
    assert (P3 : ended_with k false (tr s) = true).
    { rewrite <- ended_with_src, Hh. unfold ended_with, has. cbn [ExecMain.failed existsb]. rewrite Nat.eqb_refl. reflexivity. }
    rewrite (ev_ok_prep_succ nt k (tr s) P1 P3 Kdead), app_nil_r.
    apply ev_ok_start_succ.
    + unfold prepped, has. cbn [existsb]. rewrite Nat.eqb_refl. reflexivity.
    + exact P2.
    + exact P3.
    + exact Knil.
    + exact Kdead.
  - (* MainWgDone *)
    destruct G as [Hm Hall]. cbn [app trace_ok]. rewrite Hok, app_nil_r. apply ev_ok_done.
    + rewrite (k_done _ _ K), Hm. reflexivity.
    + intros _. apply forallb_forall. intros n Hin. apply in_seq in Hin. assert (Hn : n < length nt) by lia.
      rewrite (k_shute _ _ K).
      unfold all_exited in Hall. rewrite forallb_forall in Hall.
      assert (Hn2 : n < length (nodes s)) by lia.
      specialize (Hall (node s n) (node_In _ _ Hn2)).
      pose proof (nworkers_pos nt n Hpos Hn) as Hp. rewrite <- (Hws n Hn) in Hp.
      destruct (ws (node s n)) as [|w0 wr] eqn:Ew; [cbn in Hp; lia|].
      assert (Hg : nth_error (ws (node s n)) 0 = Some w0) by (rewrite Ew; reflexivity).
      cbn [forallb] in Hall. apply andb_true_iff in Hall. destruct Hall as [Hw0 _].
      destruct w0; try discriminate.
      rewrite (n4 _ _ _ _ _ _ _ _ (i_nodes _ _ I n Hn) 0 Hg). reflexivity.
  - (* MainTimeout *)
    cbn [app trace_ok]. rewrite Hok, app_nil_r. apply ev_ok_done.
    + rewrite (k_done _ _ K), G. reflexivity.
    + discriminate.
  - (* Deq *)
    destruct G as [Hg Hq]. destruct (q (node s n)) as [|it rest] eqn:Eq; [contradiction|].
    pose proof (node_ws_some_lt _ _ _ _ Hg) as Hn2. assert (Hn : n < length nt) by lia.
    pose proof (i_nodes _ _ I n Hn) as Hnok.
    cbn [app trace_ok]. rewrite Hok, app_nil_r. apply ev_ok_enter.
    + apply (k_setup _ _ K n Hn).
    + rewrite (k_shutb _ _ K). destruct (once (node s n)) eqn:Ho; auto; exfalso;
        assert (Hne : once (node s n) <> ONone) by congruence;
        pose proof (n1 _ _ _ _ _ _ _ _ Hnok Hne w _ Hg); discriminate.
    + rewrite (k_calls _ _ K n Hn). apply Nat.ltb_lt. rewrite <- (Hws n Hn).
      eapply filter_lt; eauto.
    + apply Nat.ltb_lt. rewrite <- produced_supply by assumption.
      specialize (Ccons n it). specialize (Cchan n it). rewrite Eq in Cchan. cbn [count_item] in Cchan.
      rewrite ExecBase.item_eqb_refl in Cchan. lia.
  - (* Return *)
    destruct G as [it Hg]. rewrite Hg. cbn [app trace_ok]. rewrite Hok, app_nil_r. apply ev_ok_ret.
    apply Nat.ltb_lt. specialize (Ccalls n it).
    pose proof (sumf_ge _ (wproc it) _ _ _ Hg) as Hge. cbn [wproc] in Hge. rewrite ExecBase.item_eqb_refl in Hge. lia.
  - (* OnceEnter *)
    destruct G as [Hg Ho].
    pose proof (node_ws_some_lt _ _ _ _ Hg) as Hn2. assert (Hn : n < length nt) by lia.
    pose proof (i_nodes _ _ I n Hn) as Hnok.
    cbn [app trace_ok]. rewrite Hok, app_nil_r. apply ev_ok_shutb.
    + rewrite (k_shutb _ _ K), Ho. reflexivity.
    + rewrite (k_calls _ _ K n Hn). apply Nat.eqb_eq. rewrite filter_none; auto.
      intros i a Hi. pose proof (nx1 _ _ _ _ _ _ _ _ Hnok w _ i a Hg eq_refl Hi) as Hp.
      destruct a; try discriminate; reflexivity.
    + destruct (n2 _ _ _ _ _ _ _ _ Hnok w _ Hg eq_refl) as [Hcl _].
      unfold upstream_finished.
      destruct (k_fed _ _ K n Hcl) as [Hr|[m [Hm Hin]]].
      * pose proof Hr as Hr'. apply root_role in Hr'. destruct Hr' as [_ Er]. unfold feeder_of. rewrite Er.
        rewrite (k_nil _ _ K), (k_root _ _ K n Hr Hcl). reflexivity.
      * pose proof (i_g6 _ _ I m n Hm Hin Hcl) as Hod.
        assert (Hsh : shute m (tr s) = true) by (rewrite (k_shute _ _ K), Hod; reflexivity).
        destruct (feeder_of_target nt m n Hwf Hm Hin) as [-> | ->]; exact Hsh.
  - (* ShutdownReturn *)
    pose proof (node_ws_some_lt _ _ _ _ G) as Hn2. assert (Hn : n < length nt) by lia.
    pose proof (i_nodes _ _ I n Hn) as Hnok.
    pose proof (guard_once_running _ _ _ _ _ Hs I G eq_refl) as Ho.
    cbn [app trace_ok]. rewrite Hok, app_nil_r. apply ev_ok_shute.
    + rewrite (k_shutb _ _ K), Ho. reflexivity.
    + rewrite (k_shute _ _ K), Ho.
      destruct (existsb isclosing (ws (node s n))) eqn:E; auto. exfalso.
      apply existsb_to_nth_error in E. destruct E as (i & st & Hi & Hc). destruct st; try discriminate.
      assert (Hne : w <> i) by (intro; subst; congruence).
      pose proof (filter_two _ is_running_once _ _ _ _ _ G Hi Hne eq_refl eq_refl) as H2.
      pose proof (n3 _ _ _ _ _ _ _ _ Hnok) as H3. rewrite Ho in H3. lia.
  - (* Callback *)
    destruct G as [rest Hr]. cbn [app trace_ok]. rewrite Hok, app_nil_r. apply ev_ok_cb.
    apply Nat.ltb_lt. specialize (Cflight n it).
    pose proof (ExecBase.count_item_remove_one _ _ _ Hr it) as Hc. rewrite ExecBase.item_eqb_refl in Hc. lia.
  - (* SrcSetupFail *)
    destruct G as [k Hk]. rewrite Hk in *.
    cbn [app trace_ok]. rewrite Hok, app_nil_r.
    destruct (failed_fresh (S k) (S k) (le_n _)) as (A & _ & B).
    apply ev_ok_prepfail_succ.
    + rewrite <- prepped_src, Hh; exact B.
    + rewrite <- ended_with_src, Hh. unfold ended_with, has. cbn [ExecMain.failed existsb]. rewrite Nat.eqb_refl. reflexivity.
    + exact Kdead.
Qed.

(* C01..C05, C18 on the observable trace: every run of the model satisfies the trace specification *)
Theorem trace_ok_reachable : forall nt T s, wf_net nt = true -> forallb (fun x => 0 <? nworkers x) nt = true ->
  reachable nt T s -> trace_ok nt (tr s) = [].
Proof.
  intros nt T s Hwf Hpos [sch Hr].
  assert (G : forall sch s0 s1, reachable nt T s0 -> trace_ok nt (tr s0) = [] -> run nt T s0 sch = Ok s1 ->
                                trace_ok nt (tr s1) = []).
  { induction sch0 as [|a sch0 IH]; intros s0 s1 R0 K0 H; cbn [run] in H.
    - injection H as <-. exact K0.
    - destruct (step nt T s0 a) as [s2| |] eqn:E; try discriminate.
      apply (IH s2 s1); auto.
      + eapply reachable_step; eauto.
      + eapply trace_ok_step; eauto. }
  apply (G sch (init nt) s); auto.
  - exists []. reflexivity.
  - apply trace_ok_init.
Qed.

Print Assumptions produced_supply.
Print Assumptions trace_ok_reachable.

(* non-vacuity: a well-formed net with workers everywhere, run to a clean end *)
Definition nv_net : net :=
  [ {| nid := 1; nkind := KSync; nworkers := 1; ncap := 1; ndisc := false; nkids := [1]; nhandler := None; nrole := RRoot |};
    {| nid := 2; nkind := KSync; nworkers := 1; ncap := 1; ndisc := false; nkids := []; nhandler := None; nrole := RChild |} ].
Definition nv_sch : list action :=
  [SrcEmit 5; MainSend; Deq 0 0; Return 0 0 (ORes [7%Z]); SendW 0 0; Deq 1 0; Return 1 0 (ORes []);
   SrcReturnNil; MainSeeClosed; MainCloseRoots;
   SeeClosed 0 0; LastOut 0 0; OnceEnter 0 0; ShutdownReturn 0 0; CloseKids 0 0;
   SeeClosed 1 0; LastOut 1 0; OnceEnter 1 0; ShutdownReturn 1 0; CloseKids 1 0; MainWgDone].
Example trace_ok_nonvacuous :
  wf_net nv_net = true /\ forallb (fun x => 0 <? nworkers x) nv_net = true
  /\ exists s, run nv_net 1 (init nv_net) nv_sch = Ok s /\ mn s = MDone /\ timedout s = false /\ length (tr s) = 15.
Proof. split; [reflexivity|]. split; [reflexivity|]. eexists. split; [vm_compute; reflexivity|]. vm_compute. auto. Qed.
