(* E1 — soundness of the trace specification: every run of the model satisfies [trace_ok]
   (Model/TraceSpec.v), for every well-formed net whose nodes all have at least one worker.
   Each step prepends events whose [ev_ok] is [] given the invariants of the pre-state:
   [inv_link] (Proofs/ExecLink.v), [inv_life'] (Proofs/ExecLife.v), [inv_count] (Proofs/ExecCount.v),
   [src_history] (Proofs/ExecMain.v). *)
From Coq Require Import List ZArith Bool Arith Lia.
From FB Require Import Model.Exec Model.TraceSpec Model.ExecInv.
From FB Require Proofs.ExecBase Proofs.ExecCount Proofs.ExecMain.
From FB Require Import Proofs.ExecLifeBase Proofs.ExecLife Proofs.ExecLink.
Import ListNotations.
Local Open Scope nat_scope.

(* ------------------------------------------------------------------ small list facts *)
Lemma filter_lt : forall A (f : A -> bool) l i a, nth_error l i = Some a -> f a = false ->
  length (filter f l) < length l.
Proof.
  induction l as [|b l IH]; intros i a H Hf; destruct i; cbn in *; try discriminate.
  - inversion H; subst. rewrite Hf. pose proof (ExecCount.filter_length_bound _ f l). lia.
  - specialize (IH i a H Hf). destruct (f b); cbn; lia.
Qed.

Lemma filter_none : forall A (f : A -> bool) l, (forall i a, nth_error l i = Some a -> f a = false) -> filter f l = [].
Proof.
  induction l as [|b l IH]; intros H; cbn; auto.
  rewrite (H 0 b eq_refl). apply IH. intros i a Hi. apply (H (S i) a Hi).
Qed.

Lemma filter_two : forall A (f : A -> bool) l i j a b, nth_error l i = Some a -> nth_error l j = Some b ->
  i <> j -> f a = true -> f b = true -> 2 <= length (filter f l).
Proof.
  intros A f l i j a b Hi Hj Hne Ha Hb.
  destruct (existsb (fun _ => true) l) eqn:E; [|].
  2:{ assert (existsb (fun _ : A => true) l = true) by (eapply existsb_nth_error; eauto). congruence. }
  clear E. revert i j Hi Hj Hne.
  induction l as [|c l IH]; intros i j Hi Hj Hne; [destruct i; discriminate|].
  destruct i, j; cbn in *; try congruence.
  - inversion Hi; subst. rewrite Ha. pose proof (filter_pos _ f l j b Hj Hb). cbn. lia.
  - inversion Hj; subst. rewrite Hb. pose proof (filter_pos _ f l i a Hi Ha). cbn. lia.
  - assert (i <> j) by congruence. specialize (IH i j Hi Hj H). destruct (f c); cbn; lia.
Qed.

Lemma sumf_ge : forall A (f : A -> nat) l i a, nth_error l i = Some a -> f a <= sumf f l.
Proof.
  induction l as [|b l IH]; intros i a H; destruct i; cbn in *; try discriminate.
  - inversion H; subst. lia.
  - specialize (IH i a H). lia.
Qed.

(* ------------------------------------------------------------------ ev_ok, clause by clause *)
Lemma ev_ok_emit : forall nt e p, src_running p = true -> ev_ok nt (TEmit e) p = [].
Proof. intros. unfold ev_ok. rewrite H. reflexivity. Qed.

Lemma ev_ok_end : forall nt k b p, started k p = true -> ended k p = false -> ev_ok nt (TEnd k b) p = [].
Proof. intros. unfold ev_ok. rewrite H, H0. reflexivity. Qed.

Lemma ev_ok_prep_succ : forall nt k p, prepped (S k) p = false -> ended_with k false p = true ->
  ev_ok nt (TPrep (S k)) p = [].
Proof. intros. unfold ev_ok. rewrite H, H0. reflexivity. Qed.

Lemma ev_ok_start_succ : forall nt k p, prepped (S k) p = true -> started (S k) p = false ->
  ended_with k false p = true -> any_nil_end p = false -> ev_ok nt (TStart (S k)) p = [].
Proof. intros. unfold ev_ok. rewrite H, H0, H1, H2. reflexivity. Qed.

Lemma ev_ok_done : forall nt clean p, is_done p = false ->
  (clean = true -> forallb (fun n => shute n p) (seq 0 (length nt)) = true) -> ev_ok nt (TDone clean) p = [].
Proof. intros. unfold ev_ok. rewrite H. destruct clean; auto. rewrite H0; auto. Qed.

Lemma ev_ok_enter : forall nt n it p, is_setup n p = true -> shutb n p = false ->
  (open_calls n p <? nworkers (info nt n)) = true ->
  (count_item it (entered n p) <? count_item it (supply nt n p)) = true ->
  ev_ok nt (TEnter n it) p = [].
Proof. intros. unfold ev_ok. rewrite H, H0, H1, H2. reflexivity. Qed.

Lemma ev_ok_ret : forall nt n it o p, (count_item it (rets n p) <? count_item it (entered n p)) = true ->
  ev_ok nt (TRet n it o) p = [].
Proof. intros. unfold ev_ok. rewrite H. reflexivity. Qed.

Lemma ev_ok_cb : forall nt n it o p, (count_item it (cbacks n p) <? count_item it (laters n p)) = true ->
  ev_ok nt (TCb n it o) p = [].
Proof. intros. unfold ev_ok. rewrite H. reflexivity. Qed.

Lemma ev_ok_shutb : forall nt n p, shutb n p = false -> (open_calls n p =? 0) = true ->
  upstream_finished nt n p = true -> ev_ok nt (TShutBegin n) p = [].
Proof. intros. unfold ev_ok. rewrite H, H0, H1. reflexivity. Qed.

Lemma ev_ok_shute : forall nt n p, shutb n p = true -> shute n p = false -> ev_ok nt (TShutEnd n) p = [].
Proof. intros. unfold ev_ok. rewrite H, H0. reflexivity. Qed.

(* ------------------------------------------------------------------ the source history *)
Lemma started_src : forall k p, started k (ExecMain.src_evs p) = started k p.
Proof. intros. apply has_src_evs. intros [] H; try discriminate; reflexivity. Qed.
Lemma ended_src : forall k p, ended k (ExecMain.src_evs p) = ended k p.
Proof. intros. apply has_src_evs. intros [] H; try discriminate; reflexivity. Qed.
Lemma prepped_src : forall k p, prepped k (ExecMain.src_evs p) = prepped k p.
Proof. intros. apply has_src_evs. intros [] H; try discriminate; reflexivity. Qed.
Lemma ended_with_src : forall k b p, ended_with k b (ExecMain.src_evs p) = ended_with k b p.
Proof. intros. apply has_src_evs. intros [] H; try discriminate; reflexivity. Qed.

Lemma failed_fresh : forall k' k, k' <= k ->
  started k (ExecMain.failed k') = false /\ ended k (ExecMain.failed k') = false /\ prepped k (ExecMain.failed k') = false.
Proof.
  induction k' as [|j IH]; intros k Hle; [repeat split; reflexivity|].
  destruct (IH k ltac:(lia)) as (A & B & C).
  assert (E : (j =? k) = false) by (apply Nat.eqb_neq; lia).
  unfold started, ended, prepped, has in *. cbn [ExecMain.failed existsb]. rewrite E, A, B, C. repeat split; reflexivity.
Qed.

(* ------------------------------------------------------------------ feeders *)
Lemma find_parent_spec : forall l i c,
  match find_parent l i c with
  | FSource => False
  | FResults m => i <= m < i + length l /\ In c (nkids (nth (m - i) l dummy_info))
  | FFails m => i <= m < i + length l /\ nhandler (nth (m - i) l dummy_info) = Some c
  | FNone => forall j, j < length l -> ~ In c (targets (nth j l dummy_info))
  end.
Proof.
  induction l as [|x l IH]; intros i c; cbn [find_parent].
  - intros j Hj. cbn in Hj. lia.
  - destruct (existsb (Nat.eqb c) (nkids x)) eqn:Ek.
    + cbn [length]. split; [lia|]. rewrite Nat.sub_diag. cbn [nth].
      apply existsb_exists in Ek. destruct Ek as [y [Hy Hcy]]. apply Nat.eqb_eq in Hcy. subst. exact Hy.
    + assert (Hnk : ~ In c (nkids x)).
      { intro Hin. assert (existsb (Nat.eqb c) (nkids x) = true).
        { apply existsb_exists. exists c. split; auto. apply Nat.eqb_refl. } congruence. }
      assert (Hrec : match find_parent l (S i) c with
                     | FSource => False
                     | FResults m => i <= m < i + length (x :: l) /\ In c (nkids (nth (m - i) (x :: l) dummy_info))
                     | FFails m => i <= m < i + length (x :: l) /\ nhandler (nth (m - i) (x :: l) dummy_info) = Some c
                     | FNone => (nhandler x <> Some c) -> forall j, j < length (x :: l) -> ~ In c (targets (nth j (x :: l) dummy_info))
                     end).
      { specialize (IH (S i) c). destruct (find_parent l (S i) c); auto.
        - destruct IH as [A B]. cbn [length]. split; [lia|]. replace (m - i) with (S (m - S i)) by lia. exact B.
        - destruct IH as [A B]. cbn [length]. split; [lia|]. replace (m - i) with (S (m - S i)) by lia. exact B.
        - intros Hh j Hj. destruct j as [|j]; cbn [nth].
          + unfold targets. intro Hin. apply in_app_or in Hin. destruct Hin as [Hin|Hin]; [contradiction|].
            destruct (nhandler x); [|destruct Hin]. destruct Hin as [->|[]]. congruence.
          + apply IH. cbn in Hj. lia. }
      destruct (nhandler x) as [h|] eqn:Eh.
      * destruct (Nat.eqb_spec h c) as [->|Hne].
        -- cbn [length]. split; [lia|]. rewrite Nat.sub_diag. cbn [nth]. exact Eh.
        -- destruct (find_parent l (S i) c); auto. apply Hrec. congruence.
      * destruct (find_parent l (S i) c); auto. apply Hrec. congruence.
Qed.

Lemma root_role : forall nt n, In n (roots nt) <-> n < length nt /\ nrole (info nt n) = RRoot.
Proof.
  intros. unfold roots, info. rewrite roots_from_spec. rewrite Nat.sub_0_r. cbn. split; intros; intuition lia.
Qed.

(* the feeder computed by the specification is the unique node that lists c among its targets *)
Lemma feeder_of_target : forall nt m c, wf_net nt = true -> m < length nt -> In c (targets (info nt m)) ->
  feeder_of nt c = FResults m \/ feeder_of nt c = FFails m.
Proof.
  intros nt m c Hwf Hm Hc. unfold feeder_of.
  assert (Hc' : c < length nt) by (eapply wf_target_lt; eauto).
  destruct (nrole (info nt c)) eqn:Er.
  - exfalso. apply (wf_target_not_root nt Hwf m c Hm Hc). apply root_role. auto.
  - pose proof (find_parent_spec nt 0 c) as Hs. destruct (find_parent nt 0 c) as [|m'|m'|].
    + contradiction.
    + destruct Hs as [A B]. rewrite Nat.sub_0_r in B. left. f_equal.
      eapply (wf_targets_unique nt Hwf m' m c); eauto; try lia. unfold targets, info. apply in_or_app; auto.
    + destruct Hs as [A B]. rewrite Nat.sub_0_r in B. right. f_equal.
      eapply (wf_targets_unique nt Hwf m' m c); eauto; try lia. unfold targets, info. rewrite B. apply in_or_app; right; left; auto.
    + exfalso. apply (Hs m Hm). exact Hc.
  - pose proof (find_parent_spec nt 0 c) as Hs. destruct (find_parent nt 0 c) as [|m'|m'|].
    + contradiction.
    + destruct Hs as [A B]. rewrite Nat.sub_0_r in B. left. f_equal.
      eapply (wf_targets_unique nt Hwf m' m c); eauto; try lia. unfold targets, info. apply in_or_app; auto.
    + destruct Hs as [A B]. rewrite Nat.sub_0_r in B. right. f_equal.
      eapply (wf_targets_unique nt Hwf m' m c); eauto; try lia. unfold targets, info. rewrite B. apply in_or_app; right; left; auto.
    + exfalso. apply (Hs m Hm). exact Hc.
Qed.

(* ------------------------------------------------------------------ the initial trace *)
Lemma has_rev_setups : forall P l, (forall m, P (TSetup m) = false) -> has P (rev (map TSetup l)) = false.
Proof.
  intros P l HP. unfold has. destruct (existsb P (rev (map TSetup l))) eqn:E; auto.
  apply existsb_exists in E. destruct E as [e [Hin He]]. apply in_rev, in_map_iff in Hin.
  destruct Hin as [m [<- _]]. rewrite HP in He. discriminate.
Qed.

Lemma trace_ok_setups : forall nt k, k <= length nt ->
  trace_ok nt (rev (map TSetup (seq 0 k)) ++ [TPrep 0]) = [].
Proof.
  intros nt k. induction k as [|k IH]; intros Hk.
  - reflexivity.
  - rewrite seq_S, map_app, rev_app_distr. cbn [map rev app plus trace_ok].
    rewrite IH by lia. rewrite app_nil_r.
    unfold ev_ok.
    replace (k <? length nt) with true by (symmetry; apply Nat.ltb_lt; lia).
    assert (A : is_setup k (rev (map TSetup (seq 0 k)) ++ [TPrep 0]) = false).
    { unfold is_setup. rewrite has_app. cbn. rewrite orb_false_r.
      unfold has. destruct (existsb _ _) eqn:E; auto. apply existsb_exists in E. destruct E as [e [Hin He]].
      apply in_rev, in_map_iff in Hin. destruct Hin as [m [<- Hm]]. apply in_seq in Hm.
      apply Nat.eqb_eq in He. lia. }
    assert (B : any_start (rev (map TSetup (seq 0 k)) ++ [TPrep 0]) = false).
    { unfold any_start. rewrite has_app. cbn. rewrite orb_false_r. apply has_rev_setups. reflexivity. }
    rewrite A, B. reflexivity.
Qed.

Lemma trace_ok_init : forall nt, trace_ok nt (tr (init nt)) = [].
Proof.
  intros nt. unfold init; cbn [tr trace_ok]. rewrite trace_ok_setups by lia. rewrite app_nil_r.
  unfold ev_ok.
  assert (A : prepped 0 (rev (map TSetup (seq 0 (length nt))) ++ [TPrep 0]) = true).
  { unfold prepped. rewrite has_app. cbn. apply orb_true_r. }
  assert (B : started 0 (rev (map TSetup (seq 0 (length nt))) ++ [TPrep 0]) = false).
  { unfold started. rewrite has_app. cbn. rewrite orb_false_r. apply has_rev_setups. reflexivity. }
  assert (C : any_nil_end (rev (map TSetup (seq 0 (length nt))) ++ [TPrep 0]) = false).
  { unfold any_nil_end. rewrite has_app. cbn. rewrite orb_false_r. apply has_rev_setups. reflexivity. }
  rewrite A, B, C. reflexivity.
Qed.
