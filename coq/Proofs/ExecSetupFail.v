(* E1 — the Setup of a replacement source fails (executor.go prepareSource -> os.Exit(1)): [SDead].
   The model over-approximates: after [SDead] the other goroutines may still step (the real behaviours are a
   prefix), which is sound for every safety theorem.  Here: [SDead] is absorbing, Execute never returns from it
   (the main goroutine is still in its loop and the source channel is never closed), and from every other
   reachable state of a live net the clean end can still be reached. *)
From Coq Require Import List ZArith Bool Arith Lia.
From FB Require Import Model.Exec Model.TraceSpec Model.ExecInv Proofs.ExecLifeBase Proofs.ExecLife
                       Proofs.ExecProgress Proofs.ExecProgress2.
From FB Require Proofs.ExecMain Proofs.ExecLink.
Import ListNotations.
Local Open Scope nat_scope.

(* the dead source stays dead *)
Lemma dead_stable_step : forall nt T s a s', src s = SDead -> step nt T s a = Ok s' -> src s' = SDead.
Proof.
  intros nt T s a s' Hd H.
  destruct (ExecMain.step_trace nt T s a s' H) as (evs & _ & Hn & _).
  destruct (ExecMain.src_action a) eqn:Ea.
  - destruct a; try discriminate Ea; cbn [step] in H; rewrite Hd in H; discriminate.
  - destruct (Hn eq_refl) as (E & _). congruence.
Qed.

Lemma dead_stable_run : forall nt T sch s s', src s = SDead -> run nt T s sch = Ok s' -> src s' = SDead.
Proof.
  induction sch as [|a sch IH]; intros s s' Hd H; cbn [run] in H.
  - injection H as <-. exact Hd.
  - destruct (step nt T s a) as [s1| |] eqn:E; try discriminate.
    eapply IH; [|exact H]. eapply dead_stable_step; eauto.
Qed.

(* liveness is FALSE from SDead: no schedule whatsoever (not even the timeout) lets Execute return — main is in
   its loop ([k_main]: past the loop only after it saw the source channel closed) and stays there *)
Theorem dead_never_done : forall nt T s sch s', wf_net nt = true -> reachable nt T s -> src s = SDead ->
  run nt T s sch = Ok s' -> src s' = SDead /\ mn s' <> MDone /\ mn s' <> MWait /\ mn s' <> MCloseRoots.
Proof.
  intros nt T s sch s' Hwf HR Hd Hrun.
  pose proof (dead_stable_run _ _ _ _ _ Hd Hrun) as Hd'.
  assert (HR' : reachable nt T s') by (eapply reachable_run; eauto).
  pose proof (ExecLink.k_main _ _ (ExecLink.link_reachable nt T s' Hwf HR')) as K.
  rewrite Hd' in K. split; [exact Hd'|].
  destruct (mn s'); repeat split; try discriminate; discriminate K.
Qed.

(* ... and from every other reachable state of a live net the clean end is still reachable: let the running
   incarnation return nil (after the restart, if the supervisor is in its pause), then the cascade
   ([can_always_finish]) *)
Theorem can_finish_unless_dead : forall nt T s,
  live_net nt -> reachable nt T s -> src s <> SDead -> timedout s = false ->
  exists pre sch s',
    (pre = [] \/ pre = [SrcReturnNil] \/ pre = [SrcRestart; SrcReturnNil])
    /\ forallb finishing sch = true /\ run nt T s (pre ++ sch) = Ok s' /\ mn s' = MDone /\ timedout s' = false.
Proof.
  intros nt T s Hl HR Hnd Hto.
  destruct (src s) as [k|k| |] eqn:Es; [| | |congruence].
  - (* inside Start(): it returns nil *)
    assert (E1 : step nt T s SrcReturnNil = Ok (log (set_src s SClosed) [TEnd k true])) by (cbn [step]; rewrite Es; reflexivity).
    assert (HR1 : reachable nt T (log (set_src s SClosed) [TEnd k true])) by (eapply reachable_step; eauto).
    destruct (can_always_finish nt T _ Hl HR1 eq_refl Hto) as (sch & s' & Hf & Hrun & Hd & Ht).
    exists [SrcReturnNil], sch, s'. split; [auto|]. split; [exact Hf|]. split; [|auto].
    cbn [app run]. rewrite E1. exact Hrun.
  - (* in the pause: the replacement is set up and started, then returns nil *)
    assert (E1 : step nt T s SrcRestart = Ok (log (set_src s (SRunning (S k))) [TStart (S k); TPrep (S k)]))
      by (cbn [step]; rewrite Es; reflexivity).
    set (s1 := log (set_src s (SRunning (S k))) [TStart (S k); TPrep (S k)]) in *.
    assert (HR1 : reachable nt T s1) by (eapply reachable_step; eauto).
    assert (E2 : step nt T s1 SrcReturnNil = Ok (log (set_src s1 SClosed) [TEnd (S k) true])) by reflexivity.
    assert (HR2 : reachable nt T (log (set_src s1 SClosed) [TEnd (S k) true])) by (eapply reachable_step; eauto).
    destruct (can_always_finish nt T _ Hl HR2 eq_refl Hto) as (sch & s' & Hf & Hrun & Hd & Ht).
    exists [SrcRestart; SrcReturnNil], sch, s'. split; [auto|]. split; [exact Hf|]. split; [|auto].
    cbn [app run]. rewrite E1, E2. exact Hrun.
  - destruct (can_always_finish nt T s Hl HR Es Hto) as (sch & s' & Hf & Hrun & Hd & Ht).
    exists [], sch, s'. auto.
Qed.

(* the hypothesis [src s <> SDead] is needed: a dead state is reachable in a live net *)
Example dead_reachable_in_live_net :
  live_net ExecMain.sf_net /\ exists s, reachable ExecMain.sf_net 1 s /\ src s = SDead /\ timedout s = false.
Proof.
  split; [apply live_net_b_ok; reflexivity|].
  eexists. split; [exists ExecMain.sf_sched; vm_compute; reflexivity|]. split; reflexivity.
Qed.

Print Assumptions dead_never_done.
Print Assumptions can_finish_unless_dead.
