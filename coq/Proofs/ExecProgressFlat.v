(* E1 — C03, liveness half, part 4: the structural hypotheses [topo] and [fed] of [live_net]
   (ExecProgress.v) hold for EVERY table produced by Model/Settle.flatten (the model of
   InitNodeContextHierarchy / setupNodes numbering) from ANY configuration forest:
     [flatten_topo]  a node's children and handler have larger indices than the node;
     [flatten_fed]   every entry of the table is a root or is some entry's child / handler.
   [wf_net (flatten cfgs)] is proved in ExecProgressFlat2.v ([flatten_wf]); the remaining parts of
   [live_net] depend on configured values only (workers >= 1, buffersize >= 1, both enforced by config
   validation). *)
From Coq Require Import List ZArith Bool Arith Lia.
From FB Require Import Model.Exec Model.Settle Model.ExecInv Proofs.ExecProgress.
From FB Require Proofs.ExecSpec.
Import ListNotations.
Local Open Scope nat_scope.

(* ------------------------------------------------------------------ induction over configuration trees *)
Section CfgInd.
  Variable P : cfg -> Prop.
  Hypothesis H : forall id k w b dis disc kids h, Forall P kids -> P (Cfg id k w b dis disc kids h).
  Fixpoint cfg_ind' (c : cfg) : P c :=
    match c with
    | Cfg id k w b dis disc kids h =>
        H id k w b dis disc kids h
          ((fix go (l : list cfg) : Forall P l :=
              match l with
              | [] => Forall_nil P
              | x :: r => Forall_cons x (cfg_ind' x) (go r)
              end) kids)
    end.
End CfgInd.

(* ------------------------------------------------------------------ the nested fixpoints, named *)
Fixpoint size_list (l : list cfg) : nat :=
  match l with [] => 0 | x :: r => size x + size_list r end.
Fixpoint flat_list (b : nat) (l : list cfg) : net :=
  match l with [] => [] | x :: r => flat RChild b x ++ flat_list (b + size x) r end.
Definition hn (h : option hcfg) : nat := match h with Some _ => 1 | None => 0 end.
Definition hnode (h : option hcfg) : net :=
  match h with
  | Some x => [{| nid := h_id x; nkind := h_kind x; nworkers := h_workers x; ncap := h_buf x;
                  ndisc := h_disc x; nkids := []; nhandler := None; nrole := RHandler |}]
  | None => []
  end.
Definition top (r : role) (base : nat) (id : Z) (k : kind) (w b : nat) (disc : bool) (kids : list cfg)
               (h : option hcfg) : ninfo :=
  {| nid := id; nkind := k; nworkers := w; ncap := b; ndisc := disc;
     nkids := kid_indices (base + 1 + hn h) kids;
     nhandler := match h with Some _ => Some (base + 1) | None => None end; nrole := r |}.
Definition dis (c : cfg) : bool := match c with Cfg _ _ _ _ d _ _ _ => d end.

Lemma size_eq : forall id k w b d disc kids h,
  size (Cfg id k w b d disc kids h) = if d then 0 else 1 + hn h + size_list kids.
Proof.
  intros. destruct d; reflexivity.
Qed.

Lemma flat_eq : forall r base id k w b d disc kids h,
  flat r base (Cfg id k w b d disc kids h)
  = if d then [] else top r base id k w b disc kids h :: hnode h ++ flat_list (base + 1 + hn h) kids.
Proof.
  intros. destruct d; reflexivity.
Qed.

Lemma kid_indices_cons : forall b c rest,
  kid_indices b (c :: rest) = if dis c then kid_indices b rest else b :: kid_indices (b + size c) rest.
Proof. intros b [id k w bf d disc kids h] rest. reflexivity. Qed.

Lemma size_dis : forall c, dis c = true -> size c = 0.
Proof. intros [id k w bf d disc kids h] Hd. cbn [dis] in Hd. subst d. rewrite size_eq. reflexivity. Qed.
Lemma flat_dis : forall c r b, dis c = true -> flat r b c = [].
Proof. intros [id k w bf d disc kids h] r b Hd. cbn [dis] in Hd. subst d. rewrite flat_eq. reflexivity. Qed.

Lemma length_hnode : forall h, length (hnode h) = hn h.
Proof. intros [x|]; reflexivity. Qed.

Lemma length_flat_list : forall l,
  Forall (fun c => forall r base, length (flat r base c) = size c) l ->
  forall b, length (flat_list b l) = size_list l.
Proof.
  induction 1 as [|x l Hx Hl IH]; intros b; cbn [flat_list size_list]; auto.
  rewrite app_length, Hx, IH. reflexivity.
Qed.

Lemma length_flat : forall c r base, length (flat r base c) = size c.
Proof.
  induction c as [id k w b d disc kids h IH] using cfg_ind'. intros r base.
  rewrite flat_eq, size_eq. destruct d; auto.
  cbn [length]. rewrite app_length, length_hnode, (length_flat_list _ IH). lia.
Qed.

Lemma length_flat_list' : forall l b, length (flat_list b l) = size_list l.
Proof. intros. apply length_flat_list. apply Forall_forall. intros c _. apply length_flat. Qed.

Lemma kid_indices_ge : forall l b t, In t (kid_indices b l) -> b <= t.
Proof.
  induction l as [|c rest IH]; intros b t Hin; [destruct Hin|].
  rewrite kid_indices_cons in Hin. destruct (dis c).
  - apply IH; auto.
  - destruct Hin as [<-|Hin]; [lia|]. apply IH in Hin. lia.
Qed.

(* ------------------------------------------------------------------ topo *)
Fixpoint topo_from (base : nat) (F : net) : Prop :=
  match F with
  | [] => True
  | x :: F' => (forall t, In t (targets x) -> base < t) /\ topo_from (S base) F'
  end.

Lemma topo_from_app : forall F1 F2 b, topo_from b F1 -> topo_from (b + length F1) F2 -> topo_from b (F1 ++ F2).
Proof.
  induction F1 as [|x F1 IH]; intros F2 b H1 H2; cbn [app length topo_from] in *.
  - rewrite Nat.add_0_r in H2. exact H2.
  - destruct H1 as [Hx H1]. split; auto. apply IH; auto.
    replace (S b + length F1) with (b + S (length F1)) by lia. exact H2.
Qed.

Lemma topo_from_ok : forall F b n t, topo_from b F -> n < length F ->
  In t (targets (nth n F dummy_info)) -> b + n < t.
Proof.
  induction F as [|x F IH]; intros b n t H Hn Hin; cbn [length] in Hn; [lia|].
  destruct H as [Hx H]. destruct n as [|n]; cbn [nth] in Hin.
  - rewrite Nat.add_0_r. auto.
  - replace (b + S n) with (S b + n) by lia. eapply IH; eauto. lia.
Qed.

Lemma topo_flat_list : forall l,
  Forall (fun c => forall r base, topo_from base (flat r base c)) l ->
  forall b, topo_from b (flat_list b l).
Proof.
  induction 1 as [|x l Hx Hl IH]; intros b; cbn [flat_list]; [exact I|].
  apply topo_from_app; auto. rewrite length_flat. apply IH.
Qed.

Lemma topo_flat : forall c r base, topo_from base (flat r base c).
Proof.
  induction c as [id k w b d disc kids h IH] using cfg_ind'. intros r base.
  rewrite flat_eq. destruct d; [exact I|].
  cbn [topo_from]. split.
  - intros t Hin. unfold targets, top in Hin. cbn [nkids nhandler] in Hin.
    apply in_app_or in Hin. destruct Hin as [Hin|Hin].
    + apply kid_indices_ge in Hin. lia.
    + destruct h; cbn in Hin; [|contradiction]. destruct Hin as [<-|[]]. lia.
  - apply topo_from_app.
    + destruct h as [x|]; cbn [hnode topo_from]; auto. split; auto. intros t Hin. cbn in Hin. contradiction.
    + rewrite length_hnode. replace (S base + hn h) with (base + 1 + hn h) by lia.
      apply (topo_flat_list _ IH).
Qed.

Lemma topo_flatten_from : forall l b, topo_from b (flatten_from b l).
Proof.
  induction l as [|c rest IH]; intros b; cbn [flatten_from]; [exact I|].
  apply topo_from_app; [apply topo_flat|]. rewrite length_flat. apply IH.
Qed.

Theorem flatten_topo : forall cfgs, topo (flatten cfgs).
Proof.
  intros cfgs n c Hn Hc. unfold info in Hc.
  apply (topo_from_ok (flatten cfgs) 0 n c); auto. apply topo_flatten_from.
Qed.

(* ------------------------------------------------------------------ fed *)
(* index base + j of a block is "fed within the block F" *)
Definition fed_in (F : net) (t : nat) : Prop := exists x, In x F /\ In t (targets x).

Lemma fed_in_app_l : forall F1 F2 t, fed_in F1 t -> fed_in (F1 ++ F2) t.
Proof. intros F1 F2 t (x & Hx & Ht). exists x. split; auto. apply in_or_app; auto. Qed.
Lemma fed_in_app_r : forall F1 F2 t, fed_in F2 t -> fed_in (F1 ++ F2) t.
Proof. intros F1 F2 t (x & Hx & Ht). exists x. split; auto. apply in_or_app; auto. Qed.
Lemma fed_in_cons : forall x F t, fed_in F t -> fed_in (x :: F) t.
Proof. intros x F t (y & Hy & Ht). exists y. split; auto. right; auto. Qed.

(* in the block of one enabled configuration every index but the first is fed within the block *)
Definition block_fed (c : cfg) : Prop :=
  forall r base j, 0 < j -> j < size c -> fed_in (flat r base c) (base + j).

Lemma fed_flat_list : forall l, Forall block_fed l ->
  forall b j, j < size_list l -> In (b + j) (kid_indices b l) \/ fed_in (flat_list b l) (b + j).
Proof.
  induction 1 as [|c l Hc Hl IH]; intros b j Hj; cbn [size_list flat_list] in *; [lia|].
  rewrite kid_indices_cons. destruct (dis c) eqn:Ed.
  - rewrite (size_dis c Ed) in *. rewrite (flat_dis c _ _ Ed). cbn [app].
    rewrite Nat.add_0_r. apply IH. lia.
  - destruct (Nat.lt_ge_cases j (size c)) as [Hlt|Hge].
    + destruct j as [|j].
      * left. left. lia.
      * right. apply fed_in_app_l. apply Hc; lia.
    + destruct (IH (b + size c) (j - size c)) as [Hk|Hf]; [lia| |].
      * left. right. replace (b + j) with (b + size c + (j - size c)) by lia. exact Hk.
      * right. apply fed_in_app_r. replace (b + j) with (b + size c + (j - size c)) by lia. exact Hf.
Qed.

Lemma fed_flat : forall c, block_fed c.
Proof.
  induction c as [id k w b d disc kids h IH] using cfg_ind'. intros r base j Hj0 Hj.
  rewrite size_eq in Hj. rewrite flat_eq. destruct d; [lia|].
  destruct (Nat.lt_ge_cases j (1 + hn h)) as [Hh|Hk].
  - (* the handler: a target of the top node *)
    destruct h as [x|]; cbn [hn] in Hh; [|lia]. assert (j = 1) by lia. subst j.
    exists (top r base id k w b disc kids (Some x)). split; [left; reflexivity|].
    unfold targets, top. cbn [nkids nhandler]. apply in_or_app. right. left. reflexivity.
  - (* inside the children's blocks: the head of a child's block is a kid of the top node *)
    destruct (fed_flat_list kids IH (base + 1 + hn h) (j - (1 + hn h))) as [Hin|Hf]; [lia| |].
    + exists (top r base id k w b disc kids h). split; [left; reflexivity|].
      unfold targets, top. cbn [nkids nhandler]. apply in_or_app. left.
      replace (base + j) with (base + 1 + hn h + (j - (1 + hn h))) by lia. exact Hin.
    + apply fed_in_cons. apply fed_in_app_r.
      replace (base + j) with (base + 1 + hn h + (j - (1 + hn h))) by lia. exact Hf.
Qed.

Lemma flat_head_role : forall c r base, 0 < size c -> nrole (nth 0 (flat r base c) dummy_info) = r.
Proof.
  intros [id k w b d disc kids h] r base Hs. rewrite size_eq in Hs. rewrite flat_eq.
  destruct d; [lia|]. reflexivity.
Qed.

Lemma fed_flatten_from : forall l b j, j < length (flatten_from b l) ->
  nrole (nth j (flatten_from b l) dummy_info) = RRoot \/ fed_in (flatten_from b l) (b + j).
Proof.
  induction l as [|c rest IH]; intros b j Hj; cbn [flatten_from length] in *; [lia|].
  rewrite app_length, length_flat in Hj.
  destruct (Nat.lt_ge_cases j (size c)) as [Hlt|Hge].
  - rewrite app_nth1 by (rewrite length_flat; exact Hlt).
    destruct j as [|j].
    + left. apply flat_head_role. exact Hlt.
    + right. apply fed_in_app_l. apply fed_flat; lia.
  - rewrite app_nth2 by (rewrite length_flat; exact Hge). rewrite length_flat.
    destruct (IH (b + size c) (j - size c)) as [Hr|Hf]; [lia| |].
    + left. exact Hr.
    + right. apply fed_in_app_r. replace (b + j) with (b + size c + (j - size c)) by lia. exact Hf.
Qed.

Theorem flatten_fed : forall cfgs, fed (flatten cfgs).
Proof.
  intros cfgs c Hc. destruct (fed_flatten_from cfgs 0 c Hc) as [Hr|(x & Hx & Ht)].
  - left. apply ExecSpec.root_role. split; auto.
  - right. cbn [plus] in Ht. apply (In_nth _ _ dummy_info) in Hx. destruct Hx as (n & Hn & En).
    exists n. split; auto. unfold info. fold (flatten cfgs) in En. rewrite En. exact Ht.
Qed.

(* so for a table built by [flatten], [live_net] reduces to conditions on configured values and [wf_net] *)
Corollary flatten_live_net : forall cfgs,
  wf_net (flatten cfgs) = true ->
  forallb (fun x => 0 <? nworkers x) (flatten cfgs) = true ->
  buffered_b (flatten cfgs) = true ->
  live_net (flatten cfgs).
Proof.
  intros cfgs Hwf Hwk Hb. split; [split; assumption|].
  split; [apply flatten_topo|]. split; [apply flatten_fed|apply buffered_b_ok; assumption].
Qed.

Print Assumptions flatten_topo.
Print Assumptions flatten_fed.
Print Assumptions flatten_live_net.
