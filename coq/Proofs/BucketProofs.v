(* E4 / C19 — the window bound of the ideal token bucket (Model/Bucket.v) *)
From Coq Require Import List ZArith Bool Lia ZifyBool.
From FB Require Import Model.Bucket.
Import ListNotations.
Open Scope Z_scope.

Lemma count_in_nonneg s e ts : 0 <= count_in s e ts.
Proof. unfold count_in. lia. Qed.

Lemma count_in_cons s e t ts :
  count_in s e (t :: ts) = (if in_window s e t then 1 else 0) + count_in s e ts.
Proof. unfold count_in. cbn [filter]. destruct (in_window s e t); cbn [length]; lia. Qed.

(* emissions admitted from time t0 on all lie at or after t0 *)
Lemma admitted_from_after b : forall ts lvl t0 s e,
  admitted_from b lvl t0 ts = true -> e < t0 -> count_in s e ts = 0.
Proof.
  induction ts as [|t ts IH]; intros lvl t0 s e H He.
  - reflexivity.
  - cbn [admitted_from] in H. apply andb_true_iff in H as [H H3]. apply andb_true_iff in H as [H1 H2].
    rewrite count_in_cons. rewrite (IH _ _ s e H3) by lia.
    unfold in_window. destruct (s <=? t) eqn:E1, (t <=? e) eqn:E2; cbn; lia.
Qed.

Lemma mul_nonneg r x : 0 <= r -> 0 <= x -> 0 <= r * x.
Proof. intros; apply Z.mul_nonneg_nonneg; assumption. Qed.

(* main invariant: with level [lvl] at time [t0]: the emissions inside [s,e] cost at most the level available at
   max(s,t0) plus what is refilled from then until e *)
Lemma bucket_window_from b : 0 <= b_rate b -> 0 < b_den b ->
  forall ts lvl t0 s e,
    0 <= lvl <= cap b -> admitted_from b lvl t0 ts = true -> s <= e -> t0 <= e ->
    b_den b * count_in s e ts <= level_at b lvl t0 (Z.max s t0) + b_rate b * (e - Z.max s t0).
Proof.
  intros Hr Hd. remember (b_rate b) as r. remember (b_den b) as den. remember (cap b) as C.
  induction ts as [|t ts IH]; intros lvl t0 s e Hl H Hse Hte.
  - unfold count_in; cbn [filter length]. unfold level_at. rewrite <- HeqC, <- Heqr.
    pose proof (mul_nonneg r (e - Z.max s t0) Hr ltac:(lia)).
    pose proof (mul_nonneg r (Z.max s t0 - t0) Hr ltac:(lia)). lia.
  - cbn [admitted_from] in H. apply andb_true_iff in H as [H H3]. apply andb_true_iff in H as [H1 H2].
    rewrite <- Heqden in H2, H3.
    rewrite count_in_cons.
    set (L' := level_at b lvl t0 t) in *.
    assert (HL' : L' = Z.min C (lvl + r * (t - t0))) by (unfold L', level_at; congruence).
    destruct (Z_lt_le_dec e t) as [Het|Hte'].
    + (* the emission at t and everything after it are beyond the window *)
      rewrite (admitted_from_after b ts _ t s e H3 Het).
      replace (in_window s e t) with false by (unfold in_window; lia).
      unfold level_at. rewrite <- HeqC, <- Heqr.
      pose proof (mul_nonneg r (e - Z.max s t0) Hr ltac:(lia)).
      pose proof (mul_nonneg r (Z.max s t0 - t0) Hr ltac:(lia)). lia.
    + assert (Hl2 : 0 <= L' - den <= C) by lia.
      specialize (IH (L' - den) t s e Hl2 H3 Hse Hte').
      unfold level_at in IH |- *. rewrite <- HeqC, <- Heqr in IH |- *.
      destruct (Z_le_gt_dec s t) as [Hst|Hst].
      * replace (in_window s e t) with true by (unfold in_window; lia).
        replace (Z.max s t) with t in IH by lia.
        replace (t - t) with 0 in IH by lia. rewrite Z.mul_0_r, Z.add_0_r in IH.
        pose proof (mul_nonneg r (t - Z.max s t0) Hr ltac:(lia)).
        replace (r * (t - t0)) with (r * (Z.max s t0 - t0) + r * (t - Z.max s t0)) in HL' by ring.
        replace (r * (e - Z.max s t0)) with (r * (t - Z.max s t0) + r * (e - t)) by ring.
        lia.
      * replace (in_window s e t) with false by (unfold in_window; lia).
        replace (Z.max s t) with s in IH by lia. replace (Z.max s t0) with s by lia.
        replace (r * (s - t0)) with (r * (t - t0) + r * (s - t)) by ring.
        pose proof (mul_nonneg r (s - t) Hr ltac:(lia)). lia.
Qed.

(* C19: in ANY window [s, s+d] an ideal bucket of rate r/den per tick and burst b that started full admits at most
   b + r*d/den emissions (stated without division: den * count <= den*b + r*d) *)
Lemma bucket_window_bound b t0 ts s d :
  0 <= b_rate b -> 0 < b_den b -> 0 <= b_burst b -> 0 <= d ->
  admitted b t0 ts = true ->
  b_den b * count_in s (s + d) ts <= b_den b * b_burst b + b_rate b * d.
Proof.
  intros Hr Hd Hb Hdd H. unfold admitted in H.
  assert (Hc : 0 <= cap b) by (unfold cap; apply mul_nonneg; lia).
  destruct (Z_lt_le_dec (s + d) t0) as [Hlt|Hle].
  - rewrite (admitted_from_after b ts _ t0 s (s + d) H Hlt).
    pose proof (mul_nonneg (b_rate b) d Hr Hdd). pose proof (mul_nonneg (b_den b) (b_burst b) ltac:(lia) Hb). lia.
  - pose proof (bucket_window_from b Hr Hd ts (cap b) t0 s (s + d) ltac:(lia) H ltac:(lia) Hle) as HB.
    pose proof (level_at_le := Z.le_min_l (cap b) (cap b + b_rate b * (Z.max s t0 - t0))).
    unfold level_at in HB.
    pose proof (mul_nonneg (b_rate b) (Z.max s t0 - s) Hr ltac:(lia)).
    replace (b_rate b * d) with (b_rate b * (s + d - Z.max s t0) + b_rate b * (Z.max s t0 - s)) by ring.
    unfold cap in *. lia.
Qed.

(* non-vacuity: rate 2 per 1 tick, burst 3: three at once, then one every tick *)
Example bucket_admits : admitted {| b_rate := 1; b_den := 1; b_burst := 3 |} 0 [0; 0; 0; 1; 2; 3] = true.
Proof. vm_compute. reflexivity. Qed.
Example bucket_rejects : admitted {| b_rate := 1; b_den := 1; b_burst := 3 |} 0 [0; 0; 0; 0] = false.
Proof. vm_compute. reflexivity. Qed.
