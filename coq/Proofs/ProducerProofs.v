(* proofs about Model/Producer.v and the C15 half of Judge/E7.v *)
From Coq Require Import List ZArith Bool Lia.
From FB Require Import Lib.Sexp Lib.Eqb Lib.E7Lib Model.Producer Judge.E7.
Import ListNotations.
Open Scope Z_scope.

Lemma is_empty_nil (s : bytes) : is_empty s = true <-> s = [].
Proof. destruct s; simpl; split; congruence. Qed.

(* ---------- produce ---------- *)
Lemma produce_one_record ct p topic msg :
  p = PSimple topic msg \/ p = PCustom topic msg ->
  dest_topic ct topic <> [] ->
  produce ct p = {| p_result_nil := true; p_err := e_none; p_records := [(dest_topic ct topic, msg)] |}.
Proof.
  intros [-> | ->] Hd; simpl; unfold produce_tm;
    (destruct (is_empty (dest_topic ct topic)) eqn:E; [apply is_empty_nil in E; contradiction|reflexivity]).
Qed.

Lemma dest_topic_choice ct t : dest_topic ct t = match t with [] => ct | _ => t end.
Proof. destruct t; reflexivity. Qed.

Lemma produce_nothing_for_children ct p : p_result_nil (produce ct p) = true.
Proof. destruct p; simpl; unfold produce_tm; try destruct (is_empty _); reflexivity. Qed.

Lemma produce_wrong_type ct k :
  produce ct (PWrong k) = {| p_result_nil := true; p_err := e_type; p_records := [] |}.
Proof. reflexivity. Qed.

Lemma produce_no_topic ct p topic msg :
  p = PSimple topic msg \/ p = PCustom topic msg -> ct = [] -> topic = [] ->
  produce ct p = {| p_result_nil := true; p_err := e_topic; p_records := [] |}.
Proof. intros [-> | ->] -> ->; reflexivity. Qed.

Lemma produce_at_most_one ct p : (length (p_records (produce ct p)) <= 1)%nat.
Proof. destruct p; simpl; unfold produce_tm; try destruct (is_empty _); simpl; lia. Qed.

Lemma produce_record_iff_no_error ct p :
  p_err (produce ct p) = e_none <-> length (p_records (produce ct p)) = 1%nat.
Proof.
  destruct p; simpl; unfold produce_tm; try destruct (is_empty _); simpl; unfold e_none, e_type, e_topic;
    split; intros; try discriminate; try reflexivity; lia.
Qed.

(* ---------- error reports ---------- *)
Lemma report_one_record ct r :
  report_in_domain r = true -> ct <> [] ->
  exists ev,
    error_report ct (RReport r)
    = {| x_panic := false; x_result_nil := true; x_err := e_none;
         x_records := [(ct, report_obj ev (exp_error (r_err r)))] |}
    /\ ev = match r_payload r with
            | PJson j => event_json (r_form r) (r_recovery r) j
            | PUn u => merr_json u
            end.
Proof.
  intros Hd Hc. destruct r as [f rc p e]; unfold report_in_domain in Hd; simpl in Hd.
  assert (Ec : is_empty ct = false) by (destruct ct; [contradiction|reflexivity]).
  unfold error_report, report_value; simpl.
  destruct e as [t|c i|c m [[j|]|]|c m|]; try discriminate; destruct p as [j'|u]; simpl;
    try destruct (is_jnull j); simpl; rewrite Ec; eexists; split; reflexivity.
Qed.

Lemma report_wrong_type ct k :
  error_report ct (RWrong k) = {| x_panic := false; x_result_nil := true; x_err := e_type; x_records := [] |}.
Proof. reflexivity. Qed.

Lemma report_no_topic r :
  report_in_domain r = true ->
  error_report [] (RReport r) = {| x_panic := false; x_result_nil := true; x_err := e_topic; x_records := [] |}.
Proof.
  intros Hd. destruct r as [f rc p e]; unfold report_in_domain in Hd; simpl in Hd.
  unfold error_report, report_value; simpl.
  destruct e as [t|c i|c m [[j|]|]|c m|]; try discriminate; destruct p as [j'|u]; simpl;
    try destruct (is_jnull j); reflexivity.
Qed.

(* the three members, in canonical order *)
Lemma report_obj_members ev ej :
  obj_members (report_obj ev ej)
  = Some [(bytes_tree k_error, ej); (bytes_tree k_event, ev); (bytes_tree k_timestamp, jtime)].
Proof. reflexivity. Qed.

(* shape of the error member *)
Lemma exp_error_structured c m i :
  exp_error (EFB c m i)
  = match i with
    | Some (IJson j) => if is_jnull j then jobj [(k_code, jstr c); (k_message, jstr m)]
                        else jobj [(k_code, jstr c); (k_errorinfo, j); (k_message, jstr m)]
    | _ => jobj [(k_code, jstr c); (k_message, jstr m)]
    end.
Proof. destruct i as [[j|]|]; reflexivity. Qed.

Lemma exp_error_unknown e :
  (forall c m i, e <> EFB c m i) ->
  exp_error e = jobj [(k_code, jstr s_err_unknown); (k_message, jstr (err_text e))].
Proof. intros H. destruct e; try reflexivity. exfalso; eapply H; reflexivity. Qed.

Lemma err_text_wrap c i : err_text (EWrap c i) = c ++ s_colon_sp ++ err_text i.
Proof. reflexivity. Qed.

(* outside the quantifier the model still says what happens *)
Lemma report_nil_error_panics ct f rc p :
  x_panic (error_report ct (RReport {| r_form := f; r_recovery := rc; r_payload := p; r_err := ENil |})) = true.
Proof. reflexivity. Qed.

(* ---------- spec soundness ---------- *)
Lemma spec_c15_sound i : spec_c15 i (model_pobs i) = [].
Proof.
  destruct i as [ct p | ct q].
  - destruct p as [t m | t m | k]; [| |reflexivity];
      cbn [spec_c15 model_pobs produce]; unfold produce_tm, dest_topic;
      (set (d := if is_empty t then ct else t); destruct (is_empty d) eqn:Ed;
       [ reflexivity
       | cbn -[tree_eqb bytes_eqb]; now rewrite bytes_eqb_refl, tree_eqb_refl ]).
  - destruct q as [r | k]; [|reflexivity].
    cbn [spec_c15]. destruct (report_in_domain r) eqn:Hd; [|reflexivity].
    destruct (is_empty ct) eqn:Ec.
    + apply is_empty_nil in Ec; subst ct. unfold model_pobs. rewrite (report_no_topic r Hd). reflexivity.
    + assert (Hc : ct <> []) by (intros ->; discriminate).
      destruct (report_one_record ct r Hd Hc) as [ev [E Hev]].
      unfold model_pobs. rewrite E. cbn [x_panic x_result_nil x_err x_records one_record o_panic o_err o_result_nil o_recs].
      cbn [e_none Z.eqb negb andb length Nat.eqb].
      rewrite report_obj_members.
      rewrite bytes_eqb_refl, !tree_eqb_refl. cbn [andb app].
      subst ev. destruct (r_payload r); [rewrite tree_eqb_refl|]; reflexivity.
Qed.

(* a sequence of calls on one instance: the single-call statement, call by call *)
Lemma spec_c15_seq_sound is : forall k, spec_c15_seq k is (model_pseq is) = [].
Proof. induction is as [|i is IH]; intros k; simpl; [reflexivity|]. now rewrite spec_c15_sound, IH. Qed.
