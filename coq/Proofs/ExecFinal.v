(* E1 — the end-of-run clauses of the lockstep judge ([Judge/E1.final_clauses], clauses (3,9)/(1,9)/(2,9))
   never fire on the model itself: in the snapshot of a state in which Execute has returned without
   shutdown timeout, every root shows  received + discarded = number of source emissions,  and the error
   handler h of every node n shows  received(h) + discarded(h) = failures(n).

   No hypothesis beyond [good_net] is needed.  The clause for a root is about [supply] through FSource and the
   clause for a handler about [supply] through [FFails n]; a node that were both a root and a handler (or the
   handler of two nodes) would make the feeder ambiguous and the clauses contradictory, but [wf_net] already
   excludes it ([nodup_nat (roots nt ++ flat_map targets nt)]; Proofs/ExecSupply.produced_root and
   produced_handler are the two readings of the conservation law used here). *)
From Coq Require Import List ZArith Bool Arith Lia.
From FB Require Import Lib.Sexp Model.Exec Model.TraceSpec Model.ExecInv Model.Settle Judge.E1.
From FB Require Proofs.ExecBase Proofs.ExecCount Proofs.ExecSupply Proofs.ExecFeed.
From FB Require Import Proofs.ExecProps.
Import ListNotations.
Local Open Scope nat_scope.

(* ------------------------------------------------------------------ plumbing *)
Lemma flat_map_nil {A B} (f : A -> list B) l : (forall a, In a l -> f a = []) -> flat_map f l = [].
Proof.
  induction l as [|a l IH]; intros H; cbn [flat_map]; [reflexivity|].
  rewrite (H a (or_introl eq_refl)). apply IH. intros b Hb. apply H. right. exact Hb.
Qed.

Lemma in_index_from nt : forall i ix, In ix (index_from i nt) ->
  i <= fst ix < i + length nt /\ snd ix = nth (fst ix - i) nt dummy_info.
Proof.
  induction nt as [|x nt IH]; intros i ix; cbn [index_from]; [intros []|].
  intros [<-|H].
  - cbn [fst snd length]. replace (i - i) with 0 by lia. split; [lia|reflexivity].
  - apply IH in H. destruct H as [R E]. cbn [length]. split; [lia|].
    replace (fst ix - i) with (S (fst ix - S i)) by lia. exact E.
Qed.

(* what the judge reads out of the snapshot of node i: its received / failed / discarded counters *)
Lemma fin_counts_snap l i : i < length l ->
  fin_counts (map snap_node l) i
  = Some (Z.of_nat (c_recv (nth i l dummy_ns)), Z.of_nat (c_fail (nth i l dummy_ns)),
          Z.of_nat (c_disc (nth i l dummy_ns))).
Proof.
  intros H. unfold fin_counts.
  rewrite (nth_indep _ (T []) (snap_node dummy_ns)) by (rewrite map_length; exact H).
  rewrite map_nth. reflexivity.
Qed.

(* ------------------------------------------------------------------ trace projections *)
Lemma failreps_length n p : length (failreps n p) = n_fail n p.
Proof.
  unfold failreps, n_fail. induction (outcomes n p) as [|[it o] l IH]; [reflexivity|].
  cbn [flat_map filter snd fst]. destruct o; cbn [app length]; rewrite IH; reflexivity.
Qed.

Lemma In_cnt_nat c l : In c l -> 0 < cnt_nat c l.
Proof.
  induction l as [|k l IH]; [intros []|]. intros H. rewrite ExecSupply.cnt_nat_cons.
  destruct (Nat.eqb_spec c k) as [E|E]; [lia|]. destruct H as [H|H]; [congruence|]. specialize (IH H). lia.
Qed.

(* ------------------------------------------------------------------ feeders under wf_net *)
Lemma root_in_range nt r : In r (roots nt) -> r < length nt.
Proof.
  intros H. apply In_cnt_nat in H. rewrite ExecFeed.cnt_roots in H.
  destruct (r <? length nt) eqn:E; [apply Nat.ltb_lt in E; exact E|cbn in H; lia].
Qed.

Lemma handler_in_range nt n h :
  wf_net nt = true -> n < length nt -> nhandler (info nt n) = Some h -> h < length nt.
Proof.
  unfold wf_net. intros H Hn Hh. apply andb_true_iff in H as [H _]. rewrite forallb_forall in H.
  specialize (H (info nt n) (nth_In _ _ Hn)). rewrite forallb_forall in H. apply Nat.ltb_lt. apply H.
  unfold targets. rewrite Hh. apply in_or_app. right. left. reflexivity.
Qed.

(* a root is fed by the source ... *)
Lemma root_supply_emitted nt r x p :
  wf_net nt = true -> In r (roots nt) -> count_item x (supply nt r p) = count_item x (emitted p).
Proof.
  intros Hwf H. rewrite <- ExecFeed.produced_supply by (auto using root_in_range).
  apply ExecSupply.produced_root; auto using In_cnt_nat.
Qed.

(* ... and the error handler of n by n's failure reports (wf_net: h is no root and nobody else's target) *)
Lemma handler_supply_failreps nt n h x p :
  wf_net nt = true -> n < length nt -> nhandler (info nt n) = Some h ->
  count_item x (supply nt h p) = count_item x (failreps n p).
Proof.
  intros Hwf Hn Hh. rewrite <- ExecFeed.produced_supply by eauto using handler_in_range.
  apply ExecSupply.produced_handler; [exact Hwf|]. unfold ExecSupply.handler_is. rewrite Hh. apply Nat.eqb_refl.
Qed.

(* ------------------------------------------------------------------ the clean end, in numbers *)
Lemma clean_end_lengths nt tmo s c :
  good_net nt -> reachable nt tmo s -> mn s = MDone -> timedout s = false -> c < length nt ->
  length (supply nt c (tr s)) = c_recv (node s c) + c_disc (node s c).
Proof.
  intros G Hr Hm Ht Hc.
  destruct (counters_meaning nt tmo s c Hr Hc) as (K1 & _ & _ & _ & K5).
  rewrite K1, K5, <- app_length. apply ExecBase.count_item_all_length. intros x.
  rewrite ExecBase.count_item_app. apply (proj1 (clean_end_exact nt tmo s c x G Hr Hm Ht Hc)).
Qed.

Lemma root_final_count nt tmo s r :
  good_net nt -> reachable nt tmo s -> mn s = MDone -> timedout s = false -> In r (roots nt) ->
  c_recv (node s r) + c_disc (node s r) = length (emitted (tr s)).
Proof.
  intros G Hr Hm Ht Hin. pose proof G as [Hwf _].
  rewrite <- (clean_end_lengths nt tmo s r G Hr Hm Ht (root_in_range nt r Hin)).
  apply ExecBase.count_item_all_length. intros x. apply root_supply_emitted; assumption.
Qed.

Lemma handler_final_count nt tmo s n h :
  good_net nt -> reachable nt tmo s -> mn s = MDone -> timedout s = false ->
  n < length nt -> nhandler (info nt n) = Some h ->
  c_recv (node s h) + c_disc (node s h) = c_fail (node s n).
Proof.
  intros G Hr Hm Ht Hn Hh. pose proof G as [Hwf _].
  rewrite <- (clean_end_lengths nt tmo s h G Hr Hm Ht (handler_in_range nt n h Hwf Hn Hh)).
  destruct (counters_meaning nt tmo s n Hr Hn) as (_ & _ & _ & K4 & _).
  rewrite K4, <- failreps_length.
  apply ExecBase.count_item_all_length. intros x. apply handler_supply_failreps; assumption.
Qed.

(* ------------------------------------------------------------------ the judge's clauses *)
Theorem final_clauses_sound : forall nt tmo s,
  good_net nt -> reachable nt tmo s -> mn s = MDone -> timedout s = false ->
  final_clauses nt (T [snapshot s; L (Z.of_nat (length (emitted (tr s))))]) = [].
Proof.
  intros nt tmo s G Hr Hm Ht. pose proof G as [Hwf _].
  destruct (ExecCount.count_inv_reachable nt tmo s Hr) as (_ & _ & _ & _ & _ & _ & _ & [Hlen _]).
  unfold final_clauses, snapshot, ofList, main_code. rewrite Hm, Ht. cbv beta iota.
  match goal with |- ?a ++ ?b = [] => assert (Ha : a = []); [|assert (Hb : b = []); [|rewrite Ha, Hb; reflexivity]] end.
  - apply flat_map_nil. intros r Hin.
    rewrite fin_counts_snap by (rewrite Hlen; apply root_in_range; exact Hin). fold (node s r).
    replace (Z.of_nat (c_recv (node s r)) + Z.of_nat (c_disc (node s r)) =? Z.of_nat (length (emitted (tr s))))%Z
      with true; [reflexivity|].
    symmetry. apply Z.eqb_eq. rewrite <- Nat2Z.inj_add. f_equal.
    apply (root_final_count nt tmo s r G Hr Hm Ht Hin).
  - apply flat_map_nil. intros [n x] Hin. apply in_index_from in Hin. cbn [fst snd] in *.
    destruct Hin as [R E]. rewrite Nat.sub_0_r in E. subst x. fold (info nt n).
    destruct (nhandler (info nt n)) as [h|] eqn:Eh; [|reflexivity].
    assert (Hn : n < length nt) by lia.
    rewrite !fin_counts_snap by (rewrite Hlen; eauto using handler_in_range). fold (node s n). fold (node s h).
    replace (Z.of_nat (c_recv (node s h)) + Z.of_nat (c_disc (node s h)) =? Z.of_nat (c_fail (node s n)))%Z
      with true; [reflexivity|].
    symmetry. apply Z.eqb_eq. rewrite <- Nat2Z.inj_add. f_equal.
    apply (handler_final_count nt tmo s n h G Hr Hm Ht Hn Eh).
Qed.

(* ------------------------------------------------------------------ non-vacuity *)
(* a discarding root (one worker, buffer 1) with an error handler.  The source emits 7 and 8 before the root's
   worker takes anything: 8 finds the buffer full and is discarded.  7 fails (error 3) and the report reaches the
   handler, which filters it.  Then 9 is emitted and processed; the source returns nil, everything shuts down in
   cascade and Execute returns without timeout.  3 emitted = 2 received + 1 discarded at the root;
   1 failure of the root = 1 received + 0 discarded at the handler. *)
Definition ex_nt : net :=
  flatten [Cfg 1 KSync 1 1 false true []
             (Some {| h_id := 2; h_kind := KSync; h_workers := 1; h_buf := 1; h_disc := false |})].
Definition ex_sch : list action :=
  [ SrcEmit 7; MainSend; SrcEmit 8; MainSend;
    Deq 0 0; Return 0 0 (OFail 3); SendW 0 0; Deq 1 0; Return 1 0 (ORes []);
    SrcEmit 9; MainSend; Deq 0 0; Return 0 0 (ORes [9%Z]);
    SrcReturnNil; MainSeeClosed; MainCloseRoots;
    SeeClosed 0 0; LastOut 0 0; OnceEnter 0 0; ShutdownReturn 0 0; CloseKids 0 0;
    SeeClosed 1 0; LastOut 1 0; OnceEnter 1 0; ShutdownReturn 1 0; CloseKids 1 0;
    MainWgDone ].
Definition ex_s : state := match run ex_nt 1 (init ex_nt) ex_sch with Ok s => s | _ => init ex_nt end.

Example ex_run : run ex_nt 1 (init ex_nt) ex_sch = Ok ex_s.
Proof. vm_compute. reflexivity. Qed.
Example ex_good : good_net ex_nt.
Proof. split; vm_compute; reflexivity. Qed.
Example ex_reachable : reachable ex_nt 1 ex_s.
Proof. exists ex_sch. exact ex_run. Qed.
Example ex_end : mn ex_s = MDone /\ timedout ex_s = false /\ emitted (tr ex_s) = [(9, 0); (8, 0); (7, 0)]%Z.
Proof. vm_compute. auto. Qed.
(* the counters the clauses look at: root (received, failed, discarded) = (2, 1, 1), handler = (1, 0, 0) *)
Example ex_counts :
  match snapshot ex_s with
  | T [T ns; _; _] => (fin_counts ns 0, fin_counts ns 1)
  | _ => (None, None)
  end = (Some (2, 1, 1)%Z, Some (1, 0, 0)%Z).
Proof. vm_compute. reflexivity. Qed.

Definition ex_fin : tree := T [snapshot ex_s; L (Z.of_nat (length (emitted (tr ex_s))))].

(* by evaluation ... *)
Example ex_final_clauses : final_clauses ex_nt ex_fin = [].
Proof. vm_compute. reflexivity. Qed.
(* ... and as an instance of the theorem *)
Example ex_final_clauses_thm : final_clauses ex_nt ex_fin = [].
Proof.
  destruct ex_end as (Hm & Ht & _). exact (final_clauses_sound ex_nt 1 ex_s ex_good ex_reachable Hm Ht).
Qed.

(* the clauses discriminate: the same observation with node i reporting one event less received *)
Definition less_recv (t : tree) : tree :=
  match t with
  | T [a; b; c; T (L r :: rest); d; e] => T [a; b; c; T (L (r - 1) :: rest); d; e]
  | _ => t
  end.
Fixpoint map_at {A} (i : nat) (f : A -> A) (l : list A) : list A :=
  match l, i with
  | [], _ => []
  | x :: r, O => f x :: r
  | x :: r, S j => x :: map_at j f r
  end.
Definition doctor (i : nat) (fin : tree) : tree :=
  match fin with
  | T [T [T ns; m; sr]; em] => T [T [T (map_at i less_recv ns); m; sr]; em]
  | _ => fin
  end.

(* the root lost an event without counting it *)
Example ex_doctored_root :
  final_clauses ex_nt (doctor 0 ex_fin) = [clause 3 9 [ofNat 0]; clause 1 9 [ofNat 0]; clause 4 9 [ofNat 0]].
Proof. vm_compute. reflexivity. Qed.
(* a failure report did not reach the handler *)
Example ex_doctored_handler :
  final_clauses ex_nt (doctor 1 ex_fin) = [clause 3 9 [ofNat 1]; clause 2 9 [ofNat 1]; clause 4 9 [ofNat 1]].
Proof. vm_compute. reflexivity. Qed.
Example ex_doctored_not_nil :
  final_clauses ex_nt (doctor 0 ex_fin) <> [] /\ final_clauses ex_nt (doctor 1 ex_fin) <> [].
Proof. rewrite ex_doctored_root, ex_doctored_handler. split; discriminate. Qed.
(* and a wrong emission count is seen at the root *)
Example ex_wrong_emitted :
  final_clauses ex_nt (T [snapshot ex_s; L 4]) = [clause 3 9 [ofNat 0]; clause 1 9 [ofNat 0]; clause 4 9 [ofNat 0]].
Proof. vm_compute. reflexivity. Qed.

Print Assumptions final_clauses_sound.
