(* E1 — in a well-formed network the global conservation law [inv_cons] reads, channel by channel:
   what the unique feeder of node c produced for it (source emissions for a root, the parent's results
   for a child, the parent's failure reports for a handler) = offered + dropped + still pending. *)
From Coq Require Import List ZArith Bool Arith Lia.
From FB Require Import Model.Exec Model.TraceSpec Model.ExecInv.
Import ListNotations.
Local Open Scope nat_scope.

(* ---------------- counting helpers ---------------- *)
Lemma count_item_app x a b : count_item x (a ++ b) = count_item x a + count_item x b.
Proof. induction a as [|y a IH]; cbn; [reflexivity|]. rewrite IH. lia. Qed.

Lemma cnt_nat_app c a b : cnt_nat c (a ++ b) = cnt_nat c a + cnt_nat c b.
Proof. unfold cnt_nat. rewrite filter_app, app_length. reflexivity. Qed.

Lemma cnt_pair_app c x a b : cnt_pair c x (a ++ b) = cnt_pair c x a + cnt_pair c x b.
Proof. unfold cnt_pair. rewrite filter_app, app_length. reflexivity. Qed.

Lemma cnt_nat_cons c k l : cnt_nat c (k :: l) = (if c =? k then 1 else 0) + cnt_nat c l.
Proof. unfold cnt_nat; cbn. destruct (c =? k); reflexivity. Qed.

Lemma item_eqb_sym a b : item_eqb a b = item_eqb b a.
Proof. unfold item_eqb. rewrite (Z.eqb_sym (fst a)), (Z.eqb_sym (snd a)). reflexivity. Qed.

Lemma cnt_pair_map_kid c x k es :
  cnt_pair c x (map (fun e => (k, (e, 0%Z))) es)
  = if k =? c then count_item x (map (fun e => (e, 0%Z)) es) else 0.
Proof.
  induction es as [|e es IH]; cbn.
  - destruct (k =? c); reflexivity.
  - unfold cnt_pair in *. cbn. unfold pair_is at 1. cbn.
    destruct (k =? c) eqn:E; cbn.
    + rewrite (item_eqb_sym x). destruct (item_eqb (e, 0%Z) x); cbn; rewrite IH; reflexivity.
    + exact IH.
Qed.

Lemma cnt_pair_deliv_kids c x es kids :
  cnt_pair c x (flat_map (fun k => map (fun e => (k, (e, 0%Z))) es) kids)
  = cnt_nat c kids * count_item x (map (fun e => (e, 0%Z)) es).
Proof.
  induction kids as [|k kids IH]; cbn [flat_map]; [reflexivity|].
  rewrite cnt_pair_app, cnt_pair_map_kid, IH, cnt_nat_cons.
  rewrite (Nat.eqb_sym c k). destruct (k =? c); lia.
Qed.

(* ---------------- what one event entitles c to, in closed form ---------------- *)
Definition handler_is (nt : net) (n c : nat) : bool :=
  match nhandler (info nt n) with Some h => h =? c | None => false end.

Definition entitled (nt : net) (c : nat) (x : item) (n : nat) (it : item) (o : outcome) : nat :=
  match o with
  | ORes es => cnt_nat c (nkids (info nt n)) * count_item x (map (fun e => (e, 0%Z)) es)
  | OFail err => if handler_is nt n c then (if item_eqb x (fst it, err) then 1 else 0) else 0
  | OLater => 0
  end.

Lemma deliveries_entitled nt c x n it o : cnt_pair c x (deliveries nt n it o) = entitled nt c x n it o.
Proof.
  destruct o as [es|err|]; cbn [deliveries entitled]; [apply cnt_pair_deliv_kids| |reflexivity].
  unfold handler_is. destruct (nhandler (info nt n)) as [h|]; [|reflexivity].
  unfold cnt_pair; cbn. unfold pair_is; cbn. rewrite (item_eqb_sym x).
  destruct (h =? c); cbn; [|reflexivity]. destruct (item_eqb (fst it, err) x); reflexivity.
Qed.

(* ---------------- consequences of wf_net ---------------- *)
Lemma nodup_nat_cnt l : nodup_nat l = true -> forall c, cnt_nat c l <= 1.
Proof.
  induction l as [|k l IH]; cbn [nodup_nat]; intros H c; [unfold cnt_nat; cbn; lia|].
  apply andb_true_iff in H as [H1 H2]. rewrite cnt_nat_cons.
  destruct (c =? k) eqn:E; [|specialize (IH H2 c); lia].
  apply Nat.eqb_eq in E; subst k.
  assert (cnt_nat c l = 0).
  { apply negb_true_iff in H1. unfold cnt_nat. clear -H1.
    induction l as [|j l IH]; cbn in *; [reflexivity|].
    apply orb_false_iff in H1 as [H1 H2]. rewrite H1. auto. }
  lia.
Qed.

Lemma cnt_nat_flat_map {A} c (f : A -> list nat) l :
  cnt_nat c (flat_map f l) = sumf (fun a => cnt_nat c (f a)) l.
Proof. induction l as [|a l IH]; cbn [flat_map sumf]; [reflexivity|]. rewrite cnt_nat_app, IH. reflexivity. Qed.

Lemma sumf_nth_le {A} (f : A -> nat) l d n : n < length l -> f (nth n l d) <= sumf f l.
Proof.
  revert n; induction l as [|a l IH]; intros n H; cbn in *; [lia|].
  destruct n; [lia|]. specialize (IH n ltac:(lia)). lia.
Qed.

Lemma sumf_two {A} (f : A -> nat) l d n m :
  n < length l -> m < length l -> n <> m -> f (nth n l d) + f (nth m l d) <= sumf f l.
Proof.
  revert n m; induction l as [|a l IH]; intros n m Hn Hm Hne; cbn in *; [lia|].
  destruct n, m; try lia.
  - pose proof (sumf_nth_le f l d m ltac:(lia)). lia.
  - pose proof (sumf_nth_le f l d n ltac:(lia)). lia.
  - specialize (IH n m ltac:(lia) ltac:(lia) ltac:(lia)). lia.
Qed.

Definition tcount (nt : net) (c n : nat) : nat := cnt_nat c (targets (info nt n)).

Lemma wf_total nt c :
  wf_net nt = true -> cnt_nat c (roots nt) + sumf (fun x => cnt_nat c (targets x)) nt <= 1.
Proof.
  unfold wf_net. intros H. apply andb_true_iff in H as [_ H].
  pose proof (nodup_nat_cnt _ H c) as B. rewrite cnt_nat_app, cnt_nat_flat_map in B. exact B.
Qed.

Lemma info_out_of_range nt n : length nt <= n -> info nt n = dummy_info.
Proof. intros H. unfold info. apply nth_overflow. exact H. Qed.

Lemma tcount_out_of_range nt c n : length nt <= n -> tcount nt c n = 0.
Proof. intros H. unfold tcount. rewrite info_out_of_range by exact H. reflexivity. Qed.

(* a node that is a target of n is a target of nobody else and is no root *)
Lemma wf_unique_feeder nt c n m :
  wf_net nt = true -> 0 < tcount nt c n -> m <> n -> tcount nt c m = 0.
Proof.
  intros Hwf Hn Hne.
  destruct (Nat.lt_ge_cases n (length nt)) as [Ln|Ln]; [|rewrite tcount_out_of_range in Hn by exact Ln; lia].
  destruct (Nat.lt_ge_cases m (length nt)) as [Lm|Lm]; [|apply tcount_out_of_range; exact Lm].
  pose proof (wf_total nt c Hwf) as B.
  pose proof (sumf_two (fun x => cnt_nat c (targets x)) nt dummy_info n m Ln Lm ltac:(lia)) as B2.
  unfold tcount, info in *. lia.
Qed.

Lemma wf_target_not_root nt c n : wf_net nt = true -> 0 < tcount nt c n -> cnt_nat c (roots nt) = 0.
Proof.
  intros Hwf Hn.
  destruct (Nat.lt_ge_cases n (length nt)) as [Ln|Ln]; [|rewrite tcount_out_of_range in Hn by exact Ln; lia].
  pose proof (wf_total nt c Hwf) as B.
  pose proof (sumf_nth_le (fun x => cnt_nat c (targets x)) nt dummy_info n Ln) as B2.
  unfold tcount, info in *. lia.
Qed.

Lemma wf_tcount_le1 nt c n : wf_net nt = true -> tcount nt c n <= 1.
Proof.
  intros Hwf.
  destruct (Nat.lt_ge_cases n (length nt)) as [Ln|Ln]; [|rewrite tcount_out_of_range by exact Ln; lia].
  pose proof (wf_total nt c Hwf) as B.
  pose proof (sumf_nth_le (fun x => cnt_nat c (targets x)) nt dummy_info n Ln) as B2.
  unfold tcount, info in *. lia.
Qed.

Lemma wf_root_no_feeder nt c n : wf_net nt = true -> 0 < cnt_nat c (roots nt) -> tcount nt c n = 0.
Proof.
  intros Hwf Hr. destruct (tcount nt c n) eqn:E; [reflexivity|].
  pose proof (wf_target_not_root nt c n Hwf ltac:(lia)). lia.
Qed.

Lemma tcount_split nt c n :
  tcount nt c n = cnt_nat c (nkids (info nt n)) + (if handler_is nt n c then 1 else 0).
Proof.
  unfold tcount, targets, handler_is. rewrite cnt_nat_app.
  destruct (nhandler (info nt n)) as [h|]; [|unfold cnt_nat at 2; cbn; lia].
  rewrite cnt_nat_cons. rewrite (Nat.eqb_sym c h). destruct (h =? c); unfold cnt_nat at 2; cbn; lia.
Qed.

(* ---------------- find_parent finds the feeder ---------------- *)
Lemma existsb_cnt c l : existsb (Nat.eqb c) l = (0 <? cnt_nat c l).
Proof.
  induction l as [|k l IH]; cbn [existsb]; [reflexivity|]. rewrite cnt_nat_cons, IH.
  destruct (c =? k); cbn; [reflexivity|]. reflexivity.
Qed.

Lemma find_parent_spec l : forall i c,
  match find_parent l i c with
  | FResults m => i <= m < i + length l /\ 0 < cnt_nat c (nkids (nth (m - i) l dummy_info))
  | FFails m => i <= m < i + length l /\ nhandler (nth (m - i) l dummy_info) = Some c
                /\ cnt_nat c (nkids (nth (m - i) l dummy_info)) = 0
  | FNone => forall k, k < length l -> cnt_nat c (targets (nth k l dummy_info)) = 0
  | FSource => False
  end.
Proof.
  induction l as [|x l IH]; intros i c; cbn [find_parent].
  - intros k Hk; cbn in Hk; lia.
  - rewrite existsb_cnt. destruct (0 <? cnt_nat c (nkids x)) eqn:E.
    + apply Nat.ltb_lt in E. replace (i - i) with 0 by lia. cbn. split; [lia|exact E].
    + apply Nat.ltb_ge in E.
      assert (Hrec : match find_parent l (S i) c with
                     | FResults m => i <= m < i + length (x :: l) /\ 0 < cnt_nat c (nkids (nth (m - i) (x :: l) dummy_info))
                     | FFails m => i <= m < i + length (x :: l) /\ nhandler (nth (m - i) (x :: l) dummy_info) = Some c
                                   /\ cnt_nat c (nkids (nth (m - i) (x :: l) dummy_info)) = 0
                     | FNone => cnt_nat c (targets x) = 0 -> forall k, k < length (x :: l) -> cnt_nat c (targets (nth k (x :: l) dummy_info)) = 0
                     | FSource => False
                     end).
      { specialize (IH (S i) c). destruct (find_parent l (S i) c) as [|m|m|]; cbn [length]; auto.
        - destruct IH as [R H]. replace (m - i) with (S (m - S i)) by lia. cbn. split; [lia|exact H].
        - destruct IH as [R H]. replace (m - i) with (S (m - S i)) by lia. cbn. split; [lia|exact H].
        - intros Hx k Hk. destruct k; cbn; [exact Hx|]. apply IH. lia. }
      destruct (nhandler x) as [h|] eqn:Eh.
      * destruct (h =? c) eqn:Ehc.
        -- apply Nat.eqb_eq in Ehc; subst h. replace (i - i) with 0 by lia. cbn. repeat split; try lia; auto.
        -- destruct (find_parent l (S i) c); auto. apply Hrec.
           unfold targets. rewrite Eh, cnt_nat_app, cnt_nat_cons. apply Nat.eqb_neq in Ehc.
           destruct (c =? h) eqn:E2; [apply Nat.eqb_eq in E2; congruence|]. unfold cnt_nat at 2; cbn. lia.
      * destruct (find_parent l (S i) c); auto. apply Hrec.
        unfold targets. rewrite Eh, cnt_nat_app. unfold cnt_nat at 2; cbn. lia.
Qed.

(* ---------------- projections of a trace, event by event ---------------- *)
Definition res_ev (m : nat) (e : tev) : list item :=
  match e with
  | TRet n it (ORes es) | TCb n it (ORes es) => if n =? m then map (fun v => (v, 0%Z)) es else []
  | _ => []
  end.
Definition fail_ev (m : nat) (e : tev) : list item :=
  match e with
  | TRet n it (OFail err) | TCb n it (OFail err) => if n =? m then [(fst it, err)] else []
  | _ => []
  end.

Lemma results_cons m e p : results m (e :: p) = res_ev m e ++ results m p.
Proof.
  unfold results, outcomes. cbn [flat_map]. rewrite flat_map_app. f_equal.
  destruct e as [| | | | | | n it o | n it o | | | |]; cbn; try reflexivity;
    destruct (n =? m); cbn; try reflexivity; destruct o; cbn; rewrite ?app_nil_r; reflexivity.
Qed.
Lemma failreps_cons m e p : failreps m (e :: p) = fail_ev m e ++ failreps m p.
Proof.
  unfold failreps, outcomes. cbn [flat_map]. rewrite flat_map_app. f_equal.
  destruct e as [| | | | | | n it o | n it o | | | |]; cbn; try reflexivity;
    destruct (n =? m); cbn; try reflexivity; destruct o; cbn; reflexivity.
Qed.
Lemma emitted_cons e p :
  emitted (e :: p) = (match e with TEmit v => [(v, 0%Z)] | _ => [] end) ++ emitted p.
Proof. unfold emitted. cbn [flat_map]. reflexivity. Qed.

(* ---------------- the law, channel by channel ---------------- *)
Lemma produced_root nt c x p :
  wf_net nt = true -> 0 < cnt_nat c (roots nt) -> produced nt c x p = count_item x (emitted p).
Proof.
  intros Hwf Hr. induction p as [|e p IH]; [reflexivity|].
  unfold produced in *. cbn [sumf]. rewrite IH, emitted_cons, count_item_app. f_equal.
  assert (R1 : cnt_nat c (roots nt) = 1).
  { pose proof (wf_total nt c Hwf). lia. }
  destruct e as [| | | | v | | n it o | n it o | | | |]; cbn [produced_by]; try reflexivity.
  - rewrite R1. cbn. rewrite (item_eqb_sym x). destruct (item_eqb (v, 0%Z) x); reflexivity.
  - rewrite deliveries_entitled. pose proof (wf_root_no_feeder nt c n Hwf Hr) as Z. rewrite tcount_split in Z.
    destruct o as [es|err|]; cbn [entitled]; [|destruct (handler_is nt n c); [lia|reflexivity]|reflexivity].
    replace (cnt_nat c (nkids (info nt n))) with 0 by lia. reflexivity.
  - rewrite deliveries_entitled. pose proof (wf_root_no_feeder nt c n Hwf Hr) as Z. rewrite tcount_split in Z.
    destruct o as [es|err|]; cbn [entitled]; [|destruct (handler_is nt n c); [lia|reflexivity]|reflexivity].
    replace (cnt_nat c (nkids (info nt n))) with 0 by lia. reflexivity.
Qed.

Lemma produced_child nt c x m p :
  wf_net nt = true -> 0 < cnt_nat c (nkids (info nt m)) -> produced nt c x p = count_item x (results m p).
Proof.
  intros Hwf Hk.
  assert (Tm : 0 < tcount nt c m) by (rewrite tcount_split; lia).
  assert (K1 : cnt_nat c (nkids (info nt m)) = 1 /\ handler_is nt m c = false).
  { pose proof (wf_tcount_le1 nt c m Hwf) as B. rewrite tcount_split in B.
    destruct (handler_is nt m c); [lia|]. split; [lia|reflexivity]. }
  destruct K1 as [K1 K2].
  assert (R0 : cnt_nat c (roots nt) = 0) by (eapply wf_target_not_root; eassumption).
  assert (Oth : forall n, n <> m -> cnt_nat c (nkids (info nt n)) = 0 /\ handler_is nt n c = false).
  { intros n Hn. pose proof (wf_unique_feeder nt c m n Hwf Tm Hn) as Z. rewrite tcount_split in Z.
    destruct (handler_is nt n c); [lia|]. split; [lia|reflexivity]. }
  induction p as [|e p IH]; [reflexivity|].
  unfold produced in *. cbn [sumf]. rewrite IH, results_cons, count_item_app. f_equal.
  assert (EV : forall n it o, entitled nt c x n it o
                              = count_item x (match o with ORes es => if n =? m then map (fun v => (v, 0%Z)) es else [] | _ => [] end)).
  { intros n it o. destruct (Nat.eq_dec n m) as [->|Hn].
    - rewrite Nat.eqb_refl. destruct o as [es|err|]; cbn [entitled]; [rewrite K1; lia|rewrite K2; reflexivity|reflexivity].
    - destruct (Oth n Hn) as [O1 O2]. apply Nat.eqb_neq in Hn. rewrite Hn.
      destruct o as [es|err|]; cbn [entitled]; [rewrite O1; reflexivity|rewrite O2; reflexivity|reflexivity]. }
  destruct e as [| | | | v | | n it o | n it o | | | |]; cbn [produced_by res_ev]; try reflexivity.
  - rewrite R0. destruct (item_eqb (v, 0%Z) x); reflexivity.
  - rewrite deliveries_entitled, EV. destruct o; reflexivity.
  - rewrite deliveries_entitled, EV. destruct o; reflexivity.
Qed.

Lemma produced_handler nt c x m p :
  wf_net nt = true -> handler_is nt m c = true -> produced nt c x p = count_item x (failreps m p).
Proof.
  intros Hwf Hh.
  assert (Tm : 0 < tcount nt c m) by (rewrite tcount_split, Hh; lia).
  assert (K1 : cnt_nat c (nkids (info nt m)) = 0).
  { pose proof (wf_tcount_le1 nt c m Hwf) as B. rewrite tcount_split, Hh in B. lia. }
  assert (R0 : cnt_nat c (roots nt) = 0) by (eapply wf_target_not_root; eassumption).
  assert (Oth : forall n, n <> m -> cnt_nat c (nkids (info nt n)) = 0 /\ handler_is nt n c = false).
  { intros n Hn. pose proof (wf_unique_feeder nt c m n Hwf Tm Hn) as Z. rewrite tcount_split in Z.
    destruct (handler_is nt n c); [lia|]. split; [lia|reflexivity]. }
  induction p as [|e p IH]; [reflexivity|].
  unfold produced in *. cbn [sumf]. rewrite IH, failreps_cons, count_item_app. f_equal.
  assert (EV : forall n it o, entitled nt c x n it o
                              = count_item x (match o with OFail err => if n =? m then [(fst it, err)] else [] | _ => [] end)).
  { intros n it o. destruct (Nat.eq_dec n m) as [->|Hn].
    - rewrite Nat.eqb_refl. destruct o as [es|err|]; cbn [entitled]; [rewrite K1; reflexivity| |reflexivity].
      rewrite Hh. cbn. destruct (item_eqb x (fst it, err)); reflexivity.
    - destruct (Oth n Hn) as [O1 O2]. apply Nat.eqb_neq in Hn. rewrite Hn.
      destruct o as [es|err|]; cbn [entitled]; [rewrite O1; reflexivity|rewrite O2; reflexivity|reflexivity]. }
  destruct e as [| | | | v | | n it o | n it o | | | |]; cbn [produced_by fail_ev]; try reflexivity.
  - rewrite R0. destruct (item_eqb (v, 0%Z) x); reflexivity.
  - rewrite deliveries_entitled, EV. destruct o; reflexivity.
  - rewrite deliveries_entitled, EV. destruct o; reflexivity.
Qed.

Lemma produced_orphan nt c x p :
  wf_net nt = true -> cnt_nat c (roots nt) = 0 -> (forall n, tcount nt c n = 0) -> produced nt c x p = 0.
Proof.
  intros Hwf R0 Hn. induction p as [|e p IH]; [reflexivity|].
  unfold produced in *. cbn [sumf]. rewrite IH.
  assert (EV : forall n it o, entitled nt c x n it o = 0).
  { intros n it o. specialize (Hn n). rewrite tcount_split in Hn.
    destruct o as [es|err|]; cbn [entitled]; [|destruct (handler_is nt n c); [lia|reflexivity]|reflexivity].
    replace (cnt_nat c (nkids (info nt n))) with 0 by lia. reflexivity. }
  destruct e as [| | | | v | | n it o | n it o | | | |]; cbn [produced_by]; try reflexivity.
  - rewrite R0. destruct (item_eqb (v, 0%Z) x); reflexivity.
  - rewrite deliveries_entitled, EV; reflexivity.
  - rewrite deliveries_entitled, EV; reflexivity.
Qed.
