(* Lemmas about Model/Config.v (E6, property C13). *)
From Coq Require Import List ZArith Bool Lia.
From FB Require Import Lib.Sexp Lib.Eqb Model.Config Judge.E6.
Import ListNotations.
Open Scope Z_scope.

(* ---------- induction over configuration trees (nested through list and option) ---------- *)
Section CfgInd.
  Variable P : cfg -> Prop.
  Definition on_handler (h : option cfg) : Prop := match h with Some x => P x | None => True end.
  Hypothesis step : forall a kids h, Forall P kids -> on_handler h -> P (Cfg a kids h).
  Fixpoint cfg_ind' (c : cfg) : P c :=
    match c with
    | Cfg a kids h =>
        step a kids h
             ((fix go (ks : list cfg) : Forall P ks :=
                 match ks with
                 | [] => Forall_nil P
                 | k :: ks' => Forall_cons k (cfg_ind' k) (go ks')
                 end) kids)
             (match h as h0 return on_handler h0 with
              | Some x => cfg_ind' x
              | None => I
              end)
    end.
End CfgInd.

(* ---------- sequencing ---------- *)
Lemma seq_ok a b : seq a b = Ok <-> a = Ok /\ b = Ok.
Proof. destruct a; simpl; split; intros H; try discriminate; try (destruct H; discriminate); tauto. Qed.

Lemma seq_all_ok {A} (f : A -> outcome) l : seq_all f l = Ok <-> Forall (fun x => f x = Ok) l.
Proof.
  induction l as [|x l IH]; simpl.
  - split; [constructor|reflexivity].
  - rewrite seq_ok, IH. split.
    + intros [H1 H2]; constructor; assumption.
    + intros H; inversion H; subst; split; assumption.
Qed.

Lemma seq_all_ext {A} (f g : A -> outcome) l :
  Forall (fun x => f x = g x) l -> seq_all f l = seq_all g l.
Proof. induction 1 as [|x l E _ IH]; simpl; [reflexivity|]. now rewrite E, IH. Qed.

Lemma seq_all_map {A B} (f : B -> outcome) (g : A -> B) l :
  seq_all f (map g l) = seq_all (fun x => f (g x)) l.
Proof. induction l as [|x l IH]; simpl; [reflexivity|]. now rewrite IH. Qed.

(* ---------- defaults do not change what validation looks at ---------- *)
Lemma id_of_dflt a : id_of (dflt_attrs a) = id_of a.
Proof. reflexivity. Qed.

Lemma name_of_dflt c : name_of (dflt c) = name_of c.
Proof. destruct c; reflexivity. Qed.

Lemma has_kids_section_dflt c : has_kids_section (dflt c) = has_kids_section c.
Proof. destruct c as [a kids h]; unfold has_kids_section; simpl. destruct kids; reflexivity. Qed.

Lemma handler_of_dflt c : handler_of (dflt c) = option_map dflt (handler_of c).
Proof. destruct c; reflexivity. Qed.

Lemma v_edges_dflt reg p kids : v_edges reg p (map dflt kids) = v_edges reg p kids.
Proof.
  induction kids as [|k ks IH]; simpl; [reflexivity|].
  rewrite name_of_dflt, IH. reflexivity.
Qed.

Lemma v_handler_dflt reg h : v_handler reg (dflt h) = v_handler reg h.
Proof.
  unfold v_handler. rewrite has_kids_section_dflt, handler_of_dflt, name_of_dflt.
  destruct (handler_of h); reflexivity.
Qed.

Lemma v_node_dflt reg c : v_node reg (dflt c) = v_node reg c.
Proof.
  induction c as [a kids h IHk IHh] using cfg_ind'.
  cbn [dflt v_node dflt_attrs a_name].
  destruct (lookup (a_name a) reg) as [r|]; [|reflexivity].
  rewrite v_edges_dflt. f_equal. f_equal.
  - destruct h as [x|]; simpl; [apply v_handler_dflt|reflexivity].
  - rewrite seq_all_map. apply seq_all_ext. exact IHk.
Qed.

Lemma uniq_walk_dflt c : forall seen, uniq_walk seen (dflt c) = uniq_walk seen c.
Proof.
  induction c as [a kids h IHk _] using cfg_ind'. intros seen.
  cbn [dflt uniq_walk]. rewrite id_of_dflt.
  destruct (existsb (Z.eqb (id_of a)) seen); [reflexivity|].
  destruct kids as [|k ks]; simpl; [reflexivity|].
  inversion IHk; subst; auto.
Qed.

Lemma uniq_roots_dflt roots : forall seen, uniq_roots seen (map dflt roots) = uniq_roots seen roots.
Proof.
  induction roots as [|r rs IH]; intros seen; simpl; [reflexivity|].
  rewrite uniq_walk_dflt. destruct (uniq_walk seen r); [apply IH|reflexivity].
Qed.

Lemma validate_defaults rg c : validate rg (defaults c) = validate rg c.
Proof.
  unfold validate, defaults, v_unique, v_source; simpl.
  rewrite uniq_roots_dflt. f_equal. f_equal. f_equal.
  - destruct (c_src c) as [s|]; [|reflexivity].
    destruct (lookup s (sreg rg)); [apply v_edges_dflt|reflexivity].
  - rewrite seq_all_map. apply seq_all_ext.
    apply Forall_forall; intros x _; apply v_node_dflt.
Qed.

(* ---------- validateUniqueID = uniqueness along first-child chains ---------- *)
Fixpoint add_all (seen l : list Z) : option (list Z) :=
  match l with
  | [] => Some seen
  | x :: l' => if existsb (Z.eqb x) seen then None else add_all (x :: seen) l'
  end.

Lemma add_all_app l1 : forall seen l2,
  add_all seen (l1 ++ l2) = match add_all seen l1 with Some s => add_all s l2 | None => None end.
Proof.
  induction l1 as [|x l1 IH]; intros seen l2; simpl; [reflexivity|].
  destruct (existsb (Z.eqb x) seen); [reflexivity|apply IH].
Qed.

Lemma uniq_walk_chain c : forall seen, uniq_walk seen c = add_all seen (chain c).
Proof.
  induction c as [a kids h IHk _] using cfg_ind'. intros seen.
  cbn [uniq_walk chain add_all].
  destruct (existsb (Z.eqb (id_of a)) seen); [reflexivity|].
  destruct kids as [|k ks]; [reflexivity|].
  inversion IHk; subst; auto.
Qed.

Lemma uniq_roots_chain roots : forall seen, uniq_roots seen roots = add_all seen (chain_ids roots).
Proof.
  induction roots as [|r rs IH]; intros seen; simpl; [reflexivity|].
  unfold chain_ids in *. simpl. rewrite add_all_app, uniq_walk_chain.
  destruct (add_all seen (chain r)); [apply IH|reflexivity].
Qed.

Lemma add_all_ok l : forall seen,
  (exists s, add_all seen l = Some s) <-> NoDup l /\ (forall x, In x l -> ~ In x seen).
Proof.
  induction l as [|x l IH]; intros seen; simpl.
  - split; [intros _; split; [constructor|tauto] | intros _; eauto].
  - destruct (existsb (Z.eqb x) seen) eqn:E.
    + apply existsb_Zeqb_In in E. split.
      * intros [s Hs]; discriminate.
      * intros [_ H]. exfalso. apply (H x); auto.
    + assert (Hx : ~ In x seen) by (intros Hin; apply existsb_Zeqb_In in Hin; congruence).
      rewrite IH. split.
      * intros [Hnd Hd]. split.
        -- constructor; [|assumption]. intros Hin. apply (Hd x Hin). now left.
        -- intros y [Hy|Hy]; [subst; assumption|]. intros Hin. apply (Hd y Hy). now right.
      * intros [Hnd Hd]. inversion Hnd as [|? ? Hnin Hnd']; subst. split; [assumption|].
        intros y Hy [Heq|Hin]; [subst; contradiction|]. apply (Hd y); auto.
Qed.

Lemma v_unique_ok roots : v_unique roots = Ok <-> NoDup (chain_ids roots).
Proof.
  unfold v_unique. rewrite uniq_roots_chain.
  pose proof (add_all_ok (chain_ids roots) []) as H.
  destruct (add_all [] (chain_ids roots)) as [s|].
  - split; [intros _|reflexivity]. apply H. eauto.
  - split; [discriminate|]. intros Hnd. destruct H as [_ H].
    destruct H as [s Hs]; [split; [assumption|intros x _ []]|discriminate].
Qed.

(* ---------- subsequences: chain ids are among all ids ---------- *)
Inductive subseq {A} : list A -> list A -> Prop :=
| sub_nil : forall l, subseq [] l
| sub_skip : forall x l1 l2, subseq l1 l2 -> subseq l1 (x :: l2)
| sub_take : forall x l1 l2, subseq l1 l2 -> subseq (x :: l1) (x :: l2).

Lemma subseq_refl {A} (l : list A) : subseq l l.
Proof. induction l; constructor; assumption. Qed.

Lemma subseq_In {A} (l1 l2 : list A) : subseq l1 l2 -> forall x, In x l1 -> In x l2.
Proof.
  induction 1 as [l|y l1 l2 _ IH|y l1 l2 _ IH]; intros x Hx; simpl in *.
  - contradiction.
  - right; auto.
  - destruct Hx; [left; assumption|right; auto].
Qed.

Lemma subseq_NoDup {A} (l1 l2 : list A) : subseq l1 l2 -> NoDup l2 -> NoDup l1.
Proof.
  induction 1 as [l|y l1 l2 Hs IH|y l1 l2 Hs IH]; intros Hnd.
  - constructor.
  - inversion Hnd; subst; auto.
  - inversion Hnd as [|? ? Hnin Hnd']; subst. constructor; [|auto].
    intros Hin. apply Hnin. eapply subseq_In; eassumption.
Qed.

Lemma subseq_app {A} (a a' b b' : list A) : subseq a a' -> subseq b b' -> subseq (a ++ b) (a' ++ b').
Proof.
  intros Ha Hb. induction Ha as [l|y l1 l2 _ IH|y l1 l2 _ IH]; simpl.
  - induction l as [|z l IHl]; simpl; [assumption|constructor; assumption].
  - constructor; assumption.
  - constructor; assumption.
Qed.

Lemma subseq_app_r {A} (a b c : list A) : subseq a b -> subseq a (b ++ c).
Proof.
  intros H. rewrite <- (app_nil_r a). apply subseq_app; [assumption|constructor].
Qed.

Lemma chain_subseq c : subseq (chain c) (map eff_id (nodes_of c)).
Proof.
  induction c as [a kids h IHk _] using cfg_ind'.
  cbn [chain nodes_of map]. unfold eff_id at 1. cbn [attrs_of]. apply sub_take.
  destruct kids as [|k ks]; [constructor|].
  cbn [flat_map]. rewrite map_app. apply subseq_app_r. inversion IHk; subst; assumption.
Qed.

Lemma chain_ids_subseq roots : subseq (chain_ids roots) (all_ids roots).
Proof.
  unfold chain_ids, all_ids, all_nodes.
  induction roots as [|r rs IH]; simpl; [constructor|].
  rewrite map_app. apply subseq_app; [apply chain_subseq|assumption].
Qed.

Lemma unique_unique' c : unique c -> unique' c.
Proof. unfold unique, unique'. apply subseq_NoDup, chain_ids_subseq. Qed.

(* ---------- the processing tree as a flat list ---------- *)
Lemma self_in_nodes c : In c (nodes_of c).
Proof. destruct c; simpl; auto. Qed.

Lemma roots_in_all roots r : In r roots -> In r (all_nodes roots).
Proof. intros H. apply in_flat_map. exists r; split; [assumption|apply self_in_nodes]. Qed.

Lemma kids_in_nodes c : forall n k, In n (nodes_of c) -> In k (kids_of n) -> In k (nodes_of c).
Proof.
  induction c as [a kids h IHk _] using cfg_ind'. intros n k Hn Hk.
  cbn [nodes_of] in *. destruct Hn as [Hn|Hn].
  - subst n. cbn [kids_of] in Hk. right. apply in_flat_map. exists k; split; [assumption|apply self_in_nodes].
  - right. apply in_flat_map in Hn as [k0 [Hk0 Hn]]. apply in_flat_map. exists k0; split; [assumption|].
    rewrite Forall_forall in IHk. eapply IHk; eassumption.
Qed.

Lemma kids_in_all roots n k : In n (all_nodes roots) -> In k (kids_of n) -> In k (all_nodes roots).
Proof.
  unfold all_nodes. intros Hn Hk. apply in_flat_map in Hn as [r [Hr Hn]].
  apply in_flat_map. exists r; split; [assumption|]. eapply kids_in_nodes; eassumption.
Qed.

(* ---------- validateNodeConfig, node by node ---------- *)
Definition node_ok (reg : list (Z * reginfo)) (n : cfg) : Prop :=
  exists r, lookup (name_of n) reg = Some r
            /\ v_edges reg (r_prod r) (kids_of n) = Ok
            /\ match handler_of n with None => True | Some x => v_handler reg x = Ok end.

Lemma v_node_ok reg c : v_node reg c = Ok <-> Forall (node_ok reg) (nodes_of c).
Proof.
  induction c as [a kids h IHk _] using cfg_ind'.
  cbn [v_node nodes_of]. rewrite Forall_cons_iff, Forall_flat_map.
  assert (Hk : seq_all (v_node reg) kids = Ok <-> Forall (fun k => Forall (node_ok reg) (nodes_of k)) kids).
  { rewrite seq_all_ok. rewrite !Forall_forall in *. split; intros H x Hx; apply (IHk x Hx); auto. }
  unfold node_ok at 1. change (name_of (Cfg a kids h)) with (a_name a). cbn [kids_of handler_of].
  destruct (lookup (a_name a) reg) as [r|].
  - rewrite !seq_ok, Hk. split.
    + intros [He [Hh Hks]]. split; [|assumption]. exists r. repeat split; try assumption.
      destruct h; [assumption|exact I].
    + intros [[r' [Hr [He Hh]]] Hks]. inversion Hr; subst r'. repeat split; try assumption.
      destruct h; [assumption|reflexivity].
  - split; [discriminate|]. intros [[r' [Hr _]] _]; discriminate.
Qed.

Lemma v_nodes_ok reg roots : seq_all (v_node reg) roots = Ok <-> Forall (node_ok reg) (all_nodes roots).
Proof.
  unfold all_nodes. rewrite seq_all_ok, Forall_flat_map.
  rewrite !Forall_forall. split; intros H x Hx; apply v_node_ok; auto.
Qed.

Lemma Zeqb_eq' x y : (x =? y) = true -> x = y.
Proof. apply Z.eqb_eq. Qed.

Lemma compat_ok p c : compat p c = Ok <-> p = c.
Proof.
  unfold compat. destruct (opt_eqb Z.eqb p c) eqn:E.
  - split; [intros _|reflexivity]. apply (opt_eqb_eq Z.eqb Zeqb_eq'). assumption.
  - split.
    + destruct p, c; discriminate.
    + intros ->. rewrite (opt_eqb_refl Z.eqb Z.eqb_refl) in E. discriminate.
Qed.

Lemma v_edges_ok reg p kids :
  v_edges reg p kids = Ok
  <-> Forall (fun k => exists cr, lookup (name_of k) reg = Some cr /\ r_cons cr = p) kids.
Proof.
  induction kids as [|k ks IH]; simpl.
  - split; [constructor|reflexivity].
  - rewrite Forall_cons_iff, <- IH. destruct (lookup (name_of k) reg) as [cr|].
    + rewrite seq_ok, compat_ok. split.
      * intros [Hc Hks]. split; [exists cr; auto|assumption].
      * intros [[cr' [Hcr Hc]] Hks]. inversion Hcr; subst. auto.
    + split; [discriminate|]. intros [[cr' [Hcr _]] _]; discriminate.
Qed.

Lemma v_handler_ok reg h :
  v_handler reg h = Ok
  <-> has_kids_section h = false /\ handler_of h = None
      /\ exists r, lookup (name_of h) reg = Some r /\ r_cons r = Some ty_error.
Proof.
  unfold v_handler. destruct (has_kids_section h).
  { split; [discriminate|]. intros [H _]; discriminate. }
  destruct (handler_of h).
  { split; [discriminate|]. intros [_ [H _]]; discriminate. }
  destruct (lookup (name_of h) reg) as [r|].
  - destruct (opt_eqb Z.eqb (r_cons r) (Some ty_error)) eqn:E.
    + split; [intros _|reflexivity]. repeat split. exists r; split; [reflexivity|].
      apply (opt_eqb_eq Z.eqb Zeqb_eq'); assumption.
    + split.
      * destruct (r_cons r); discriminate.
      * intros [_ [_ [r' [Hr Hc]]]]. inversion Hr; subst r'. rewrite Hc in E.
        rewrite (opt_eqb_refl Z.eqb Z.eqb_refl) in E. discriminate.
  - split; [discriminate|]. intros [_ [_ [r' [Hr _]]]]; discriminate.
Qed.

Lemma v_idata_ok t : v_idata t = Ok <-> match t with None => True | Some t => t = tr_kafka end.
Proof.
  destruct t as [t|]; simpl; [|tauto].
  destruct (t =? tr_kafka) eqn:E; split; intros H; try reflexivity; try discriminate; lia.
Qed.

(* ---------- validate = the weakened consistency ---------- *)
Lemma not_none {A} (o : option A) : o <> None -> exists x, o = Some x.
Proof. destruct o; [eauto|congruence]. Qed.

Lemma validate_consistent' rg c : validate rg c = Ok <-> consistent' rg c.
Proof.
  unfold validate. rewrite !seq_ok, v_unique_ok, v_idata_ok, v_nodes_ok.
  unfold consistent', others, unique', transport_ok. split.
  - intros [Hu [Ht [Hs Hn]]]. split; [assumption|].
    unfold v_source in Hs. destruct (c_src c) as [s|] eqn:Es; [|discriminate].
    destruct (lookup s (sreg rg)) as [p|] eqn:Ep; [|discriminate].
    rewrite v_edges_ok in Hs. rewrite Forall_forall in Hs, Hn.
    repeat split; try assumption.
    + exists s; split; [assumption|congruence].
    + apply Forall_forall. intros n Hin. destruct (Hn n Hin) as [r [Hr [_ Hh]]]. split.
      * unfold is_reg; congruence.
      * destruct (handler_of n) as [h|]; [|exact I].
        apply v_handler_ok in Hh as [_ [_ [r' [Hr' _]]]]. unfold is_reg; congruence.
    + intros s' p' Hs' Hp'. assert (s' = s) by congruence; subst s'. assert (p' = p) by congruence; subst p'.
      apply Forall_forall. intros n Hin r Hr. destruct (Hs n Hin) as [cr [Hcr Hc]]. congruence.
    + apply Forall_forall. intros n Hin r Hr. destruct (Hn n Hin) as [r' [Hr' [He _]]].
      assert (r' = r) by congruence; subst r'. rewrite v_edges_ok, Forall_forall in He.
      apply Forall_forall. intros k Hk r2 Hr2. destruct (He k Hk) as [cr [Hcr Hc]]. congruence.
    + unfold handlers_ok. apply Forall_forall. intros n Hin. destruct (Hn n Hin) as [r [_ [_ Hh]]].
      destruct (handler_of n) as [h|]; [|exact I].
      apply v_handler_ok in Hh as [H1 [H2 [r' [Hr' Hc]]]]. repeat split; try assumption.
      intros r2 Hr2. congruence.
  - intros [Hu [[[s [Es Hsr]] Hreg] [[Ht1 Ht2] [Hh Htr]]]].
    rewrite Forall_forall in Hreg, Ht2. unfold handlers_ok in Hh. rewrite Forall_forall in Hh.
    repeat split; try assumption.
    + unfold v_source. rewrite Es. apply not_none in Hsr as [p Hp]. rewrite Hp.
      apply v_edges_ok, Forall_forall. intros n Hin.
      destruct (Hreg n (roots_in_all _ _ Hin)) as [Hr _]. apply not_none in Hr as [cr Hcr].
      exists cr; split; [assumption|].
      specialize (Ht1 s p Es Hp). rewrite Forall_forall in Ht1. apply (Ht1 n Hin cr Hcr).
    + apply Forall_forall. intros n Hin. destruct (Hreg n Hin) as [Hr Hrh].
      apply not_none in Hr as [r Hr]. exists r. repeat split; [assumption| |].
      * apply v_edges_ok, Forall_forall. intros k Hk.
        destruct (Hreg k (kids_in_all _ _ _ Hin Hk)) as [Hkr _]. apply not_none in Hkr as [cr Hcr].
        exists cr; split; [assumption|].
        specialize (Ht2 n Hin r Hr). rewrite Forall_forall in Ht2. apply (Ht2 k Hk cr Hcr).
      * specialize (Hh n Hin). destruct (handler_of n) as [h|]; [|exact I].
        destruct Hh as [H1 [H2 H3]]. apply v_handler_ok. repeat split; try assumption.
        apply not_none in Hrh as [rh Hrh']. exists rh; split; [assumption|]. apply H3; assumption.
Qed.

Lemma read_accept rg c :
  read rg PreOk c = match validate rg c with
                    | Ok => Accept (fix_timeout (defaults c))
                    | Rej => Reject
                    | Pan => Panic
                    end.
Proof. unfold read. rewrite validate_defaults. reflexivity. Qed.

Lemma accepted_validate rg c : accepted rg c <-> validate rg c = Ok.
Proof.
  unfold accepted. rewrite read_accept. destruct (validate rg c); split; intros H;
    try reflexivity; try discriminate; try (destruct H; discriminate). eauto.
Qed.

Lemma accept_iff_partial rg c : accepted rg c <-> consistent' rg c.
Proof. rewrite accepted_validate. apply validate_consistent'. Qed.

Lemma consistent_consistent' rg c : consistent rg c -> consistent' rg c.
Proof. intros [Hu Ho]. split; [apply unique_unique'|]; assumption. Qed.

Lemma consistent_accepted rg c : consistent rg c -> accepted rg c.
Proof. intros H. apply accept_iff_partial, consistent_consistent', H. Qed.

Lemma accepted_others rg c : accepted rg c -> unique' c /\ others rg c.
Proof. intros H. apply accept_iff_partial in H. exact H. Qed.

(* when not accepted, the result is an error or a panic — never a Config *)
Lemma not_accepted_outcome rg pre c :
  ~ (exists c', read rg pre c = Accept c') -> read rg pre c = Reject \/ read rg pre c = Panic.
Proof. intros H. destruct (read rg pre c); [exfalso; eauto|auto|auto]. Qed.

(* exactly which accepted configurations are inconsistent: those whose only flaw is a duplicate
   id that does not lie on a first-child chain *)
Lemma accepted_gap rg c :
  accepted rg c /\ ~ consistent rg c <-> others rg c /\ unique' c /\ ~ unique c.
Proof.
  rewrite accept_iff_partial. unfold consistent, consistent'. tauto.
Qed.

(* a panic needs a nil type in the registry or a missing source section *)
Definition no_nil_types (rg : regs) : Prop :=
  Forall (fun e => r_cons (snd e) <> None /\ r_prod (snd e) <> None) (nreg rg)
  /\ Forall (fun e => snd e <> None) (sreg rg).

Lemma lookup_In {A} k (l : list (Z * A)) v : lookup k l = Some v -> In (k, v) l.
Proof.
  induction l as [|[k' v'] l IH]; simpl; [discriminate|].
  destruct (k =? k') eqn:E.
  - intros H; inversion H; subst. left. f_equal. symmetry. lia.
  - intros H; right; auto.
Qed.

Lemma compat_no_pan p c : p <> None -> c <> None -> compat p c <> Pan.
Proof. unfold compat. destruct (opt_eqb Z.eqb p c), p, c; congruence. Qed.

Lemma v_edges_no_pan reg p kids :
  Forall (fun e => r_cons (snd e) <> None /\ r_prod (snd e) <> None) reg -> p <> None ->
  v_edges reg p kids <> Pan.
Proof.
  intros Hreg Hp. induction kids as [|k ks IH]; simpl; [discriminate|].
  destruct (lookup (name_of k) reg) as [cr|] eqn:E; [|discriminate].
  apply lookup_In in E. rewrite Forall_forall in Hreg. destruct (Hreg _ E) as [Hc _]. simpl in Hc.
  pose proof (compat_no_pan p (r_cons cr) Hp Hc).
  destruct (compat p (r_cons cr)); simpl; congruence.
Qed.

Lemma v_handler_no_pan reg h :
  Forall (fun e => r_cons (snd e) <> None /\ r_prod (snd e) <> None) reg -> v_handler reg h <> Pan.
Proof.
  intros Hreg. unfold v_handler. destruct (has_kids_section h); [discriminate|].
  destruct (handler_of h); [discriminate|].
  destruct (lookup (name_of h) reg) as [r|] eqn:E; [|discriminate].
  apply lookup_In in E. rewrite Forall_forall in Hreg. destruct (Hreg _ E) as [Hc _]. simpl in Hc.
  destruct (opt_eqb Z.eqb (r_cons r) (Some ty_error)); [discriminate|].
  destruct (r_cons r); congruence.
Qed.

Lemma seq_no_pan a b : a <> Pan -> b <> Pan -> seq a b <> Pan.
Proof. destruct a; simpl; congruence. Qed.

Lemma seq_all_no_pan {A} (f : A -> outcome) l : Forall (fun x => f x <> Pan) l -> seq_all f l <> Pan.
Proof. induction 1; simpl; [discriminate|]. apply seq_no_pan; assumption. Qed.

Lemma v_node_no_pan reg c :
  Forall (fun e => r_cons (snd e) <> None /\ r_prod (snd e) <> None) reg -> v_node reg c <> Pan.
Proof.
  intros Hreg. induction c as [a kids h IHk _] using cfg_ind'. cbn [v_node].
  destruct (lookup (a_name a) reg) as [r|] eqn:E; [|discriminate].
  apply lookup_In in E. pose proof Hreg as Hreg'. rewrite Forall_forall in Hreg'.
  destruct (Hreg' _ E) as [_ Hp]. simpl in Hp.
  apply seq_no_pan; [apply v_edges_no_pan; assumption|].
  apply seq_no_pan; [destruct h; [apply v_handler_no_pan; assumption|discriminate]|].
  apply seq_all_no_pan. exact IHk.
Qed.

Lemma no_panic rg c :
  no_nil_types rg -> c_src c <> None -> read rg PreOk c <> Panic.
Proof.
  intros [Hn Hs] Hsrc. rewrite read_accept.
  assert (H : validate rg c <> Pan).
  { unfold validate. apply seq_no_pan; [unfold v_unique; destruct (uniq_roots [] (c_nodes c)); discriminate|].
    apply seq_no_pan; [unfold v_idata; destruct (c_idata c) as [t|]; [destruct (t =? tr_kafka)|]; discriminate|].
    apply seq_no_pan.
    - unfold v_source. destruct (c_src c) as [s|]; [|congruence].
      destruct (lookup s (sreg rg)) as [p|] eqn:E; [|discriminate].
      apply lookup_In in E. rewrite Forall_forall in Hs. specialize (Hs _ E). simpl in Hs.
      apply v_edges_no_pan; assumption.
    - apply seq_all_no_pan. apply Forall_forall. intros x _. apply v_node_no_pan; assumption. }
  destruct (validate rg c); congruence.
Qed.

(* ---------- defaults ---------- *)
Lemma attrs_filled_dflt a : attrs_filled a (dflt_attrs a).
Proof. unfold attrs_filled, dflt_attrs, id_of; simpl. repeat split. Qed.

Lemma filled_unfold a kids h a' kids' h' :
  filled (Cfg a kids h) (Cfg a' kids' h')
  <-> attrs_filled a a' /\ filled_list kids kids'
      /\ match h, h' with None, None => True | Some x, Some x' => filled x x' | _, _ => False end.
Proof.
  cbn [filled].
  assert (E : forall ks ks',
             (fix go (ks ks' : list cfg) {struct ks} : Prop :=
                match ks, ks' with
                | [], [] => True
                | k :: ks1, k' :: ks1' => filled k k' /\ go ks1 ks1'
                | _, _ => False
                end) ks ks' = filled_list ks ks').
  { induction ks as [|k ks IH]; intros [|k' ks']; simpl; try reflexivity; try (now rewrite IH). }
  rewrite E. tauto.
Qed.

Lemma filled_dflt c : filled c (dflt c).
Proof.
  induction c as [a kids h IHk IHh] using cfg_ind'.
  cbn [dflt]. apply filled_unfold. split; [apply attrs_filled_dflt|]. split.
  - induction IHk as [|k ks Hk _ IH]; simpl; [exact I|split; assumption].
  - destruct h; simpl; [assumption|exact I].
Qed.

Lemma filled_list_dflt ks : filled_list ks (map dflt ks).
Proof. induction ks as [|k ks IH]; simpl; [exact I|]. split; [apply filled_dflt|assumption]. Qed.

Lemma read_defaults rg c c' :
  read rg PreOk c = Accept c' ->
  filled_list (c_nodes c) (c_nodes c')
  /\ c_timeout c' = (if 0 <? c_timeout c then c_timeout c else 10)
  /\ c_src c' = c_src c /\ c_idata c' = c_idata c.
Proof.
  rewrite read_accept. destruct (validate rg c); try discriminate.
  intros H; inversion H; subst c'; clear H. unfold fix_timeout, defaults; simpl.
  repeat split; [apply filled_list_dflt|].
  destruct (c_timeout c <=? 0) eqn:E1, (0 <? c_timeout c) eqn:E2; lia.
Qed.

(* flat reading of the same fact: every node and every error handler of an accepted
   configuration has an id, and workers / buffersize different from 0 *)
Fixpoint everything (c : cfg) : list cfg :=
  match c with
  | Cfg a kids h => c :: match h with Some x => everything x | None => [] end ++ flat_map everything kids
  end.
Definition attrs_set (n : cfg) : Prop :=
  a_id (attrs_of n) <> None /\ a_workers (attrs_of n) <> 0 /\ a_bufsz (attrs_of n) <> 0.

Lemma everything_dflt c : Forall attrs_set (everything (dflt c)).
Proof.
  induction c as [a kids h IHk IHh] using cfg_ind'.
  cbn [dflt everything]. constructor.
  - unfold attrs_set; simpl. repeat split; [discriminate| |].
    + destruct (a_workers a =? 0) eqn:E; lia.
    + destruct (a_bufsz a =? 0) eqn:E; lia.
  - apply Forall_app. split.
    + destruct h; simpl; [assumption|constructor].
    + apply Forall_flat_map. rewrite Forall_forall in *. intros x Hx.
      apply in_map_iff in Hx as [k [Hk Hin]]. subst x. apply IHk; assumption.
Qed.

Lemma read_all_set rg c c' :
  read rg PreOk c = Accept c' -> Forall attrs_set (flat_map everything (c_nodes c')) /\ 0 < c_timeout c'.
Proof.
  rewrite read_accept. destruct (validate rg c); try discriminate.
  intros H; inversion H; subst c'; clear H. unfold fix_timeout, defaults; simpl. split.
  - apply Forall_flat_map. apply Forall_forall. intros x Hx.
    apply in_map_iff in Hx as [k [Hk _]]. subst x. apply everything_dflt.
  - destruct (c_timeout c <=? 0) eqn:E; lia.
Qed.

(* ---------- the decisions of Judge/E6.v reflect the declarative clauses ---------- *)
Lemma and_iff2 (A B C D : Prop) : (A <-> C) -> (B <-> D) -> (A /\ B <-> C /\ D).
Proof. tauto. Qed.

Lemma isSome_iff {A} (o : option A) : isSome o = true <-> o <> None.
Proof. destruct o; simpl; split; congruence. Qed.

Lemma uniqueb_iff c : uniqueb c = true <-> unique c.
Proof. apply nodupb_NoDup. Qed.
Lemma unique'b_iff c : unique'b c = true <-> unique' c.
Proof. apply nodupb_NoDup. Qed.

Lemma is_regb_iff rg n : is_regb rg n = true <-> is_reg rg n.
Proof. apply isSome_iff. Qed.

Lemma registeredb_iff rg c : registeredb rg c = true <-> registered rg c.
Proof.
  unfold registeredb, registered. rewrite andb_true_iff, forallb_forall, Forall_forall.
  apply and_iff2.
  - destruct (c_src c) as [s|].
    + rewrite isSome_iff. split; [intros H; exists s; auto|intros [s' [E H]]; congruence].
    + split; [discriminate|intros [s' [E _]]; discriminate].
  - split; intros H n Hn; specialize (H n Hn).
    + apply andb_true_iff in H as [H1 H2]. split; [apply is_regb_iff; assumption|].
      destruct (handler_of n); [apply is_regb_iff; assumption|exact I].
    + destruct H as [H1 H2]. apply andb_true_iff. split; [apply is_regb_iff; assumption|].
      destruct (handler_of n); [apply is_regb_iff; assumption|reflexivity].
Qed.

Lemma consb_iff rg n t : consb rg n t = true <-> consumes rg n t.
Proof.
  unfold consb, consumes. destruct (lookup (name_of n) (nreg rg)) as [r|].
  - split.
    + intros H r' Hr'. inversion Hr'; subst. apply (opt_eqb_eq Z.eqb Zeqb_eq'); assumption.
    + intros H. rewrite (H r eq_refl). apply (opt_eqb_refl Z.eqb Z.eqb_refl).
  - split; [intros _ r Hr; discriminate|reflexivity].
Qed.

Lemma forallb_consb rg l t : forallb (fun n => consb rg n t) l = true <-> Forall (fun n => consumes rg n t) l.
Proof.
  rewrite forallb_forall, Forall_forall. split; intros H n Hn; apply consb_iff; auto.
Qed.

Lemma typedb_iff rg c : typedb rg c = true <-> typed rg c.
Proof.
  unfold typedb, typed. rewrite andb_true_iff. apply and_iff2.
  - destruct (c_src c) as [s|].
    + destruct (lookup s (sreg rg)) as [p|] eqn:Ep.
      * rewrite forallb_consb. split; [|intros H; apply (H s p); [reflexivity|assumption]].
        intros H s' p' Es Ep'. inversion Es; subst s'. rewrite Ep in Ep'. inversion Ep'; subst p'. assumption.
      * split; [|reflexivity]. intros _ s' p' Es Ep'. inversion Es; subst s'. congruence.
    + split; [intros _ s' p' Es; discriminate|reflexivity].
  - rewrite forallb_forall, Forall_forall. split; intros H n Hn; specialize (H n Hn).
    + intros r Hr. rewrite Hr in H. apply forallb_consb; assumption.
    + destruct (lookup (name_of n) (nreg rg)) as [r|]; [|reflexivity].
      apply forallb_consb. apply H; reflexivity.
Qed.

Lemma handler_okb_iff rg h : handler_okb rg h = true <-> handler_ok rg h.
Proof.
  unfold handler_okb, handler_ok. rewrite !andb_true_iff, !negb_true_iff, consb_iff.
  destruct (handler_of h); simpl; split; intros [[H1 H2] H3] || intros [H1 [H2 H3]];
    repeat split; try assumption; try discriminate; try reflexivity.
Qed.

Lemma handlersb_iff rg c : handlersb rg c = true <-> handlers_ok rg c.
Proof.
  unfold handlersb, handlers_ok. rewrite forallb_forall, Forall_forall.
  split; intros H n Hn; specialize (H n Hn); destruct (handler_of n); try apply handler_okb_iff; auto.
Qed.

Lemma transportb_iff c : transportb c = true <-> transport_ok c.
Proof.
  unfold transportb, transport_ok. destruct (c_idata c) as [t|]; [|tauto]. apply Z.eqb_eq.
Qed.

Lemma othersb_iff rg c : othersb rg c = true <-> others rg c.
Proof.
  unfold othersb, others.
  rewrite !andb_true_iff, registeredb_iff, typedb_iff, handlersb_iff, transportb_iff. tauto.
Qed.

Lemma consistentb_iff rg c : consistentb rg c = true <-> consistent rg c.
Proof. unfold consistentb, consistent. rewrite andb_true_iff, uniqueb_iff, othersb_iff. tauto. Qed.

Lemma consistent'b_iff rg c : consistent'b rg c = true <-> consistent' rg c.
Proof. unfold consistent'b, consistent'. rewrite andb_true_iff, unique'b_iff, othersb_iff. tauto. Qed.

Lemma uniqueb_unique'b c : uniqueb c = true -> unique'b c = true.
Proof. rewrite uniqueb_iff, unique'b_iff. apply unique_unique'. Qed.

(* ---------- the expected configuration of the spec is the model's ---------- *)
Lemma exp_cfg_dflt c : exp_cfg c = dflt c.
Proof.
  induction c as [a kids h IHk IHh] using cfg_ind'.
  (* the two fixpoints are convertible: the spec's closed form is literally the model's *)
  simpl. f_equal; reflexivity.
Qed.

Lemma map_exp_cfg l : map exp_cfg l = map dflt l.
Proof. apply map_ext. apply exp_cfg_dflt. Qed.

Lemma attrs_eqb_refl a : attrs_eqb a a = true.
Proof.
  unfold attrs_eqb. rewrite !Z.eqb_refl, (opt_eqb_refl Z.eqb Z.eqb_refl), eqb_reflx. reflexivity.
Qed.

Lemma cfg_eqb_refl c : cfg_eqb c c = true.
Proof.
  induction c as [a kids h IHk IHh] using cfg_ind'.
  cbn [cfg_eqb]. rewrite attrs_eqb_refl. simpl.
  apply andb_true_iff. split.
  - induction IHk as [|k ks Hk _ IH]; [reflexivity|]. now rewrite Hk, IH.
  - destruct h; [assumption|reflexivity].
Qed.

Lemma cfgs_eqb_refl l : cfgs_eqb l l = true.
Proof. induction l as [|k l IH]; simpl; [reflexivity|]. now rewrite cfg_eqb_refl, IH. Qed.

(* ---------- soundness of the decision procedure for the model ---------- *)
Lemma model_obs_acc i :
  i_pre i = PreOk -> consistent'b (i_regs i) (i_cfg i) = true ->
  model_obs i = {| o_out := 0; o_cfg := Some (fix_timeout (defaults (i_cfg i))) |}.
Proof.
  intros Hpre Hc. unfold model_obs. rewrite Hpre, read_accept.
  apply consistent'b_iff, validate_consistent' in Hc. rewrite Hc. reflexivity.
Qed.

Lemma model_obs_rej i :
  i_pre i = PreOk -> consistent'b (i_regs i) (i_cfg i) = false -> (o_out (model_obs i) =? 0) = false.
Proof.
  intros Hpre Hc. unfold model_obs. rewrite Hpre, read_accept.
  destruct (validate (i_regs i) (i_cfg i)) eqn:E; try reflexivity.
  apply validate_consistent', consistent'b_iff in E. congruence.
Qed.

Lemma spec_c13_sound i :
  spec_c13 i (model_obs i) = if f1_shape i then [(1, [1])] else [].
Proof.
  unfold spec_c13, f1_shape. destruct (in_domain i) eqn:Hd; [|reflexivity].
  assert (Hpre : i_pre i = PreOk) by (unfold in_domain in Hd; destruct (i_pre i); congruence).
  pose proof (model_obs_acc i Hpre) as Hm. pose proof (model_obs_rej i Hpre) as Hn.
  unfold consistent'b, consistentb in *.
  pose proof (uniqueb_unique'b (i_cfg i)) as Huu.
  destruct (unique'b (i_cfg i)) eqn:Eu'; destruct (othersb (i_regs i) (i_cfg i)) eqn:Eo;
    cbn [andb] in Hm, Hn.
  - (* accepted *)
    rewrite (Hm eq_refl). cbn [o_out o_cfg]. rewrite Z.eqb_refl. cbn [andb negb].
    unfold othersb in Eo. apply andb_true_iff in Eo as [Eo Ek]. apply andb_true_iff in Eo as [Eo Eh].
    apply andb_true_iff in Eo as [Er Et]. rewrite Er, Et, Eh, Ek. cbn [negb app andb].
    unfold fix_timeout, defaults; cbn [c_timeout c_nodes c_src c_idata].
    replace (map exp_cfg (c_nodes (i_cfg i))) with (map dflt (c_nodes (i_cfg i)))
      by (symmetry; apply map_exp_cfg).
    rewrite cfgs_eqb_refl.
    rewrite (opt_eqb_refl Z.eqb Z.eqb_refl (c_src (i_cfg i))), (opt_eqb_refl Z.eqb Z.eqb_refl (c_idata (i_cfg i))).
    cbn [andb app].
    assert (Et' : ((if c_timeout (i_cfg i) <=? 0 then 10 else c_timeout (i_cfg i)) =? exp_timeout (c_timeout (i_cfg i))) = true).
    { unfold exp_timeout. destruct (c_timeout (i_cfg i) <=? 0) eqn:E1, (0 <? c_timeout (i_cfg i)) eqn:E2; lia. }
    rewrite Et'. destruct (uniqueb (i_cfg i)); reflexivity.
  - rewrite (Hn eq_refl). cbn [andb negb app].
    rewrite !andb_false_r. reflexivity.
  - rewrite (Hn eq_refl). cbn [andb negb app].
    destruct (uniqueb (i_cfg i)) eqn:Eu; [specialize (Huu eq_refl); discriminate|]. reflexivity.
  - rewrite (Hn eq_refl). cbn [andb negb app].
    rewrite !andb_false_r. reflexivity.
Qed.

(* ---------- witnesses ---------- *)
(* registry: source 0 produces type 2; node type 0 consumes and produces type 2 *)
Definition w_regs : regs :=
  {| nreg := [(0, {| r_cons := Some 2; r_prod := Some 2 |}); (6, {| r_cons := Some ty_error; r_prod := None |})];
     sreg := [(0, Some 2)] |}.
Definition w_leaf (id : option Z) : cfg :=
  Cfg {| a_name := 0; a_id := id; a_workers := 0; a_bufsz := 0; a_kidskey := false |} [] None.
(* root "a" (id 50) with two children carrying the same id 51 *)
Definition w_dup : config :=
  {| c_src := Some 0; c_idata := None; c_timeout := 0;
     c_nodes := [Cfg {| a_name := 0; a_id := Some 50; a_workers := 0; a_bufsz := 0; a_kidskey := true |}
                     [w_leaf (Some 51); w_leaf (Some 51)] None] |}.

Lemma w_dup_accepted : accepted w_regs w_dup.
Proof. eexists. vm_compute. reflexivity. Qed.

Lemma w_dup_inconsistent : ~ consistent w_regs w_dup.
Proof.
  intros [Hu _]. apply uniqueb_iff in Hu. vm_compute in Hu. discriminate.
Qed.

Lemma accept_iff_refuted : exists rg c, accepted rg c /\ ~ consistent rg c.
Proof. exists w_regs, w_dup. split; [apply w_dup_accepted|apply w_dup_inconsistent]. Qed.

Lemma full_statement_false : ~ (forall rg c, accepted rg c <-> consistent rg c).
Proof.
  intros H. destruct accept_iff_refuted as [rg [c [Ha Hn]]]. apply Hn, H, Ha.
Qed.

Lemma decisions_reflect rg c :
  (consistentb rg c = true <-> consistent rg c) /\ (consistent'b rg c = true <-> consistent' rg c).
Proof. split; [exact (consistentb_iff rg c)|exact (consistent'b_iff rg c)]. Qed.

(* example terms used by Props/C13.v *)
Definition ex_regs : regs :=
  {| nreg := [(0, {| r_cons := Some 2; r_prod := Some 3 |}); (1, {| r_cons := Some 3; r_prod := None |});
              (6, {| r_cons := Some ty_error; r_prod := None |})];
     sreg := [(0, Some 2)] |}.
Definition ex_node (name : Z) (id : option Z) (w : Z) (kids : list cfg) (h : option cfg) : cfg :=
  Cfg {| a_name := name; a_id := id; a_workers := w; a_bufsz := 0; a_kidskey := negb (nilb kids) |} kids h.
(* source 0 -> node 0 (handler 6) -> two nodes of type 1, one with an explicit id *)
Definition ex_cfg : config :=
  {| c_src := Some 0; c_idata := Some tr_kafka; c_timeout := 0;
     c_nodes := [ex_node 0 None 4 [ex_node 1 None 0 [] None; ex_node 1 (Some 77) 0 [] None]
                         (Some (ex_node 6 None 0 [] None))] |}.

(* the same tree with both children defaulted (ids = type name 1, second sibling): accepted, not consistent *)
Definition ex_dup : config :=
  {| c_src := Some 0; c_idata := None; c_timeout := 5;
     c_nodes := [ex_node 0 None 4 [ex_node 1 None 0 [] None; ex_node 1 None 0 [] None] None] |}.
