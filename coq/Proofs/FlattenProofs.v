(* E1 — the configuration-tree flattening [Settle.flatten] (mirror of firebolt's
   node.InitNodeContextHierarchy / executor.WithConfig) produces a well-formed network that
   contains exactly the enabled nodes, in setup order, wired as configured.
   Headline theorems: [flatten_ids], [flatten_length], [flatten_wf], [flatten_roots],
   [flatten_children] (+ [flatten_rep], [flatten_rows_complete]). *)
From Coq Require Import List ZArith Bool Arith Lia.
From FB Require Import Lib.Sexp Model.Exec Model.TraceSpec Model.ExecInv Model.Settle.
From FB Require Import Proofs.FlattenBase.
Import ListNotations.
Local Open Scope nat_scope.

(* ================================================================== 1. ids and length *)
(* the enabled nodes in setup order: node, its handler, its enabled children's subtrees *)
Fixpoint live_ids (c : cfg) : list Z :=
  match c with
  | Cfg id _ _ _ d _ kids h =>
      if d then []
      else id :: (match h with Some x => [h_id x] | None => [] end)
              ++ (fix go (l : list cfg) : list Z :=
                    match l with [] => [] | x :: r => live_ids x ++ go r end) kids
  end.
Definition live_ids_all (roots : list cfg) : list Z := flat_map live_ids roots.

Lemma live_ids_eq : forall id k w b d dc kids h,
  live_ids (Cfg id k w b d dc kids h) =
  if d then [] else id :: map nid (hrows h) ++ flat_map live_ids kids.
Proof. intros. destruct d; [reflexivity|]. destruct h; reflexivity. Qed.

Lemma flat_list_len_F : forall l,
  Forall (fun c => forall r b, length (flat r b c) = size c) l ->
  forall r b, length (flat_list r b l) = sum_sizes l.
Proof.
  induction 1 as [|c l Hc Hl IH]; intros r b; simpl; [reflexivity|].
  now rewrite app_length, Hc, IH.
Qed.

Lemma flat_len : forall c r b, length (flat r b c) = size c.
Proof.
  induction c as [id k w b0 d dc kids h IH] using cfg_ind'. intros r b.
  rewrite flat_eq, size_eq. destruct d; [reflexivity|].
  simpl. rewrite app_length, (flat_list_len_F _ IH). destruct h; simpl; lia.
Qed.

Lemma flat_list_len : forall l r b, length (flat_list r b l) = sum_sizes l.
Proof. intros l. apply flat_list_len_F. apply Forall_all. apply flat_len. Qed.

Lemma flat_list_ids_F : forall l,
  Forall (fun c => forall r b, map nid (flat r b c) = live_ids c) l ->
  forall r b, map nid (flat_list r b l) = flat_map live_ids l.
Proof.
  induction 1 as [|c l Hc Hl IH]; intros r b; simpl; [reflexivity|].
  now rewrite map_app, Hc, IH.
Qed.

Lemma flat_ids : forall c r b, map nid (flat r b c) = live_ids c.
Proof.
  induction c as [id k w b0 d dc kids h IH] using cfg_ind'. intros r b.
  rewrite flat_eq, live_ids_eq. destruct d; [reflexivity|].
  simpl. now rewrite map_app, (flat_list_ids_F _ IH).
Qed.

Lemma flat_list_ids : forall l r b, map nid (flat_list r b l) = flat_map live_ids l.
Proof. intros l. apply flat_list_ids_F. apply Forall_all. apply flat_ids. Qed.

(* a disabled node, anything below it, and its handler never appear; every other node appears
   exactly once, in setup order *)
Theorem flatten_ids : forall roots, map nid (flatten roots) = live_ids_all roots.
Proof. intros. unfold flatten, live_ids_all. rewrite flatten_from_eq. apply flat_list_ids. Qed.

Theorem flatten_length : forall roots, length (flatten roots) = list_sum (map size roots).
Proof.
  intros. unfold flatten. rewrite flatten_from_eq, flat_list_len. apply sum_sizes_list_sum.
Qed.

(* ================================================================== 2. roots *)
Lemma roots_hrows : forall h i, roots_from i (hrows h) = [].
Proof. intros [x|] i; reflexivity. Qed.

Lemma roots_list_child_F : forall l,
  Forall (fun c => forall b i, roots_from i (flat RChild b c) = []) l ->
  forall b i, roots_from i (flat_list RChild b l) = [].
Proof.
  induction 1 as [|c l Hc Hl IH]; intros b i; simpl; [reflexivity|].
  now rewrite roots_from_app, Hc, IH.
Qed.

Lemma roots_child : forall c b i, roots_from i (flat RChild b c) = [].
Proof.
  induction c as [id k w b0 d dc kids h IH] using cfg_ind'. intros b i.
  rewrite flat_eq. destruct d; [reflexivity|].
  simpl. now rewrite roots_from_app, roots_hrows, (roots_list_child_F _ IH).
Qed.

Lemma roots_list_child : forall l b i, roots_from i (flat_list RChild b l) = [].
Proof. intros l. apply roots_list_child_F. apply Forall_all. apply roots_child. Qed.

(* only the first row of an enabled root tree has role RRoot *)
Lemma roots_root : forall c b i, roots_from i (flat RRoot b c) = if dis c then [] else [i].
Proof.
  intros [id k w b0 d dc kids h] b i. rewrite flat_eq. simpl. destruct d; [reflexivity|].
  simpl. now rewrite roots_from_app, roots_hrows, roots_list_child.
Qed.

Lemma roots_list_root : forall l b, roots_from b (flat_list RRoot b l) = kid_indices b l.
Proof.
  induction l as [|c l IH]; intros b; simpl flat_list; [reflexivity|].
  rewrite roots_from_app, roots_root, flat_len, IH, kid_indices_cons.
  destruct (dis c) eqn:D; [|reflexivity].
  rewrite (size_dis _ D), Nat.add_0_r. reflexivity.
Qed.

(* the roots of the flattened network are the first rows of the enabled root trees *)
Theorem roots_flatten : forall rs, roots (flatten rs) = kid_indices 0 rs.
Proof. intros. unfold roots, flatten. rewrite flatten_from_eq. apply roots_list_root. Qed.

(* ================================================================== 3. targets *)
Definition tgs (nt : net) : list nat := flat_map targets nt.

Lemma tgs_app : forall a b, tgs (a ++ b) = tgs a ++ tgs b.
Proof. intros. apply flat_map_app. Qed.
Lemma tgs_hrows : forall h, tgs (hrows h) = [].
Proof. intros [x|]; reflexivity. Qed.

(* a tree occupying rows [b, b + size c): all its delivery targets are rows strictly inside, no
   row is targeted twice *)
Definition tinv (c : cfg) : Prop :=
  forall r b, NoDup (tgs (flat r b c)) /\ (forall t, In t (tgs (flat r b c)) -> b < t < b + size c).
(* a forest occupying rows [b, b + sum_sizes l): first rows of its trees together with all delivery
   targets are pairwise distinct rows of the forest *)
Definition linv (l : list cfg) : Prop :=
  forall r b, NoDup (kid_indices b l ++ tgs (flat_list r b l))
              /\ (forall t, In t (kid_indices b l) -> b <= t < b + sum_sizes l)
              /\ (forall t, In t (tgs (flat_list r b l)) -> b <= t < b + sum_sizes l).

Lemma linv_of_tinv : forall l, Forall tinv l -> linv l.
Proof.
  induction 1 as [|c l Hc Hl IH]; intros r b.
  - simpl. split; [constructor|]. split; intros t [].
  - simpl flat_list. simpl sum_sizes. rewrite kid_indices_cons, tgs_app.
    destruct (Hc r b) as [Nc Rc]. destruct (IH r (b + size c)) as [Nl [Rk Rl]].
    destruct (dis c) eqn:D.
    + rewrite (flat_dis _ _ _ D) in *. rewrite (size_dis _ D) in *. simpl.
      rewrite Nat.add_0_r in *. split; [assumption|]. split; intros t Ht.
      * apply Rk in Ht. lia.
      * apply Rl in Ht. lia.
    + pose proof (size_en _ D) as Sz.
      apply NoDup_app_iff in Nl. destruct Nl as [Nk [Nt Dj]].
      split; [|split].
      * simpl. constructor.
        -- rewrite !in_app_iff. intros [Hi|[Hi|Hi]].
           ++ apply Rk in Hi. lia.
           ++ apply Rc in Hi. lia.
           ++ apply Rl in Hi. lia.
        -- apply NoDup_app_iff. split; [assumption|]. split.
           ++ apply NoDup_app_iff. split; [assumption|]. split; [assumption|].
              intros x Hx Hy. apply Rc in Hx. apply Rl in Hy. lia.
           ++ intros x Hx Hy. apply in_app_iff in Hy. destruct Hy as [Hy|Hy].
              ** apply Rk in Hx. apply Rc in Hy. lia.
              ** eapply Dj; eauto.
      * intros t [Ht|Ht]; [lia| apply Rk in Ht; lia].
      * intros t Ht. apply in_app_iff in Ht. destruct Ht as [Ht|Ht].
        -- apply Rc in Ht. lia.
        -- apply Rl in Ht. lia.
Qed.

Lemma tinv_all : forall c, tinv c.
Proof.
  induction c as [id k w b0 d dc kids h IH] using cfg_ind'. intros r b.
  apply linv_of_tinv in IH. rewrite flat_eq, size_eq.
  destruct d; [split; [constructor| intros t []]|].
  destruct (IH RChild (b + 1 + hn h)) as [N [Rk Rl]].
  unfold tgs at 1 2. simpl flat_map. fold (tgs (hrows h ++ flat_list RChild (b + 1 + hn h) kids)).
  rewrite tgs_app, tgs_hrows. simpl app. unfold targets at 1 2. cbn [nkids nhandler].
  destruct h as [x|]; cbn [hidx hn] in *.
  - apply NoDup_app_iff in N. destruct N as [Nk [Nt Dj]]. split.
    + apply NoDup_app_iff. split; [|split; [assumption|]].
      * apply NoDup_app_iff. split; [assumption|]. split; [repeat constructor; intros []|].
        intros y Hy [Hz|[]]. apply Rk in Hy. lia.
      * intros y Hy Hz. apply in_app_iff in Hy. destruct Hy as [Hy|[Hy|[]]].
        -- eapply Dj; eauto.
        -- apply Rl in Hz. lia.
    + intros t Ht. rewrite !in_app_iff in Ht. destruct Ht as [[Ht|[Ht|[]]]|Ht].
      * apply Rk in Ht. lia.
      * lia.
      * apply Rl in Ht. lia.
  - rewrite app_nil_r. split; [assumption|].
    intros t Ht. apply in_app_iff in Ht. destruct Ht as [Ht|Ht].
    + apply Rk in Ht. lia.
    + apply Rl in Ht. lia.
Qed.

Lemma linv_all : forall l, linv l.
Proof. intros. apply linv_of_tinv. apply Forall_all. apply tinv_all. Qed.

Theorem flatten_wf : forall roots, wf_net (flatten roots) = true.
Proof.
  intros rs. unfold wf_net. rewrite roots_flatten.
  destruct (linv_all rs RRoot 0) as [N [_ Rt]].
  unfold flatten. rewrite flatten_from_eq. apply andb_true_iff. split.
  - rewrite forallb_flat_map. apply forallb_forall. intros t Ht.
    apply Rt in Ht. rewrite flat_list_len. apply Nat.ltb_lt. lia.
  - apply nodup_nat_NoDup. exact N.
Qed.

(* ================================================================== 4. roots' ids *)
(* ids of the enabled configs of a list, in order *)
Definition enabled_ids (l : list cfg) : list Z :=
  flat_map (fun c => match c with Cfg id _ _ _ d _ _ _ => if d then [] else [id] end) l.

Lemma enabled_ids_cons : forall c l,
  enabled_ids (c :: l) = (if dis c then [] else [cid c]) ++ enabled_ids l.
Proof. intros [id k w b d dc kids h] l. reflexivity. Qed.

Lemma flat_first : forall r b c rest, dis c = false -> nid (info (flat r b c ++ rest) 0) = cid c.
Proof.
  intros r b [id k w b0 d dc kids h] rest D. simpl in D. subst. rewrite flat_eq. reflexivity.
Qed.

(* the first rows of the enabled trees of a forest placed at [base] carry those trees' ids *)
Lemma kid_ids : forall l r base pre post, length pre = base ->
  map (fun j => nid (info (pre ++ flat_list r base l ++ post) j)) (kid_indices base l) = enabled_ids l.
Proof.
  induction l as [|c l IH]; intros r base pre post Hp; [reflexivity|].
  simpl flat_list. rewrite kid_indices_cons, enabled_ids_cons. destruct (dis c) eqn:D.
  - rewrite (flat_dis _ _ _ D), (size_dis _ D), Nat.add_0_r. simpl. now apply IH.
  - simpl. f_equal.
    + rewrite (info_app_r0 _ _ _ Hp), <- app_assoc. now apply flat_first.
    + rewrite <- app_assoc, app_assoc. apply IH. now rewrite app_length, flat_len, Hp.
Qed.

Theorem flatten_roots : forall roots,
  map (fun r => nid (info (flatten roots) r)) (Exec.roots (flatten roots)) = enabled_ids roots.
Proof.
  intros rs. rewrite roots_flatten. unfold flatten. rewrite flatten_from_eq.
  pose proof (kid_ids rs RRoot 0 [] [] eq_refl) as H. simpl in H. now rewrite app_nil_r in H.
Qed.

(* ================================================================== 5. rows and wiring *)
(* [rep nt r base c]: in table [nt] the rows starting at [base] represent the tree [c] with role
   [r]: if [c] is enabled, row [base] carries c's id/kind/workers/buf/disc and role r, its nkids are
   the first rows of c's enabled children (whose ids are the children's ids, in order), its
   nhandler is row base+1 iff c has a handler, and that row carries the handler's configuration;
   and recursively each child tree is represented (role RChild) at its own base. *)
Fixpoint rep (nt : net) (r : role) (base : nat) (c : cfg) {struct c} : Prop :=
  match c with
  | Cfg id k w b d dc kids h =>
      if d then True
      else
        let x := info nt base in
        let kb := base + 1 + hn h in
        (nid x = id /\ nkind x = k /\ nworkers x = w /\ ncap x = b /\ ndisc x = dc /\ nrole x = r)
        /\ nkids x = kid_indices kb kids
        /\ map (fun j => nid (info nt j)) (nkids x) = enabled_ids kids
        /\ match h with
           | Some hc => nhandler x = Some (base + 1) /\ info nt (base + 1) = hrow hc
           | None => nhandler x = None
           end
        /\ (fix go (b0 : nat) (l : list cfg) : Prop :=
              match l with [] => True | y :: rest => rep nt RChild b0 y /\ go (b0 + size y) rest end) kb kids
  end.

Fixpoint rep_list (nt : net) (r : role) (b : nat) (l : list cfg) : Prop :=
  match l with [] => True | y :: rest => rep nt r b y /\ rep_list nt r (b + size y) rest end.

Lemma rep_eq : forall nt r base id k w b d dc kids h,
  rep nt r base (Cfg id k w b d dc kids h) =
  if d then True
  else
    let x := info nt base in
    (nid x = id /\ nkind x = k /\ nworkers x = w /\ ncap x = b /\ ndisc x = dc /\ nrole x = r)
    /\ nkids x = kid_indices (base + 1 + hn h) kids
    /\ map (fun j => nid (info nt j)) (nkids x) = enabled_ids kids
    /\ match h with
       | Some hc => nhandler x = Some (base + 1) /\ info nt (base + 1) = hrow hc
       | None => nhandler x = None
       end
    /\ rep_list nt RChild (base + 1 + hn h) kids.
Proof.
  intros. destruct d; [reflexivity|]. simpl. do 4 f_equal.
  generalize (base + 1 + hn h). induction kids as [|a kids IH]; intros n; simpl; [reflexivity|].
  now rewrite IH.
Qed.

Lemma rep_dis : forall nt r b c, dis c = true -> rep nt r b c.
Proof. intros nt r b [id k w b0 d dc kids h] D. simpl in D. subst. rewrite rep_eq. exact I. Qed.

Definition rep_ok (c : cfg) : Prop :=
  forall r base pre post, length pre = base -> rep (pre ++ flat r base c ++ post) r base c.

Lemma rep_list_F : forall l, Forall rep_ok l ->
  forall r base pre post, length pre = base -> rep_list (pre ++ flat_list r base l ++ post) r base l.
Proof.
  induction 1 as [|c l Hc Hl IH]; intros r base pre post Hp; simpl; [exact I|]. split.
  - rewrite <- app_assoc. now apply Hc.
  - rewrite <- app_assoc, app_assoc. apply IH. now rewrite app_length, flat_len, Hp.
Qed.

Lemma rep_flat : forall c, rep_ok c.
Proof.
  induction c as [id k w b0 d dc kids h IH] using cfg_ind'. intros r base pre post Hp.
  rewrite rep_eq. destruct d; [exact I|]. rewrite flat_eq.
  set (row := {| nid := id; nkind := k; nworkers := w; ncap := b0; ndisc := dc;
                 nkids := kid_indices (base + 1 + hn h) kids; nhandler := hidx base h; nrole := r |}).
  set (FL := flat_list RChild (base + 1 + hn h) kids).
  set (nt := pre ++ (row :: hrows h ++ FL) ++ post).
  assert (E : info nt base = row).
  { unfold nt. rewrite (info_app_r0 _ _ _ Hp). reflexivity. }
  assert (E2 : nt = (pre ++ row :: hrows h) ++ FL ++ post).
  { unfold nt. simpl. rewrite <- (app_assoc pre). simpl. now rewrite <- (app_assoc (hrows h)). }
  assert (L2 : length (pre ++ row :: hrows h) = base + 1 + hn h).
  { rewrite app_length, Hp. destruct h; simpl; lia. }
  cbv zeta. rewrite E. cbn [row nid nkind nworkers ncap ndisc nrole nkids nhandler].
  split; [repeat split|]. split; [reflexivity|]. split; [|split].
  - rewrite E2. unfold FL. now apply kid_ids.
  - destruct h as [hc|]; cbn [hidx]; [|reflexivity]. split; [reflexivity|].
    unfold nt. rewrite (info_app_r _ _ _ 1 Hp). reflexivity.
  - rewrite E2. unfold FL. now apply rep_list_F.
Qed.

Lemma rep_list_flat : forall l r base pre post, length pre = base ->
  rep_list (pre ++ flat_list r base l ++ post) r base l.
Proof. intros l. apply rep_list_F. apply Forall_all. apply rep_flat. Qed.

(* the whole flattened table represents the forest of root configs *)
Theorem flatten_rep : forall roots, rep_list (flatten roots) RRoot 0 roots.
Proof.
  intros rs. unfold flatten. rewrite flatten_from_eq.
  pose proof (rep_list_flat rs RRoot 0 [] [] eq_refl) as H. simpl in H. now rewrite app_nil_r in H.
Qed.

Lemma rep_list_elem : forall nt r pre b c post,
  rep_list nt r b (pre ++ c :: post) -> rep nt r (b + sum_sizes pre) c.
Proof.
  induction pre as [|a pre IH]; intros b c post H; simpl in *.
  - rewrite Nat.add_0_r. tauto.
  - destruct H as [_ H]. apply IH in H. now rewrite Nat.add_assoc.
Qed.

(* [placed roots i r c]: the enabled config [c] occurs in the forest [roots] along a path of enabled
   nodes, and [i] is the row that the setup-order numbering assigns to it ([r]: root or child) *)
Inductive placed (roots : list cfg) : nat -> role -> cfg -> Prop :=
| placed_root : forall pre c post,
    roots = pre ++ c :: post -> dis c = false -> placed roots (sum_sizes pre) RRoot c
| placed_kid : forall i r id k w b dc kids h pre c post,
    placed roots i r (Cfg id k w b false dc kids h) ->
    kids = pre ++ c :: post -> dis c = false ->
    placed roots (i + 1 + hn h + sum_sizes pre) RChild c.

Lemma placed_en : forall roots i r c, placed roots i r c -> dis c = false.
Proof. induction 1; assumption. Qed.

Lemma placed_rep : forall roots i r c, placed roots i r c -> rep (flatten roots) r i c.
Proof.
  induction 1 as [pre c post E D | i r id k w b dc kids h pre c post Hp IH E D].
  - pose proof (flatten_rep roots) as H. rewrite E in H at 2. apply rep_list_elem in H. exact H.
  - rewrite rep_eq in IH. cbv zeta in IH. destruct IH as [_ [_ [_ [_ IH]]]].
    rewrite E in IH. apply rep_list_elem in IH. exact IH.
Qed.

(* which rows [kid_indices] lists: one per enabled element, offset by the sizes before it *)
Lemma kid_indices_spec : forall l b j,
  In j (kid_indices b l) <->
  exists pre c post, l = pre ++ c :: post /\ dis c = false /\ j = b + sum_sizes pre.
Proof.
  induction l as [|a l IH]; intros b j.
  - simpl. split; [intros []|]. intros [pre [c [post [E _]]]]. destruct pre; discriminate.
  - rewrite kid_indices_cons. destruct (dis a) eqn:D.
    + rewrite IH. split.
      * intros [pre [c [post [E [Dc Ej]]]]]. exists (a :: pre), c, post. subst. simpl.
        rewrite (size_dis _ D). auto.
      * intros [pre [c [post [E [Dc Ej]]]]]. destruct pre as [|a' pre]; simpl in E; inversion E; subst.
        -- congruence.
        -- exists pre, c, post. simpl. rewrite (size_dis _ D). auto.
    + simpl. rewrite IH. split.
      * intros [Hj | [pre [c [post [E [Dc Ej]]]]]].
        -- exists [], a, l. simpl. repeat split; [assumption| lia].
        -- exists (a :: pre), c, post. subst. simpl. repeat split; [assumption| lia].
      * intros [pre [c [post [E [Dc Ej]]]]]. destruct pre as [|a' pre]; simpl in E; inversion E; subst.
        -- left. simpl. lia.
        -- right. exists pre, c, post. simpl. repeat split; [assumption| lia].
Qed.

(* for an enabled node placed at row i: the row carries the configured id/kind/workers/buf/disc;
   its nkids are exactly the rows of its enabled children (one row per enabled child, in order,
   each such child is placed there, and the listed rows carry the enabled children's ids, in
   order); its nhandler is row i+1 iff a handler is configured, and that row is the handler's row
   (id, kind, workers, buf, disc as configured, no children, no handler, role RHandler) *)
Theorem flatten_children : forall roots i r id k w b dc kids h,
  placed roots i r (Cfg id k w b false dc kids h) ->
  let nt := flatten roots in
  let x := info nt i in
  (nid x = id /\ nkind x = k /\ nworkers x = w /\ ncap x = b /\ ndisc x = dc /\ nrole x = r)
  /\ nkids x = kid_indices (i + 1 + hn h) kids
  /\ (forall j, In j (nkids x) <->
                exists pre c post, kids = pre ++ c :: post /\ dis c = false
                                   /\ j = i + 1 + hn h + sum_sizes pre /\ placed roots j RChild c)
  /\ map (fun j => nid (info nt j)) (nkids x) = enabled_ids kids
  /\ match h with
     | Some hc => nhandler x = Some (i + 1) /\ info nt (i + 1) = hrow hc
     | None => nhandler x = None
     end.
Proof.
  intros roots i r id k w b dc kids h Hp nt x.
  pose proof (placed_rep _ _ _ _ Hp) as H. rewrite rep_eq in H. cbv zeta in H.
  fold nt in H. fold x in H. destruct H as [H1 [H2 [H3 [H4 _]]]].
  split; [exact H1|]. split; [exact H2|]. split; [|split; assumption].
  intros j. rewrite H2, kid_indices_spec. split.
  - intros [pre [c [post [E [D Ej]]]]]. exists pre, c, post. repeat split; try assumption.
    subst j. eapply placed_kid; eauto.
  - intros [pre [c [post [E [D [Ej _]]]]]]. exists pre, c, post. auto.
Qed.

(* every row of the table is the row of a placed (hence enabled) node or the handler row of one *)
Definition covered (roots : list cfg) (i : nat) : Prop :=
  (exists r c, placed roots i r c)
  \/ (exists j r id k w b dc kids hc,
        placed roots j r (Cfg id k w b false dc kids (Some hc)) /\ i = j + 1).

Lemma sum_sizes_split : forall l j, j < sum_sizes l ->
  exists pre c post, l = pre ++ c :: post /\ sum_sizes pre <= j < sum_sizes pre + size c.
Proof.
  induction l as [|a l IH]; intros j Hj; simpl in Hj; [lia|].
  destruct (Nat.lt_ge_cases j (size a)) as [Hlt|Hge].
  - exists [], a, l. simpl. split; [reflexivity| lia].
  - destruct (IH (j - size a)) as [pre [c [post [E R]]]]; [lia|].
    exists (a :: pre), c, post. subst. simpl. split; [reflexivity| lia].
Qed.

Lemma size_pos_en : forall c, 0 < size c -> dis c = false.
Proof. intros c H. destruct (dis c) eqn:D; [|reflexivity]. rewrite (size_dis _ D) in H. lia. Qed.

Lemma covered_tree : forall roots c r base, placed roots base r c ->
  forall j, j < size c -> covered roots (base + j).
Proof.
  intros roots. induction c as [id k w b0 d dc kids h IH] using cfg_ind'. intros r base Hp j Hj.
  pose proof (placed_en _ _ _ _ Hp) as D. simpl in D. subst d. rewrite size_eq in Hj.
  destruct j as [|j].
  - left. rewrite Nat.add_0_r. eauto.
  - destruct (Nat.lt_ge_cases j (hn h)) as [Hlt|Hge].
    + destruct h as [hc|]; simpl in Hlt; [|lia]. assert (j = 0) by lia. subst j.
      right. exists base, r, id, k, w, b0, dc, kids, hc. split; [assumption| lia].
    + destruct (sum_sizes_split kids (j - hn h)) as [pre [c [post [E R]]]]; [lia|].
      assert (Dc : dis c = false) by (apply size_pos_en; lia).
      assert (Hc : In c kids) by (rewrite E; apply in_or_app; right; left; reflexivity).
      rewrite Forall_forall in IH.
      pose proof (IH c Hc RChild _ (placed_kid _ _ _ _ _ _ _ _ _ _ _ _ _ Hp E Dc)
                     (j - hn h - sum_sizes pre)) as Hcov.
      replace (base + S j) with (base + 1 + hn h + sum_sizes pre + (j - hn h - sum_sizes pre)) by lia.
      apply Hcov. lia.
Qed.

Theorem flatten_rows_complete : forall roots i, i < length (flatten roots) -> covered roots i.
Proof.
  intros rs i Hi. unfold flatten in Hi. rewrite flatten_from_eq, flat_list_len in Hi.
  destruct (sum_sizes_split rs i Hi) as [pre [c [post [E R]]]].
  assert (Dc : dis c = false) by (apply size_pos_en; lia).
  replace i with (sum_sizes pre + (i - sum_sizes pre)) by lia.
  eapply covered_tree; [eapply placed_root; eauto| lia].
Qed.

(* placed rows are rows of the table *)
Lemma placed_lt : forall roots i r c, placed roots i r c -> i + size c <= length (flatten roots).
Proof.
  intros rs i r c Hp. unfold flatten. rewrite flatten_from_eq, flat_list_len.
  induction Hp as [pre c post E D | i r id k w b dc kids h pre c post Hp IH E D].
  - subst. rewrite sum_sizes_app. simpl. lia.
  - rewrite size_eq in IH. subst kids. rewrite sum_sizes_app in IH. simpl in IH. lia.
Qed.

(* ------------------------------------------------------------------ sanity: a concrete forest *)
Module FlattenExample.
  Definition hc (i : Z) : hcfg := {| h_id := i; h_kind := KSync; h_workers := 1; h_buf := 2; h_disc := true |}.
  (* 1 (handler 5) with children: 2 (DISABLED, handler 9, child 3), 4;   6 (DISABLED root);   7 with child 8 *)
  Definition ex : list cfg :=
    [ Cfg 1 KFanout 2 3 false false
        [ Cfg 2 KSync 1 1 true false [Cfg 3 KSync 1 1 false false [] None] (Some (hc 9));
          Cfg 4 KAsync 1 1 false true [] None ] (Some (hc 5));
      Cfg 6 KSync 1 1 true false [] None;
      Cfg 7 KSync 1 1 false false [Cfg 8 KSync 1 1 false false [] None] None ]%Z.
  Example ex_ids : map nid (flatten ex) = [1; 5; 4; 7; 8]%Z.
  Proof. vm_compute. reflexivity. Qed.
  Example ex_wiring :
    map (fun x => (nkids x, nhandler x, nrole x)) (flatten ex)
    = [([2], Some 1, RRoot); ([], None, RHandler); ([], None, RChild); ([4], None, RRoot); ([], None, RChild)].
  Proof. vm_compute. reflexivity. Qed.
  Example ex_roots : roots (flatten ex) = [0; 3].
  Proof. vm_compute. reflexivity. Qed.
  (* node 4 is placed at row 2 (after its parent and the parent's handler; the disabled sibling takes no row) *)
  Example ex_placed : placed ex 2 RChild (Cfg 4 KAsync 1 1 false true [] None)%Z.
  Proof.
    set (d := Cfg 2 KSync 1 1 true false [Cfg 3 KSync 1 1 false false [] None] (Some (hc 9))%Z).
    change 2 with (0 + 1 + hn (Some (hc 5)) + sum_sizes [d]).
    eapply (placed_kid ex 0 RRoot _ _ _ _ _ _ (Some (hc 5)) [d] _ []).
    - apply (placed_root ex [] _ (tl ex)); reflexivity.
    - reflexivity.
    - reflexivity.
  Qed.
End FlattenExample.

Print Assumptions flatten_ids.
Print Assumptions flatten_length.
Print Assumptions flatten_wf.
Print Assumptions flatten_roots.
Print Assumptions flatten_rep.
Print Assumptions flatten_children.
Print Assumptions flatten_rows_complete.
Print Assumptions placed_lt.
