(* E1 — the configuration-tree flattening [Settle.flatten] (mirror of firebolt's
   node.InitNodeContextHierarchy / executor.WithConfig) produces a well-formed network that
   contains exactly the enabled nodes, in setup order, wired as configured.
   Headline theorems: [flatten_ids], [flatten_length], [flatten_wf], [flatten_roots],
   [flatten_children] (+ [flatten_rep], [flatten_rows_complete]). *)
From Coq Require Import List ZArith Bool Arith Lia.
From FB Require Import Lib.Sexp Model.Exec Model.TraceSpec Model.ExecInv Model.Settle.
From FB Require Import Proofs.FlattenBase.
Import ListNotations.
Local Open Scope nat_scope.

(* ================================================================== 1. ids and length *)
(* the enabled nodes in setup order: node, its handler, its enabled children's subtrees *)
Fixpoint live_ids (c : cfg) : list Z :=
  match c with
  | Cfg id _ _ _ d _ kids h =>
      if d then []
      else id :: (match h with Some x => [h_id x] | None => [] end)
              ++ (fix go (l : list cfg) : list Z :=
                    match l with [] => [] | x :: r => live_ids x ++ go r end) kids
  end.
Definition live_ids_all (roots : list cfg) : list Z := flat_map live_ids roots.

Lemma live_ids_eq : forall id k w b d dc kids h,
  live_ids (Cfg id k w b d dc kids h) =
  if d then [] else id :: map nid (hrows h) ++ flat_map live_ids kids.
Proof. intros. destruct d; [reflexivity|]. destruct h; reflexivity. Qed.

Lemma flat_list_len_F : forall l,
  Forall (fun c => forall r b, length (flat r b c) = size c) l ->
  forall r b, length (flat_list r b l) = sum_sizes l.
Proof.
  induction 1 as [|c l Hc Hl IH]; intros r b; simpl; [reflexivity|].
  now rewrite app_length, Hc, IH.
Qed.

Lemma flat_len : forall c r b, length (flat r b c) = size c.
Proof.
  induction c as [id k w b0 d dc kids h IH] using cfg_ind'. intros r b.
  rewrite flat_eq, size_eq. destruct d; [reflexivity|].
  simpl. rewrite app_length, (flat_list_len_F _ IH). destruct h; simpl; lia.
Qed.

Lemma flat_list_len : forall l r b, length (flat_list r b l) = sum_sizes l.
Proof. intros l. apply flat_list_len_F. apply Forall_all. apply flat_len. Qed.

Lemma flat_list_ids_F : forall l,
  Forall (fun c => forall r b, map nid (flat r b c) = live_ids c) l ->
  forall r b, map nid (flat_list r b l) = flat_map live_ids l.
Proof.
  induction 1 as [|c l Hc Hl IH]; intros r b; simpl; [reflexivity|].
  now rewrite map_app, Hc, IH.
Qed.

Lemma flat_ids : forall c r b, map nid (flat r b c) = live_ids c.
Proof.
  induction c as [id k w b0 d dc kids h IH] using cfg_ind'. intros r b.
  rewrite flat_eq, live_ids_eq. destruct d; [reflexivity|].
  simpl. now rewrite map_app, (flat_list_ids_F _ IH).
Qed.

Lemma flat_list_ids : forall l r b, map nid (flat_list r b l) = flat_map live_ids l.
Proof. intros l. apply flat_list_ids_F. apply Forall_all. apply flat_ids. Qed.

(* a disabled node, anything below it, and its handler never appear; every other node appears
   exactly once, in setup order *)
Theorem flatten_ids : forall roots, map nid (flatten roots) = live_ids_all roots.
Proof. intros. unfold flatten, live_ids_all. rewrite flatten_from_eq. apply flat_list_ids. Qed.

Theorem flatten_length : forall roots, length (flatten roots) = list_sum (map size roots).
Proof.
  intros. unfold flatten. rewrite flatten_from_eq, flat_list_len. apply sum_sizes_list_sum.
Qed.

(* ================================================================== 2. roots *)
Lemma roots_hrows : forall h i, roots_from i (hrows h) = [].
Proof. intros [x|] i; reflexivity. Qed.

Lemma roots_list_child_F : forall l,
  Forall (fun c => forall b i, roots_from i (flat RChild b c) = []) l ->
  forall b i, roots_from i (flat_list RChild b l) = [].
Proof.
  induction 1 as [|c l Hc Hl IH]; intros b i; simpl; [reflexivity|].
  now rewrite roots_from_app, Hc, IH.
Qed.

Lemma roots_child : forall c b i, roots_from i (flat RChild b c) = [].
Proof.
  induction c as [id k w b0 d dc kids h IH] using cfg_ind'. intros b i.
  rewrite flat_eq. destruct d; [reflexivity|].
  simpl. now rewrite roots_from_app, roots_hrows, (roots_list_child_F _ IH).
Qed.

Lemma roots_list_child : forall l b i, roots_from i (flat_list RChild b l) = [].
Proof. intros l. apply roots_list_child_F. apply Forall_all. apply roots_child. Qed.

(* only the first row of an enabled root tree has role RRoot *)
Lemma roots_root : forall c b i, roots_from i (flat RRoot b c) = if dis c then [] else [i].
Proof.
  intros [id k w b0 d dc kids h] b i. rewrite flat_eq. simpl. destruct d; [reflexivity|].
  simpl. now rewrite roots_from_app, roots_hrows, roots_list_child.
Qed.

Lemma roots_list_root : forall l b, roots_from b (flat_list RRoot b l) = kid_indices b l.
Proof.
  induction l as [|c l IH]; intros b; simpl flat_list; [reflexivity|].
  rewrite roots_from_app, roots_root, flat_len, IH, kid_indices_cons.
  destruct (dis c) eqn:D; [|reflexivity].
  rewrite (size_dis _ D), Nat.add_0_r. reflexivity.
Qed.

(* the roots of the flattened network are the first rows of the enabled root trees *)
Theorem roots_flatten : forall rs, roots (flatten rs) = kid_indices 0 rs.
Proof. intros. unfold roots, flatten. rewrite flatten_from_eq. apply roots_list_root. Qed.

(* ================================================================== 3. targets *)
Definition tgs (nt : net) : list nat := flat_map targets nt.

Lemma tgs_app : forall a b, tgs (a ++ b) = tgs a ++ tgs b.
Proof. intros. apply flat_map_app. Qed.
Lemma tgs_hrows : forall h, tgs (hrows h) = [].
Proof. intros [x|]; reflexivity. Qed.

(* a tree occupying rows [b, b + size c): all its delivery targets are rows strictly inside, no
   row is targeted twice *)
Definition tinv (c : cfg) : Prop :=
  forall r b, NoDup (tgs (flat r b c)) /\ (forall t, In t (tgs (flat r b c)) -> b < t < b + size c).
(* a forest occupying rows [b, b + sum_sizes l): first rows of its trees together with all delivery
   targets are pairwise distinct rows of the forest *)
Definition linv (l : list cfg) : Prop :=
  forall r b, NoDup (kid_indices b l ++ tgs (flat_list r b l))
              /\ (forall t, In t (kid_indices b l) -> b <= t < b + sum_sizes l)
              /\ (forall t, In t (tgs (flat_list r b l)) -> b <= t < b + sum_sizes l).

Lemma linv_of_tinv : forall l, Forall tinv l -> linv l.
Proof.
  induction 1 as [|c l Hc Hl IH]; intros r b.
  - simpl. split; [constructor|]. split; intros t [].
  - simpl flat_list. simpl sum_sizes. rewrite kid_indices_cons, tgs_app.
    destruct (Hc r b) as [Nc Rc]. destruct (IH r (b + size c)) as [Nl [Rk Rl]].
    destruct (dis c) eqn:D.
    + rewrite (flat_dis _ _ _ D) in *. rewrite (size_dis _ D) in *. simpl.
      rewrite Nat.add_0_r in *. split; [assumption|]. split; intros t Ht.
      * apply Rk in Ht. lia.
      * apply Rl in Ht. lia.
    + pose proof (size_en _ D) as Sz.
      apply NoDup_app_iff in Nl. destruct Nl as [Nk [Nt Dj]].
      split; [|split].
      * simpl. constructor.
        -- rewrite !in_app_iff. intros [Hi|[Hi|Hi]].
           ++ apply Rk in Hi. lia.
           ++ apply Rc in Hi. lia.
           ++ apply Rl in Hi. lia.
        -- apply NoDup_app_iff. split; [assumption|]. split.
           ++ apply NoDup_app_iff. split; [assumption|]. split; [assumption|].
              intros x Hx Hy. apply Rc in Hx. apply Rl in Hy. lia.
           ++ intros x Hx Hy. apply in_app_iff in Hy. destruct Hy as [Hy|Hy].
              ** apply Rk in Hx. apply Rc in Hy. lia.
              ** eapply Dj; eauto.
      * intros t [Ht|Ht]; [lia| apply Rk in Ht; lia].
      * intros t Ht. apply in_app_iff in Ht. destruct Ht as [Ht|Ht].
        -- apply Rc in Ht. lia.
        -- apply Rl in Ht. lia.
Qed.

Lemma tinv_all : forall c, tinv c.
Proof.
  induction c as [id k w b0 d dc kids h IH] using cfg_ind'. intros r b.
  apply linv_of_tinv in IH. rewrite flat_eq, size_eq.
  destruct d; [split; [constructor| intros t []]|].
  destruct (IH RChild (b + 1 + hn h)) as [N [Rk Rl]].
  unfold tgs at 1 2. simpl flat_map. fold (tgs (hrows h ++ flat_list RChild (b + 1 + hn h) kids)).
  rewrite tgs_app, tgs_hrows. simpl app. unfold targets at 1 2. cbn [nkids nhandler].
  destruct h as [x|]; cbn [hidx hn] in *.
  - apply NoDup_app_iff in N. destruct N as [Nk [Nt Dj]]. split.
    + apply NoDup_app_iff. split; [|split; [assumption|]].
      * apply NoDup_app_iff. split; [assumption|]. split; [repeat constructor; intros []|].
        intros y Hy [Hz|[]]. apply Rk in Hy. lia.
      * intros y Hy Hz. apply in_app_iff in Hy. destruct Hy as [Hy|[Hy|[]]].
        -- eapply Dj; eauto.
        -- apply Rl in Hz. lia.
    + intros t Ht. rewrite !in_app_iff in Ht. destruct Ht as [[Ht|[Ht|[]]]|Ht].
      * apply Rk in Ht. lia.
      * lia.
      * apply Rl in Ht. lia.
  - rewrite app_nil_r. split; [assumption|].
    intros t Ht. apply in_app_iff in Ht. destruct Ht as [Ht|Ht].
    + apply Rk in Ht. lia.
    + apply Rl in Ht. lia.
Qed.

Lemma linv_all : forall l, linv l.
Proof. intros. apply linv_of_tinv. apply Forall_all. apply tinv_all. Qed.

Theorem flatten_wf : forall roots, wf_net (flatten roots) = true.
Proof.
  intros rs. unfold wf_net. rewrite roots_flatten.
  destruct (linv_all rs RRoot 0) as [N [_ Rt]].
  unfold flatten. rewrite flatten_from_eq. apply andb_true_iff. split.
  - rewrite forallb_flat_map. apply forallb_forall. intros t Ht.
    apply Rt in Ht. rewrite flat_list_len. apply Nat.ltb_lt. lia.
  - apply nodup_nat_NoDup. exact N.
Qed.
