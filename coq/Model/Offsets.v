(* E2 — model of KafkaConsumer.assignPartitions / calculateAssignmentOffsets /
   offsetForPartition (node/kafkaconsumer/kafkaconsumer.go:306-396) and
   RecoveryConsumer.RequestRecovery / SetAssignedPartitions
   (recoveryconsumer.go:328-343, 436-439).  Definitions only. *)
From Coq Require Import List ZArith Bool.
From FB Require Import Model.Tracker.
Import ListNotations.
Open Scope Z_scope.

Record acfg := { maxlag : Z; recov : bool; maxrec : Z }.

(* answers of the broker, supplied by the case (oracles, not axioms) *)
Inductive cres := CErr | COk (offs : list (Z * Z)).     (* Committed(): partition, offset *)
Inductive wres := WErr | WOk (low high : Z).            (* QueryWatermarkOffsets() *)

Definition offset_invalid : Z := -1001.                 (* kafka.OffsetInvalid *)

(* offsetForPartition: first entry for the partition, else 0 *)
Fixpoint offset_for (p : Z) (offs : list (Z * Z)) : Z :=
  match offs with
  | [] => 0
  | (q, o) :: rest => if q =? p then o else offset_for p rest
  end.

Definition committed_of (p : Z) (offs : list (Z * Z)) : Z :=
  let o := offset_for p offs in if o =? offset_invalid then 0 else o.

(* kafkaconsumer.go:362-377 — returns the start offset and the (untrimmed)
   recovery request to file, if any *)
Definition start_offset (cfg : acfg) (c high : Z) : Z * option (Z * Z) :=
  if high - c >? maxlag cfg then
    if maxlag cfg >? high then (0, None)
    else (high - maxlag cfg, if recov cfg then Some (c, high - maxlag cfg) else None)
  else (c, None).

(* RequestRecovery's trimming (recoveryconsumer.go:329-334) *)
Definition trim (cfg : acfg) (ft : Z * Z) : Z * Z :=
  let '(f, t) := ft in
  if t - f >? maxrec cfg then (t - maxrec cfg, t) else (f, t).

(* the loop of calculateAssignmentOffsets: partitions with the watermark answer
   of their query, in order.  [filed] accumulates the AddRecoveryRequest calls
   (partition, from, to) made so far — they stay made when a later query fails. *)
Fixpoint calc (cfg : acfg) (offs : list (Z * Z)) (pw : list (Z * wres))
  : option (list (Z * Z)) * list (Z * Z * Z) :=
  match pw with
  | [] => (Some [], [])
  | (p, WErr) :: _ => (None, [])
  | (p, WOk low high) :: rest =>
      let '(st, rq) := start_offset cfg (committed_of p offs) high in
      let here := match rq with
                  | Some ft => let '(f, t) := trim cfg ft in [(p, f, t)]
                  | None => []
                  end in
      let '(r, filed) := calc cfg offs rest in
      (match r with Some l => Some ((p, st) :: l) | None => None end, here ++ filed)
  end.

Record ares := {
  a_err : bool;                         (* assignPartitions returned an error *)
  a_assign : option (list (Z * Z));     (* argument of consumer.Assign, if it was called *)
  a_filed : list (Z * Z * Z);           (* AddRecoveryRequest calls, in order *)
  a_owned : option (list (Z * Z));      (* argument of SetAssignedPartitions, if it was called *)
}.

Definition assign (cfg : acfg) (parts : list Z) (com : cres) (wms : list wres) (assign_fails : bool) : ares :=
  match com with
  | CErr => {| a_err := true; a_assign := None; a_filed := []; a_owned := None |}
  | COk offs =>
      let '(r, filed) := calc cfg offs (combine parts wms) in
      match r with
      | None => {| a_err := true; a_assign := None; a_filed := filed; a_owned := None |}
      | Some l =>
          if assign_fails
          then {| a_err := true; a_assign := Some l; a_filed := filed; a_owned := None |}
          else {| a_err := false; a_assign := Some l; a_filed := filed;
                  a_owned := if recov cfg then Some l else None |}
      end
  end.

(* broadcasts produced by filing those requests into a tracker *)
Fixpoint file_all (s : tstate) (filed : list (Z * Z * Z)) : tstate * list bcast :=
  match filed with
  | [] => (s, [])
  | (p, f, t) :: rest =>
      let r := add s p f t in
      let '(s', out) := file_all (ts r) rest in
      (s', tout r ++ out)
  end.

(* ---------- retryAssignPartitions (kafkaconsumer.go:265-302) ----------
   The first attempt is unconditional; after a failed attempt the loop waits for the 3 s ticker or for the
   cancellation that a revocation triggers, whichever comes first.  [cancel] = number of further attempts the
   loop is allowed before the revocation arrives (a large number = never).  Every attempt asks the broker
   afresh; its answers are the oracle [attempt]. *)
Record attempt := { at_com : cres; at_wms : list wres; at_fail : bool }.

Fixpoint retry (cfg : acfg) (parts : list Z) (atts : list attempt) (cancel : nat) : list ares :=
  match atts with
  | [] => []
  | a :: rest =>
      let r := assign cfg parts (at_com a) (at_wms a) (at_fail a) in
      r :: (if a_err r then match cancel with O => [] | S c => retry cfg parts rest c end else [])
  end.
