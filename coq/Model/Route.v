(* E5 — model of the message routing walk: node.InitNodeContextHierarchy (node/node.go:76-128, the part
   that decides which nodes exist), Executor.deliverMessage / deliverMessageToNode
   (executor/message.go:76-108), ContextAware.Subscribe / AcceptsMessage (fbcontext/fbcontext.go:86-99).
   Definitions only. *)
From Coq Require Import List ZArith Bool.
From FB Require Import Lib.Eqb Model.Wire.
Import ListNotations.
Open Scope Z_scope.

(* a source / node as far as messaging is concerned: identity, the sequence of Subscribe calls it made,
   whether its Receive returns an error *)
Record party := { p_id : Z; p_subs : list (list bytes); p_fail : bool }.

(* node.Config: the node itself, disabled flag, optional error handler, children *)
Inductive rnode := RNode (p : party) (disabled : bool) (handler : option party) (kids : list rnode).
(* node.Context *)
Inductive ctx := Ctx (p : party) (handler : option party) (kids : list ctx).

(* Subscribe replaces the list (fbcontext.go:87-89): the current subscription is the last call's *)
Definition current (calls : list (list bytes)) : list bytes := last calls [].
(* AcceptsMessage (fbcontext.go:93-99) *)
Definition accepts (p : party) (t : bytes) : bool := existsb (bytes_eqb t) (current (p_subs p)).

(* InitNodeContextHierarchy: a disabled node yields no context (and none for its subtree); the error
   handler context is built from the handler config alone *)
Fixpoint init_ctx (n : rnode) : option ctx :=
  match n with
  | RNode p dis h kids =>
      if dis then None
      else Some (Ctx p h
             ((fix go (l : list rnode) : list ctx :=
                 match l with
                 | [] => []
                 | k :: l' => match init_ctx k with Some c => c :: go l' | None => go l' end
                 end) kids))
  end.
Fixpoint init_roots (l : list rnode) : list ctx :=      (* executor/executor.go:49-55 *)
  match l with
  | [] => []
  | k :: l' => match init_ctx k with Some c => c :: init_roots l' | None => init_roots l' end
  end.

(* deliverMessageToNode: the Receive calls made, in order, each with whether it returned an error.
   ErrorHandler is not visited. *)
Fixpoint deliver_node (t : bytes) (c : ctx) : list (Z * bool) :=
  match c with
  | Ctx p _ kids =>
      (if accepts p t then [(p_id p, p_fail p)] else [])
      ++ (fix go (l : list ctx) : list (Z * bool) :=
            match l with [] => [] | k :: l' => deliver_node t k ++ go l' end) kids
  end.
Fixpoint deliver_nodes (t : bytes) (l : list ctx) : list (Z * bool) :=
  match l with [] => [] | k :: l' => deliver_node t k ++ deliver_nodes t l' end.

(* deliverMessage: source first, then every root; result = (Receive calls with the message each one got,
   ids of the recipients whose error is in the returned slice, in order) *)
Definition route (src : party) (roots : list rnode) (m : msg) : list (Z * msg) * list Z :=
  let calls := (if accepts src (m_type m) then [(p_id src, p_fail src)] else [])
               ++ deliver_nodes (m_type m) (init_roots roots) in
  (map (fun c => (fst c, m)) calls, map fst (filter snd calls)).
