(* E7 / C14 — model of the elasticsearch sink: Elasticsearch.ProcessAsync (node/elasticsearch/elasticsearch.go:124-140),
   ElasticIndexClient.batch / retryBulkIndex / doBulkIndex / handleErrorResponses
   (node/elasticsearch/elastic_index_client.go:91-287) and the token pool (:38,62-68,155-156).
   Definitions only.

   Elasticsearch is a script carried by the case: the outcome of document [id] on its k-th send.  All documents
   of one bulk request have been sent equally often (a request is either a fresh batch or the retry list of one
   earlier request), so a request has one send index. *)
From Coq Require Import List ZArith Bool Arith.
Import ListNotations.
Open Scope Z_scope.

Record doc := { d_id : Z; d_idx : Z; d_hasid : Z; d_body : Z }.

Inductive op :=
  | OpDoc (d : doc)        (* ProcessAsync with an IndexRequest payload *)
  | OpBad (id : Z)         (* ProcessAsync with a payload of another type *)
  | OpPause.               (* arrivals pause for at least batch-max-wait: the idle timer fires *)

Record ecfg := { batch_size : nat; max_retries : nat; workers : nat }.

Inductive outcome :=
  | OOk          (* 2xx *)
  | ORetry       (* non-2xx with an error other than mapper_parsing_exception *)
  | OMapping     (* non-2xx with error type mapper_parsing_exception *)
  | ONoErr       (* non-2xx without error field *)
  | OWhole.      (* bulk.Do returns an error for the request holding this document *)

(* (outcome, late): late = the response of the request holding it arrives after the client-side deadline *)
Definition script := list (Z * list (outcome * bool)).

Fixpoint script_of (sc : script) (id : Z) : list (outcome * bool) :=
  match sc with
  | [] => []
  | (i, l) :: rest => if i =? id then l else script_of rest id
  end.
Definition outcome_at (sc : script) (id : Z) (k : nat) : outcome := fst (nth k (script_of sc id) (OOk, false)).
Definition late_at (sc : script) (id : Z) (k : nat) : bool := snd (nth k (script_of sc id) (OOk, false)).

(* answers an event can get *)
Inductive answer :=
  | ASuccess                          (* ReturnEvent(req.Event) *)
  | AIndexErr (send : Z) (etype : Z)  (* ReturnError(FBError ES_INDEX_ERROR, WithInfo(item.Error)) carrying the error details
                                         of that send; etype 1 retryable, 2 mapping, 3 synthesized (send = -1) *)
  | AOther.                           (* ReturnError(errors.New("failed type assertion ...")) *)

(* one doBulkIndex call: the documents, the retryCount argument, how often they have been sent before *)
Record task := { t_docs : list doc; t_n : nat; t_send : nat }.

Definition is_whole (o : outcome) : bool := match o with OWhole => true | _ => false end.
Definition is_ok (o : outcome) : bool := match o with OOk => true | _ => false end.
Definition is_retryable (o : outcome) : bool := match o with ORetry | ONoErr => true | _ => false end.

Definition outcomes (sc : script) (t : task) : list outcome :=
  map (fun d => outcome_at sc (d_id d) (t_send t)) (t_docs t).

(* handleErrorResponses, one item (elastic_index_client.go:217-269).  ONoErr gets synthetic error details and then
   takes the retryable path (:229-234) *)
Definition item_answer (cfg : ecfg) (t : task) (d : doc) (o : outcome) : list (Z * answer) :=
  match o with
  | OOk => [(d_id d, ASuccess)]                                                          (* :267 *)
  | OMapping => [(d_id d, AIndexErr (Z.of_nat (t_send t)) 2)]                            (* :252-256, isTypeConflict *)
  | ORetry => if (t_n t =? max_retries cfg)%nat then [(d_id d, AIndexErr (Z.of_nat (t_send t)) 1)] else []
  | ONoErr => if (t_n t =? max_retries cfg)%nat then [(d_id d, AIndexErr (-1) 3)] else []
  | OWhole => []
  end.

Fixpoint item_answers (cfg : ecfg) (t : task) (ds : list doc) (os : list outcome) : list (Z * answer) :=
  match ds, os with
  | d :: ds', o :: os' => item_answer cfg t d o ++ item_answers cfg t ds' os'
  | _, _ => []
  end.

Fixpoint retry_list (ds : list doc) (os : list outcome) : list doc :=      (* :247-249 *)
  match ds, os with
  | d :: ds', o :: os' => if is_retryable o then d :: retry_list ds' os' else retry_list ds' os'
  | _, _ => []
  end.

(* one doBulkIndex + what retryBulkIndex / handleErrorResponses start next: (answers given, call started) *)
Definition opt_list {A} (o : option A) : list A := match o with Some x => [x] | None => [] end.
Definition handle (cfg : ecfg) (sc : script) (t : task) : list (Z * answer) * option task :=
  match t_docs t with
  | [] => ([], None)                                                                      (* :158-161 *)
  | _ =>
    let os := outcomes sc t in
    if existsb is_whole os
    then ([], Some {| t_docs := t_docs t; t_n := t_n t; t_send := S (t_send t) |})       (* :182-186 and :134-149: same batch, same retryCount *)
    else if forallb is_ok os
    then (map (fun d => (d_id d, ASuccess)) (t_docs t), None)                             (* :194-199 *)
    else
      let ans := item_answers cfg t (t_docs t) os in
      if (t_n t =? max_retries cfg)%nat then (ans, None)                                  (* :273-276 ErrMaxRetries *)
      else (ans, Some {| t_docs := retry_list (t_docs t) os; t_n := S (t_n t); t_send := S (t_send t) |})   (* :278 *)
  end.

(* what a bulk request that is actually sent looks like to Elasticsearch *)
Definition call_of (t : task) : list (list doc) := match t_docs t with [] => [] | ds => [ds] end.

(* ---------- functional (schedule-free) semantics of one batch ---------- *)
Record trace := { tr_answers : list (Z * answer); tr_calls : list (list doc); tr_fuel_out : bool }.
Definition tr_app (a b : trace) : trace :=
  {| tr_answers := tr_answers a ++ tr_answers b; tr_calls := tr_calls a ++ tr_calls b;
     tr_fuel_out := tr_fuel_out a || tr_fuel_out b |}.
Definition tr_empty : trace := {| tr_answers := []; tr_calls := []; tr_fuel_out := false |}.

Fixpoint lineage (fuel : nat) (cfg : ecfg) (sc : script) (t : task) : trace :=
  match fuel with
  | O => {| tr_answers := []; tr_calls := []; tr_fuel_out := true |}
  | S f =>
      let '(ans, next) := handle cfg sc t in
      tr_app {| tr_answers := ans; tr_calls := call_of t; tr_fuel_out := false |}
             (match next with Some t' => lineage f cfg sc t' | None => tr_empty end)
  end.

(* ---------- the batcher (elastic_index_client.go:91-126) ---------- *)
Record bstate := {
  b_pending : list doc;             (* messages *)
  b_batches : list (list doc);      (* arguments of retryBulkIndex(messages, 0), in order (possibly empty ones) *)
  b_direct : list (Z * answer);     (* answers given by ProcessAsync itself *)
}.
Definition b_init : bstate := {| b_pending := []; b_batches := []; b_direct := [] |}.

Definition bstep (cfg : ecfg) (s : bstate) (o : op) : bstate :=
  match o with
  | OpDoc d =>                                                        (* elasticsearch.go:131-139, client :111-116 *)
      let p := b_pending s ++ [d] in
      if (length p =? batch_size cfg)%nat
      then {| b_pending := []; b_batches := b_batches s ++ [p]; b_direct := b_direct s |}
      else {| b_pending := p; b_batches := b_batches s; b_direct := b_direct s |}
  | OpBad id =>                                                       (* elasticsearch.go:125-129 *)
      {| b_pending := b_pending s; b_batches := b_batches s; b_direct := b_direct s ++ [(id, AOther)] |}
  | OpPause =>                                                        (* :117-119 *)
      {| b_pending := []; b_batches := b_batches s ++ [b_pending s]; b_direct := b_direct s |}
  end.

Definition brun (cfg : ecfg) (ops : list op) : bstate := fold_left (bstep cfg) ops b_init.

(* how a scenario ends: [clean] = arrivals pause (the timer fires) before Shutdown; otherwise Shutdown comes right
   after the last op and the batch goroutine returns on ctx.Done() without flushing (:120-123) *)
Definition bfinish (cfg : ecfg) (clean : bool) (s : bstate) : bstate :=
  if clean then bstep cfg s OpPause else s.

Definition script_len (sc : script) : nat := fold_right (fun e acc => (length (snd e) + acc)%nat) O sc.
Definition fuel_for (cfg : ecfg) (sc : script) : nat := (script_len sc + max_retries cfg + 2)%nat.

Definition fresh (ds : list doc) : task := {| t_docs := ds; t_n := O; t_send := O |}.

Record esres := {
  e_answers : list (Z * answer);    (* every answer any event got *)
  e_calls : list (list doc);        (* every bulk request sent *)
  e_dropped : list doc;             (* accepted, still pending when Shutdown ran: never sent, never answered *)
  e_fuel_out : bool;
}.

Definition es_run (cfg : ecfg) (sc : script) (ops : list op) (clean : bool) : esres :=
  let s := bfinish cfg clean (brun cfg ops) in
  let tr := fold_right (fun b acc => tr_app (lineage (fuel_for cfg sc) cfg sc (fresh b)) acc) tr_empty (b_batches s) in
  {| e_answers := b_direct s ++ tr_answers tr; e_calls := tr_calls tr; e_dropped := b_pending s;
     e_fuel_out := tr_fuel_out tr |}.

(* ---------- the same system as a scheduled machine: token pool + goroutines ---------- *)
(* a goroutine inside doBulkIndex holds a token; [responded] = it has handled the response (answers given, retry
   goroutine started) and has yet to give the token back (the deferred c.pool <- 1, :156) *)
Record mstate := {
  m_tokens : nat;                         (* len(c.pool) *)
  m_waiting : list task;                  (* goroutines at or before <-c.pool (:155) *)
  m_running : list (task * bool);         (* goroutines holding a token *)
  m_batcher : bstate;
  m_answers : list (Z * answer);
  m_calls : list (list doc);
  m_stopped : bool;
}.

Inductive action :=
  | AOp (o : op)            (* the batch goroutine handles an arrival / its timer *)
  | AShutdown               (* ctx.Done() *)
  | AAcquire (i : nat)      (* waiting goroutine i takes a token *)
  | ARespond (i : nat)      (* running goroutine i gets its response from Elasticsearch and handles it *)
  | ARelease (i : nat).     (* running goroutine i returns the token *)

Fixpoint remove_nth {A} (i : nat) (l : list A) : list A :=
  match i, l with
  | _, [] => []
  | O, _ :: l' => l'
  | S i', x :: l' => x :: remove_nth i' l'
  end.
Fixpoint set_nth {A} (i : nat) (y : A) (l : list A) : list A :=
  match i, l with
  | _, [] => []
  | O, _ :: l' => y :: l'
  | S i', x :: l' => x :: set_nth i' y l'
  end.

Definition m_init (cfg : ecfg) : mstate :=
  {| m_tokens := workers cfg; m_waiting := []; m_running := []; m_batcher := b_init;
     m_answers := []; m_calls := []; m_stopped := false |}.

(* batches the batcher emitted by this step *)
Definition new_batches (old new : bstate) : list (list doc) := skipn (length (b_batches old)) (b_batches new).

Definition mstep (cfg : ecfg) (sc : script) (s : mstate) (a : action) : option mstate :=
  match a with
  | AOp o =>
      if m_stopped s then None
      else
        let b' := bstep cfg (m_batcher s) o in
        Some {| m_tokens := m_tokens s; m_waiting := m_waiting s ++ map fresh (new_batches (m_batcher s) b');
                m_running := m_running s; m_batcher := b';
                m_answers := m_answers s ++ skipn (length (b_direct (m_batcher s))) (b_direct b');
                m_calls := m_calls s; m_stopped := false |}
  | AShutdown =>
      Some {| m_tokens := m_tokens s; m_waiting := m_waiting s; m_running := m_running s; m_batcher := m_batcher s;
              m_answers := m_answers s; m_calls := m_calls s; m_stopped := true |}
  | AAcquire i =>
      match nth_error (m_waiting s) i, m_tokens s with
      | Some t, S k =>
          Some {| m_tokens := k; m_waiting := remove_nth i (m_waiting s); m_running := m_running s ++ [(t, false)];
                  m_batcher := m_batcher s; m_answers := m_answers s; m_calls := m_calls s ++ call_of t;
                  m_stopped := m_stopped s |}
      | _, _ => None
      end
  | ARespond i =>
      match nth_error (m_running s) i with
      | Some (t, false) =>
          let '(ans, next) := handle cfg sc t in
          Some {| m_tokens := m_tokens s; m_waiting := m_waiting s ++ opt_list next; m_running := set_nth i (t, true) (m_running s);
                  m_batcher := m_batcher s; m_answers := m_answers s ++ ans; m_calls := m_calls s;
                  m_stopped := m_stopped s |}
      | _ => None
      end
  | ARelease i =>
      match nth_error (m_running s) i with
      | Some (t, true) =>
          Some {| m_tokens := S (m_tokens s); m_waiting := m_waiting s; m_running := remove_nth i (m_running s);
                  m_batcher := m_batcher s; m_answers := m_answers s; m_calls := m_calls s; m_stopped := m_stopped s |}
      | _ => None
      end
  end.

Fixpoint mrun (cfg : ecfg) (sc : script) (s : mstate) (sch : list action) : option mstate :=
  match sch with
  | [] => Some s
  | a :: rest => match mstep cfg sc s a with Some s' => mrun cfg sc s' rest | None => None end
  end.

Definition in_flight (s : mstate) : nat := length (m_running s).
Definition quiescent (s : mstate) : bool :=
  match m_waiting s, m_running s with [], [] => true | _, _ => false end.
