(* E8 — model of the parameter handling code (C20).  Definitions only.
     util/util.go:19-31                         ApplyLibrdkafkaConf
     confluent-kafka-go@v1.9.2 kafka/config.go:52-64   ConfigMap.SetKey (third party; its {topic}. branch included)
     node/kafkaconsumer/kafkaconsumer.go:102-131       KafkaConsumer.buildConfigMap
     node/kafkaconsumer/recoveryconsumer.go:150-177    RecoveryConsumer.buildConfigMap
     message/kakfamessagereceiver.go:77-100            KafkaMessageReceiver.buildConfigMap
     node/kafkaproducer/kafkaproducer.go:57-89         KafkaProducer.buildConfigMap / checkConfig
     node/kafkaconsumer/kafkaconsumer.go:134-181       KafkaConsumer.checkConfig
     helpers.go:13-94                                  Nodeconfig typed getters
   Strings are byte lists; a Go map[string]string is an association list with distinct keys
   (the judge rejects inputs with duplicate keys); Go's random iteration order is represented by
   the order of that list, and the theorems show the result does not depend on it. *)
From Coq Require Import List ZArith Bool.
From FB Require Import Model.Literals Model.Atoi.
Import ListNotations.
Open Scope Z_scope.

(* ---------- association lists (first match wins on lookup; set replaces the first match or appends) ---------- *)
Fixpoint lookup {A} (k : bytes) (m : list (bytes * A)) : option A :=
  match m with
  | [] => None
  | (k', v) :: r => if bytes_eqb k k' then Some v else lookup k r
  end.

Fixpoint set {A} (k : bytes) (v : A) (m : list (bytes * A)) : list (bytes * A) :=
  match m with
  | [] => [(k, v)]
  | (k', v') :: r => if bytes_eqb k k' then (k, v) :: r else (k', v') :: set k v r
  end.

Definition pmap := list (bytes * bytes).            (* map[string]string *)

(* reading a Go map[string]string: zero value "" when absent *)
Definition pget (k : bytes) (m : pmap) : bytes :=
  match lookup k m with Some v => v | None => [] end.

Definition is_empty (s : bytes) : bool := match s with [] => true | _ => false end.

(* strings.HasPrefix / strings.TrimPrefix *)
Fixpoint has_prefix (p s : bytes) : bool :=
  match p, s with
  | [], _ => true
  | x :: p', y :: s' => (x =? y) && has_prefix p' s'
  | _ :: _, [] => false
  end.
Definition trim_prefix (p s : bytes) : bytes :=
  if has_prefix p s then skipn (length p) s else s.

(* ---------- kafka.ConfigMap ---------- *)
(* scalar kafka.ConfigValue: string | int | bool;  a ConfigMap value is a scalar or (one level) a nested ConfigMap *)
Inductive sval := SStr (s : bytes) | SInt (z : Z) | SBool (b : bool).
Inductive cval := VS (s : sval) | VMap (m : list (bytes * sval)).
Definition cmap := list (bytes * cval).

Definition lp : bytes := s_librdkafka_prefix.             (* util.go:21 *)
Definition tp : bytes := s_topic_prefix.                (* config.go:53 *)
Definition dtc : bytes := s_default_topic_config.   (* config.go:54 *)

(* ConfigMap.SetKey (config.go:52-64).  [None] = the type assertion m["default.topic.config"].(ConfigMap)
   panics (the entry exists and is not a ConfigMap). *)
Definition set_key (k : bytes) (v : sval) (m : cmap) : option cmap :=
  if has_prefix tp k then
    match lookup dtc m with
    | None => Some (set dtc (VMap (set (trim_prefix tp k) v [])) m)
    | Some (VMap sub) => Some (set dtc (VMap (set (trim_prefix tp k) v sub)) m)
    | Some (VS _) => None
    end
  else Some (set k (VS v) m).

(* util.ApplyLibrdkafkaConf (util.go:19-31): SetKey never returns an error.  [ps] in iteration order. *)
Fixpoint apply_conf (ps : pmap) (m : cmap) : option cmap :=
  match ps with
  | [] => Some m
  | (k, v) :: r =>
      if has_prefix lp k then
        match set_key (trim_prefix lp k) (SStr v) m with
        | None => None
        | Some m' => apply_conf r m'
        end
      else apply_conf r m
  end.

(* the four default tables; [which]: 0 Kafka source, 1 recovery consumer, 2 message receiver, 3 producer *)
Definition S_ (s : bytes) : cval := VS (SStr s).
Definition I_ (z : Z) : cval := VS (SInt z).
Definition B_ (b : bool) : cval := VS (SBool b).
Definition earliest : cval := VMap [(s_auto_offset_reset, SStr s_earliest)].

(* kafkaconsumer.go:111-124 *)
Definition defaults_source (p : pmap) (bufsize : Z) : cmap :=
  [ (s_bootstrap_servers, VS (SStr (pget s_brokers p)));
    (s_group_id, VS (SStr (pget s_consumergroup p)));
    (s_session_timeout_ms, I_ 10000);
    (s_enable_auto_commit, B_ true);
    (s_auto_commit_interval_ms, I_ 5000);
    (s_statistics_interval_ms, I_ 60000);
    (s_go_events_channel_enable, B_ true);
    (s_go_events_channel_size, I_ bufsize);
    (s_go_application_rebalance_enable, B_ true);
    (dtc, earliest);
    (s_socket_keepalive_enable, B_ true);
    (s_log_connection_close, B_ false) ].

(* recoveryconsumer.go:158-169 *)
Definition defaults_recovery (p : pmap) (bufsize : Z) : cmap :=
  [ (s_bootstrap_servers, VS (SStr (pget s_brokers p)));
    (s_group_id, S_ s_firebolt_recoveryconsumer);
    (s_session_timeout_ms, I_ 10000);
    (s_enable_auto_commit, B_ false);
    (s_auto_offset_reset, S_ s_error);
    (s_go_events_channel_enable, B_ true);
    (s_go_events_channel_size, I_ bufsize);
    (s_go_application_rebalance_enable, B_ false);
    (s_socket_keepalive_enable, B_ true);
    (s_log_connection_close, B_ false) ].

(* kakfamessagereceiver.go:80-92 *)
Definition defaults_receiver (p : pmap) : cmap :=
  [ (s_bootstrap_servers, VS (SStr (pget s_brokers p)));
    (s_group_id, S_ s_firebolt_messages);
    (s_session_timeout_ms, I_ 10000);
    (s_enable_auto_commit, B_ false);
    (s_go_events_channel_enable, B_ true);
    (s_go_events_channel_size, I_ 100);
    (s_go_application_rebalance_enable, B_ false);
    (dtc, earliest);
    (s_socket_keepalive_enable, B_ true);
    (s_log_connection_close, B_ false);
    (s_enable_partition_eof, B_ true) ].

(* kafkaproducer.go:64-73 *)
Definition defaults_producer (p : pmap) : cmap :=
  [ (s_bootstrap_servers, VS (SStr (pget s_brokers p)));
    (s_statistics_interval_ms, I_ 60000);
    (s_queue_buffering_max_messages, I_ 50000);
    (s_queue_buffering_max_kbytes, I_ 256000);
    (s_queue_buffering_max_ms, I_ 3000);
    (s_log_connection_close, B_ false);
    (s_socket_keepalive_enable, B_ true);
    (s_compression_codec, S_ s_snappy) ].

(* the default table of client [which], or None when buildConfigMap returns an error before building it:
   source / recovery consumer: strconv.Atoi(config["buffersize"]) fails (kafkaconsumer.go:104-107,
   recoveryconsumer.go:152-155); producer: checkConfig, brokers == "" (kafkaproducer.go:58-61, 84-86) *)
Definition defaults_of (which : Z) (p : pmap) : option cmap :=
  if which =? 0 then match atoi (pget s_buffersize p) with Some b => Some (defaults_source p b) | None => None end
  else if which =? 1 then match atoi (pget s_buffersize p) with Some b => Some (defaults_recovery p b) | None => None end
  else if which =? 2 then Some (defaults_receiver p)
  else if is_empty (pget s_brokers p) then None else Some (defaults_producer p).

Inductive bres := BErr | BPanic | BOk (m : cmap).

Definition build_config_map (which : Z) (p : pmap) : bres :=
  match defaults_of which p with
  | None => BErr
  | Some d => match apply_conf p d with None => BPanic | Some m => BOk m end
  end.

(* ---------- KafkaConsumer.checkConfig (kafkaconsumer.go:134-181): (accepted, the map afterwards) ---------- *)
Definition k_brokers := s_brokers.
Definition k_group := s_consumergroup.
Definition k_topic := s_topic.
Definition k_bufsize := s_buffersize.
Definition k_maxlag := s_maxpartitionlag.
Definition k_par := s_parallelrecoveryenabled.

Definition check_config (m : pmap) : bool * pmap :=
  if is_empty (pget k_brokers m) then (false, m)
  else if is_empty (pget k_group m) then (false, m)
  else if is_empty (pget k_topic m) then (false, m)
  else if is_empty (pget k_bufsize m) then (false, m)
  else match atoi (pget k_bufsize m) with
  | None => (false, m)
  | Some b =>
    if b <? 1 then (false, m) else
    let m' := if is_empty (pget k_maxlag m) then set k_maxlag (itoa max_int64) m else m in
    match atoi (pget k_maxlag m') with
    | None => (false, m')
    | Some l =>
      if l <? 0 then (false, m') else
      if negb (is_empty (pget k_par m')) then
        match parse_bool (pget k_par m') with
        | None => (false, m')
        | Some _ => (true, m')
        end
      else (true, m')
    end
  end.

(* ---------- typed getters (helpers.go) : (result, the map afterwards); None = error ---------- *)
(* the optional variants first store the formatted default when the key is absent (helpers.go:16-19, 47-50, 69-72) *)
Definition with_default (req : bool) (name txt : bytes) (m : pmap) : pmap :=
  if req then m else match lookup name m with Some _ => m | None => set name txt m end.

(* IntConfig / IntConfigRequired (helpers.go:13-41) *)
Definition int_getter (req : bool) (m : pmap) (name : bytes) (d mn mx : Z) : option Z * pmap :=
  let m' := with_default req name (itoa d) m in
  match lookup name m' with
  | None => (None, m')
  | Some t =>
      match atoi t with
      | None => (None, m')
      | Some v => if (v >? mx) || (v <? mn) then (None, m') else (Some v, m')
      end
  end.

(* StringConfig / StringConfigRequired (helpers.go:43-63) *)
Definition string_getter (req : bool) (m : pmap) (name d : bytes) : option bytes * pmap :=
  let m' := with_default req name d m in
  (lookup name m', m').

(* float64 values as the comparisons see them: NaN, or a number identified by an order-preserving integer key
   (the harness maps IEEE-754 bits to it; +0 and -0 share key 0; +-Inf are the extreme keys) *)
Inductive fv := FNaN | FNum (k : Z).
Definition fle (a b : fv) : bool :=            (* Go's a <= b on float64: false when either is NaN *)
  match a, b with FNum x, FNum y => x <=? y | _, _ => false end.

(* Float64Config / Float64ConfigRequired (helpers.go:65-94).  strconv.FormatFloat / ParseFloat are not modelled:
   [dtxt] is FormatFloat(default,'g',-1,64) and [parse] is ParseFloat restricted to the strings of the case, both
   supplied by the case (oracles).  [lookup t parse = Some None]: ParseFloat returned an error (syntax or range);
   a text missing from the oracle is a harness error (the judge reports the case as malformed). *)
Definition float_getter (req : bool) (m : pmap) (name dtxt : bytes) (parse : list (bytes * option fv)) (mn mx : fv)
  : option fv * pmap :=
  let m' := with_default req name dtxt m in
  match lookup name m' with
  | None => (None, m')
  | Some t =>
      match lookup t parse with
      | Some (Some v) => if negb (fle mn v && fle v mx) then (None, m') else (Some v, m')
      | _ => (None, m')
      end
  end.
