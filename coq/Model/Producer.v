(* E7 / C15 — model of KafkaProducer.Process / Produce (node/kafkaproducer/kafkaproducer.go:92-121),
   ErrorProducer.Process (node/kafkaproducer/errorproducer.go:18-40) and EventError.MarshalJSON /
   FBError (error.go:29-79).  Definitions only.

   Strings the code looks at are [list Z] of bytes.  JSON values are [Sexp.tree]s in the canonical
   encoding the harness produces by parsing the produced bytes with encoding/json:
     (0) null   (1 b) bool   (2 n) integer   (3 (bytes)) string   (4 (items)) array
     (5 (((keybytes) value) ...)) object, members sorted by key bytes
     (6) a string that parses as an RFC 3339 time (only at "timestamp" and, for the executor's report
         form, at "event.created": the property speaks of presence, not of the value)
     (7) not valid JSON. *)
From Coq Require Import List ZArith Bool.
From FB Require Import Lib.Sexp.
Import ListNotations.
Open Scope Z_scope.

Definition bytes := list Z.

(* ---------- JSON constructors (canonical trees) ---------- *)
Definition jnull : tree := T [L 0].
Definition jbool (b : bool) : tree := T [L 1; ofB b].
Definition jstr (s : bytes) : tree := T [L 3; T (map L s)].
Definition jobj (kvs : list (bytes * tree)) : tree :=
  T [L 5; T (map (fun kv => T [T (map L (fst kv)); snd kv]) kvs)].
Definition jtime : tree := T [L 6].
Definition jbad : tree := T [L 7].
Definition jempty : tree := jobj [].          (* {} *)

(* key names, as bytes *)
Definition k_code : bytes := [99; 111; 100; 101].                                    (* "code" *)
Definition k_message : bytes := [109; 101; 115; 115; 97; 103; 101].                 (* "message" *)
Definition k_errorinfo : bytes := [101; 114; 114; 111; 114; 105; 110; 102; 111].    (* "errorinfo" *)
Definition k_timestamp : bytes := [116; 105; 109; 101; 115; 116; 97; 109; 112].     (* "timestamp" *)
Definition k_event : bytes := [101; 118; 101; 110; 116].                            (* "event" *)
Definition k_error : bytes := [101; 114; 114; 111; 114].                            (* "error" *)
Definition k_payload : bytes := [112; 97; 121; 108; 111; 97; 100].                  (* "payload" *)
Definition k_created : bytes := [99; 114; 101; 97; 116; 101; 100].                  (* "created" *)
Definition k_recovery : bytes := [114; 101; 99; 111; 118; 101; 114; 121].           (* "recovery" *)
Definition k_Type : bytes := [84; 121; 112; 101].                                   (* "Type" *)
Definition k_Err : bytes := [69; 114; 114].                                         (* "Err" *)
Definition k_Str : bytes := [83; 116; 114].                                         (* "Str" *)
Definition k_Value : bytes := [86; 97; 108; 117; 101].                              (* "Value" *)
Definition s_err_unknown : bytes := [69; 82; 82; 95; 85; 78; 75; 78; 79; 87; 78].   (* "ERR_UNKNOWN" *)
Definition s_colon_sp : bytes := [58; 32].                                          (* ": " *)

(* ---------- KafkaProducer.Process ---------- *)

(* what the event's Payload is *)
Inductive preq :=
  | PSimple (topic msg : bytes)     (* *firebolt.SimpleProduceRequest *)
  | PCustom (topic msg : bytes)     (* another implementation of firebolt.ProduceRequest *)
  | PWrong (k : Z).                 (* anything that is not a ProduceRequest (string, nil, SimpleProduceRequest by
                                       value, []byte, EventError ...) *)

(* error results, as the small enum the harness reports: 0 nil, 1 failed type assertion, 2 missing topic *)
Definition e_none : Z := 0.
Definition e_type : Z := 1.
Definition e_topic : Z := 2.

Record pres := {
  p_result_nil : bool;                    (* first return value is nil: nothing goes to children *)
  p_err : Z;
  p_records : list (bytes * bytes);       (* (topic, value) put on ProduceChannel(), in order *)
}.

Definition is_empty (s : bytes) : bool := match s with [] => true | _ => false end.

(* kafkaproducer.go:99-106 *)
Definition dest_topic (cfg_topic req_topic : bytes) : bytes :=
  if is_empty req_topic then cfg_topic else req_topic.

(* kafkaproducer.go:92-115 *)
Definition produce_tm (cfg_topic topic msg : bytes) : pres :=
  let d := dest_topic cfg_topic topic in
  if is_empty d then {| p_result_nil := true; p_err := e_topic; p_records := [] |}
  else {| p_result_nil := true; p_err := e_none; p_records := [(d, msg)] |}.

Definition produce (cfg_topic : bytes) (p : preq) : pres :=
  match p with
  | PWrong _ => {| p_result_nil := true; p_err := e_type; p_records := [] |}
  | PSimple topic msg | PCustom topic msg => produce_tm cfg_topic topic msg
  end.

(* ---------- error reports ---------- *)

(* an event payload as json.Marshal sees it *)
Inductive upay :=
  | UType                 (* unsupported type (chan, func): *json.UnsupportedTypeError *)
  | UValue (str : bytes)  (* unsupported value (NaN, +Inf, -Inf): *json.UnsupportedValueError{Str} *)
  | UMarsh.               (* a json.Marshaler that fails with an errors.New error: *json.MarshalerError *)
Inductive payload :=
  | PJson (j : tree)      (* marshals to this JSON value *)
  | PUn (u : upay).

Inductive info := IJson (j : tree) | IBad.    (* FBError.ErrorInfo: marshalable or not (IBad: a chan) *)

(* the error in the report *)
Inductive errk :=
  | EPlain (text : bytes)                              (* errors.New(text) *)
  | EWrap (ctx : bytes) (inner : errk)                 (* fmt.Errorf(ctx + ": %w", inner) *)
  | EFB (code msg : bytes) (i : option info)           (* firebolt.FBError value *)
  | EFBPtr (code msg : bytes)                          (* *firebolt.FBError (the type assertion in MarshalJSON fails) *)
  | ENil.                                              (* nil error: MarshalJSON dereferences it *)

(* the EventError value.  form = true: as node.handleFailure builds it (node/node.go:284-287): Event is
   the *firebolt.Event, Timestamp zero.  form = false: as NewEventError builds it (error.go:19-25):
   Event is the payload itself, Timestamp the event's Created. *)
Record report := { r_form : bool; r_recovery : bool; r_payload : payload; r_err : errk }.

Inductive ereq :=
  | RReport (r : report)
  | RWrong (k : Z).      (* payload is not a firebolt.EventError value (pointer to one, string, nil, ProduceRequest) *)

(* Error() text.  FBError.Error (error.go:77-79) = code ": " msg *)
Fixpoint err_text (e : errk) : bytes :=
  match e with
  | EPlain t => t
  | EWrap c i => c ++ s_colon_sp ++ err_text i
  | EFB c m _ | EFBPtr c m => c ++ s_colon_sp ++ m
  | ENil => []
  end.

(* error.go:29-47 with the json tags of FBError (error.go:50-54); members sorted by key *)
Definition is_jnull (j : tree) : bool := match j with T [L 0] => true | _ => false end.
(* `json:"errorinfo,omitempty"` on an interface{} omits exactly the nil interface: WithInfo(nil) is "no info",
   while "" / 0 / false / {} are kept *)
Definition error_json (e : errk) : option tree :=      (* None: not marshalable (errorinfo) *)
  match e with
  | EFB c m None => Some (jobj [(k_code, jstr c); (k_message, jstr m)])
  | EFB c m (Some (IJson j)) =>
      if is_jnull j then Some (jobj [(k_code, jstr c); (k_message, jstr m)])
      else Some (jobj [(k_code, jstr c); (k_errorinfo, j); (k_message, jstr m)])
  | EFB c m (Some IBad) => None
  | _ => Some (jobj [(k_code, jstr s_err_unknown); (k_message, jstr (err_text e))])
  end.

(* how encoding/json renders the marshal error that errorproducer.go:30 stores into the event field:
   a *json.MarshalerError{Type, Err} whose Err is the cause; reflect.Type / reflect.Value / errorString
   have no exported fields and render as {} *)
Definition merr_json (u : upay) : tree :=
  let cause := match u with
               | UType => jobj [(k_Type, jempty)]
               | UValue s => jobj [(k_Str, jstr s); (k_Value, jempty)]
               | UMarsh => jobj [(k_Err, jempty); (k_Type, jempty)]
               end in
  jobj [(k_Err, cause); (k_Type, jempty)].

(* the "event" member when the payload marshals *)
Definition event_json (form recovery : bool) (j : tree) : tree :=
  if form then jobj [(k_created, jtime); (k_payload, j); (k_recovery, jbool recovery)] else j.

Definition report_obj (ev err : tree) : tree :=
  jobj [(k_error, err); (k_event, ev); (k_timestamp, jtime)].

Inductive rvalue := RJson (j : tree) | REmpty | RPanic.

(* errorproducer.go:26-33 *)
Definition report_value (r : report) : rvalue :=
  match r_err r with
  | ENil => RPanic                                   (* error.go:35 ee.Err.Error() on a nil interface *)
  | e =>
    match r_payload r, error_json e with
    | PJson j, Some ej => RJson (report_obj (event_json (r_form r) (r_recovery r) j) ej)
    | PUn u, Some ej => RJson (report_obj (merr_json u) ej)      (* second Marshal, event := the marshal error *)
    | _, None => REmpty                              (* both Marshal calls fail; errBytes stays nil *)
    end
  end.

Record eres := {
  x_panic : bool;
  x_result_nil : bool;
  x_err : Z;
  x_records : list (bytes * tree);        (* (topic, value parsed as JSON) *)
}.

(* errorproducer.go:18-40: the bytes go through KafkaProducer.Process as a SimpleProduceRequest without topic *)
Definition error_report (cfg_topic : bytes) (q : ereq) : eres :=
  match q with
  | RWrong _ => {| x_panic := false; x_result_nil := true; x_err := e_type; x_records := [] |}
  | RReport r =>
      match report_value r with
      | RPanic => {| x_panic := true; x_result_nil := true; x_err := e_none; x_records := [] |}
      | v =>
          if is_empty cfg_topic
          then {| x_panic := false; x_result_nil := true; x_err := e_topic; x_records := [] |}
          else {| x_panic := false; x_result_nil := true; x_err := e_none;
                  x_records := [(cfg_topic, match v with RJson j => j | _ => jbad end)] |}
      end
  end.
