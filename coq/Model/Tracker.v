(* E3 — model of node/kafkaconsumer/recoverytracker.go (definitions only).

   tstate mirrors map[int32]*RecoveryRequests: an association list from
   partition to the ordered list of (from,to) requests.  An entry with an empty
   list is different from no entry (Go keeps the *RecoveryRequests value). The
   order of entries is first-touch order; Go's map has no order, so the
   harness canonicalises (sorts by partition) wherever Go iterates the map. *)
From Coq Require Import List ZArith Bool.
Import ListNotations.
Open Scope Z_scope.

Definition req := (Z * Z)%type.                    (* FromOffset, ToOffset *)
Definition tstate := list (Z * list req).
Definition bcast := (Z * list req)%type.           (* one SendMessage: key = partition, payload = full snapshot *)

Fixpoint lookup (p : Z) (s : tstate) : option (list req) :=
  match s with
  | [] => None
  | (q, rs) :: s' => if q =? p then Some rs else lookup p s'
  end.

Fixpoint set (p : Z) (v : list req) (s : tstate) : tstate :=
  match s with
  | [] => [(p, v)]
  | (q, rs) :: s' => if q =? p then (q, v) :: s' else (q, rs) :: set p v s'
  end.

(* recoverytracker.go:88 *)
Definition overlaps (f t : Z) (r : req) : bool := (f <=? snd r) && (fst r <=? t).
Definition widen (f t : Z) (r : req) : req :=
  if overlaps f t r then (Z.min f (fst r), Z.max t (snd r)) else r.

(* GetRecoveryRequest: the first request of the partition, if any *)
Definition get (s : tstate) (p : Z) : option req :=
  match lookup p s with Some (r :: _) => Some r | _ => None end.

(* Every operation returns: new state, error flag, broadcasts (in order). *)
Record tres := { ts : tstate; terr : bool; tout : list bcast }.

(* AddRecoveryRequest (recoverytracker.go:72-109); SendMessage never fails in the model
   (the recording context of the harness returns nil) *)
Definition add (s : tstate) (p f t : Z) : tres :=
  let rs := match lookup p s with Some rs => rs | None => [] end in
  let rs' := if existsb (overlaps f t) rs then map (widen f t) rs else rs ++ [(f, t)] in
  {| ts := set p rs' s; terr := false; tout := [(p, rs')] |}.

(* UpdateRecoveryRequest (recoverytracker.go:112-134) *)
Definition update (s : tstate) (p f t : Z) : tres :=
  match lookup p s with
  | Some ((f0, t0) :: rest) =>
      if t0 =? t then
        let rs' := (f, t0) :: rest in
        {| ts := set p rs' s; terr := false; tout := [(p, rs')] |}
      else {| ts := s; terr := true; tout := [] |}
  | _ => {| ts := s; terr := true; tout := [] |}
  end.

(* MarkRecoveryComplete (recoverytracker.go:147-178) *)
Definition complete (s : tstate) (p t : Z) : tres :=
  match lookup p s with
  | None => {| ts := s; terr := true; tout := [] |}
  | Some rs =>
      if existsb (fun r => snd r =? t) rs then
        let rs' := filter (fun r => negb (snd r =? t)) rs in
        {| ts := set p rs' s; terr := false; tout := [(p, rs')] |}
      else {| ts := s; terr := true; tout := [] |}
  end.

(* cancelAll (recoverytracker.go:187-201): every entry becomes empty and is broadcast.
   Go iterates the map in random order: the harness sorts these broadcasts by key,
   and so does [canon_out] below. *)
Definition cancel_all (s : tstate) : tres :=
  {| ts := map (fun e => (fst e, [])) s; terr := false;
     tout := map (fun e => (fst e, [])) s |}.

(* receiveRequest (recoverytracker.go:223-242) with a well-formed key and payload:
   the partition's entry is REPLACED by the decoded snapshot *)
Definition receive (s : tstate) (p : Z) (rs : list req) : tstate := set p rs s.

Inductive top :=
| Add (p f t : Z) | Update (p f t : Z) | Complete (p t : Z) | CancelAll
| Receive (p : Z) (rs : list req)
| ReceiveGarbage.            (* undecodable payload: ignored (recoverytracker.go:234-237) *)

Definition tstep (s : tstate) (o : top) : tres :=
  match o with
  | Add p f t => add s p f t
  | Update p f t => update s p f t
  | Complete p t => complete s p t
  | CancelAll => cancel_all s
  | Receive p rs => {| ts := receive s p rs; terr := false; tout := [] |}
  | ReceiveGarbage => {| ts := s; terr := false; tout := [] |}
  end.

Fixpoint trun (s : tstate) (ops : list top) : tstate * list (bool * list bcast) :=
  match ops with
  | [] => (s, [])
  | o :: ops' =>
      let r := tstep s o in
      let '(s', outs) := trun (ts r) ops' in
      (s', (terr r, tout r) :: outs)
  end.

(* cover: x is wanted for partition p *)
Definition in_req (x : Z) (r : req) : bool := (fst r <=? x) && (x <? snd r).
Definition covered (s : tstate) (p x : Z) : bool :=
  match lookup p s with Some rs => existsb (in_req x) rs | None => false end.
