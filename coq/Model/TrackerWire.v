(* E3 — the message-level entry points of the recovery tracker (definitions only).

   Model/Tracker.v carries the tracker proper (add / update / complete / cancel_all /
   receive on decoded values).  This file adds what sits between a firebolt message
   and those functions:
     * KafkaConsumer.Receive (node/kafkaconsumer/kafkaconsumer.go:414-432): dispatch on
       the message type, acknowledgement of a cancel-all message;
     * receiveRequest's key handling (recoverytracker.go:227-241): strconv.Atoi on the
       key, the error only logged (the value Atoi returned with the error is used),
       then the conversion int -> int32;
     * receiveRequest's payload handling (recoverytracker.go:232-237): an undecodable
       payload is ignored.  Decoding itself is encoding/json's (an oracle: the case
       says whether the payload decodes and to which (from,to) list; the harness
       produces the bytes and the real code decodes them).
   and the replica side (a second instance applying broadcasts). *)
From Coq Require Import List ZArith Bool.
From FB Require Import Model.Tracker.
Import ListNotations.
Open Scope Z_scope.

(* ---------- names for parts of Tracker.add / complete (used by specs and proofs) ---------- *)
Definition lk (p : Z) (s : tstate) : list req := match lookup p s with Some rs => rs | None => [] end.
(* the list after filing [f,t): recoverytracker.go:84-107 *)
Definition merged (f t : Z) (rs : list req) : list req :=
  if existsb (overlaps f t) rs then map (widen f t) rs else rs ++ [(f, t)].
Definition ends_at (t : Z) (r : req) : bool := snd r =? t.
(* the partition an operation addresses / overwrites with a received snapshot *)
Definition op_part (o : top) : option Z :=
  match o with
  | Add p _ _ | Update p _ _ | Complete p _ | Receive p _ => Some p
  | CancelAll | ReceiveGarbage => None
  end.
Definition recv_part (o : top) : option Z := match o with Receive p _ => Some p | _ => None end.

(* ---------- strconv.Atoi followed by int32(...) ---------- *)
Definition is_digit (c : Z) : bool := (48 <=? c) && (c <=? 57).

(* strconv.ParseUint(s, 10, 64) on the digits: [None] = syntax error; a value >= 2^64
   = range error, detected at the digit that overflows (the rest is NOT inspected,
   strconv/atoi.go: "return maxVal, rangeError").  Atoi's fast path (fewer than 19
   bytes) computes the same value and cannot overflow. *)
Fixpoint digits_val (acc : Z) (l : list Z) : option Z :=
  match l with
  | [] => Some acc
  | c :: l' =>
      if is_digit c then
        let n := acc * 10 + (c - 48) in
        if 2 ^ 64 <=? n then Some n else digits_val n l'
      else None
  end.

(* optional sign, then at least one digit *)
Definition parse_int (s : list Z) : option Z :=
  match s with
  | [] => None
  | c :: r =>
      if c =? 45 then match r with [] => None | _ => option_map Z.opp (digits_val 0 r) end
      else if c =? 43 then match r with [] => None | _ => digits_val 0 r end
      else digits_val 0 s
  end.

(* ParseInt clamps to the int64 range on a range error; int32(x) keeps the low 32 bits *)
Definition clamp64 (v : Z) : Z := Z.max (- 2 ^ 63) (Z.min (2 ^ 63 - 1) v).
Definition wrap32 (v : Z) : Z := (v + 2 ^ 31) mod 2 ^ 32 - 2 ^ 31.

(* the partition receiveRequest files a snapshot under: a key that is not a number
   goes to partition 0 (Atoi returns 0 with the syntax error, which is only logged) *)
Definition atoi_key (s : list Z) : Z :=
  match parse_int s with
  | Some v => wrap32 (clamp64 v)
  | None => 0
  end.

(* ---------- KafkaConsumer.Receive ---------- *)
(* message types: 0 = "recoveryrequest", 1 = "recoverycancelall", anything else = unexpected *)
Inductive xop :=
| XAdd (p f t : Z) | XUpdate (p f t : Z) | XComplete (p t : Z)
| XMsg (mt : Z) (key : list Z) (payload : option (list req)).   (* None = json.Unmarshal fails *)

(* which tracker operation a call amounts to; None = Receive returns an error, nothing happens *)
Definition lower (o : xop) : option top :=
  match o with
  | XAdd p f t => Some (Add p f t)
  | XUpdate p f t => Some (Update p f t)
  | XComplete p t => Some (Complete p t)
  | XMsg mt key pl =>
      if mt =? 0 then
        Some (match pl with Some rs => Receive (atoi_key key) rs | None => ReceiveGarbage end)
      else if mt =? 1 then Some CancelAll
      else None
  end.

Record xres := { xs : tstate; xerr : bool; xout : list bcast; xack : bool }.

Definition is_cancel (o : xop) : bool :=
  match o with XMsg mt _ _ => mt =? 1 | _ => false end.

Definition xstep (s : tstate) (o : xop) : xres :=
  match lower o with
  | Some t => let r := tstep s t in
              {| xs := ts r; xerr := terr r; xout := tout r; xack := is_cancel o |}
  | None => {| xs := s; xerr := true; xout := []; xack := false |}
  end.

(* run a history; the per-step results in order *)
Fixpoint xrun (s : tstate) (ops : list xop) : tstate * list xres :=
  match ops with
  | [] => (s, [])
  | o :: ops' =>
      let r := xstep s o in
      let '(s', rs) := xrun (xs r) ops' in
      (s', r :: rs)
  end.

(* the partition a call overwrites with a received snapshot *)
Definition recv_key (o : xop) : option Z :=
  match o with
  | XMsg mt key (Some _) => if mt =? 0 then Some (atoi_key key) else None
  | _ => None
  end.

(* ---------- the replica side ---------- *)
(* a second instance applying broadcast messages in order (receiveRequest on each) *)
Definition apply_all (r : tstate) (msgs : list bcast) : tstate :=
  fold_left (fun s b => receive s (fst b) (snd b)) msgs r.

(* log compaction: only the last message of every key survives, in log order *)
Fixpoint compact (msgs : list bcast) : list bcast :=
  match msgs with
  | [] => []
  | b :: rest =>
      if existsb (fun b' => fst b' =? fst b) rest then compact rest else b :: compact rest
  end.

(* payload of the last message with key p *)
Fixpoint last_bcast (p : Z) (msgs : list bcast) : option (list req) :=
  match msgs with
  | [] => None
  | b :: rest =>
      match last_bcast p rest with
      | Some rs => Some rs
      | None => if fst b =? p then Some (snd b) else None
      end
  end.

(* ---------- the other reading of a range ---------- *)
(* E4 recovers the offsets (from, to]; Tracker.in_req reads a request as [from, to).
   The cover theorems are proved for both readings. *)
Definition in_req_oc (x : Z) (r : req) : bool := (fst r <? x) && (x <=? snd r).
Definition covered_oc (s : tstate) (p x : Z) : bool :=
  match lookup p s with Some rs => existsb (in_req_oc x) rs | None => false end.
