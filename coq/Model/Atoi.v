(* E8 — byte-level models of the strconv functions the parameter code relies on
   (Go 1.23, $GOROOT/src/strconv/atoi.go, itoa.go, atob.go), for 64-bit int.
   Strings are lists of bytes ([list Z], each 0..255).  Definitions only. *)
From Coq Require Import List ZArith Bool.
From FB Require Import Model.Literals.
Import ListNotations.
Open Scope Z_scope.

Definition bytes := list Z.

Fixpoint bytes_eqb (a b : bytes) : bool :=
  match a, b with
  | [], [] => true
  | x :: a', y :: b' => (x =? y) && bytes_eqb a' b'
  | _, _ => false
  end.

Definition min_int64 : Z := - 2 ^ 63.
Definition max_int64 : Z := 2 ^ 63 - 1.
Definition int64 (z : Z) : Prop := min_int64 <= z <= max_int64.
Definition int64b (z : Z) : bool := (min_int64 <=? z) && (z <=? max_int64).

Definition is_digit (c : Z) : bool := (48 <=? c) && (c <=? 57).

(* value of a digit string read left to right: n = n*10 + (c - '0') (atoi.go: ParseUint loop / Atoi fast path) *)
Definition dval (acc : Z) (ds : bytes) : Z := fold_left (fun a c => a * 10 + (c - 48)) ds acc.

(* non-empty, decimal digits only (base 10: no underscores, no spaces, no prefixes) *)
Definition digits (ds : bytes) : option Z :=
  match ds with
  | [] => None
  | _ => if forallb is_digit ds then Some (dval 0 ds) else None
  end.

(* strconv.Atoi on a 64-bit platform: optional single '+' / '-', then [digits]; a value outside
   [-2^63, 2^63-1] is an error (ParseInt: !neg && un >= 2^63, neg && un > 2^63; ParseUint overflow) *)
Definition atoi (s : bytes) : option Z :=
  match s with
  | [] => None
  | c :: r =>
      let neg := c =? 45 in
      let ds := if (c =? 45) || (c =? 43) then r else s in
      match digits ds with
      | None => None
      | Some n => let v := if neg then - n else n in
                  if int64b v then Some v else None
      end
  end.

(* decimal digits of n >= 0, most significant first, no leading zeros ("0" for 0); fuel counts digits *)
Fixpoint to_digits (fuel : nat) (n : Z) : bytes :=
  match fuel with
  | O => [48 + n mod 10]          (* not reached when n < 10 ^ (fuel+1) *)
  | S f => if n <? 10 then [48 + n] else to_digits f (n / 10) ++ [48 + n mod 10]
  end.

(* strconv.Itoa = FormatInt(i, 10) *)
Definition itoa (z : Z) : bytes :=
  let a := Z.abs z in
  let d := to_digits (Z.to_nat (Z.log2 a)) a in
  if z <? 0 then 45 :: d else d.

(* strconv.ParseBool: exactly these twelve spellings *)
Definition true_spellings : list bytes := [s_lit1; s_lit_t; s_lit_T; s_lit_true; s_lit_TRUE; s_lit_True].
Definition false_spellings : list bytes := [s_lit0; s_lit_f; s_lit_F; s_lit_false; s_lit_FALSE; s_lit_False].
Definition parse_bool (s : bytes) : option bool :=
  if existsb (bytes_eqb s) true_spellings then Some true
  else if existsb (bytes_eqb s) false_spellings then Some false
  else None.
