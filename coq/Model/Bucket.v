(* E4 / C19 — an ideal token bucket (what golang.org/x/time/rate.Limiter implements; that the real
   limiter is such a bucket is third-party behaviour and is only measured by the harness).
   Time is an integer number of ticks (any unit); the rate is [r] tokens per [den] ticks, so the
   level is kept in units of 1/den token: a full bucket of burst [b] holds [b*den], one emission
   costs [den], [dt] ticks refill [r*dt].  Definitions only. *)
From Coq Require Import List ZArith Bool.
Import ListNotations.
Open Scope Z_scope.

Record bucket := { b_rate : Z; b_den : Z; b_burst : Z }.

Definition cap (b : bucket) : Z := b_burst b * b_den b.

(* level at time [t] when it was [lvl] at time [t0 <= t] and nothing was taken in between *)
Definition level_at (b : bucket) (lvl t0 t : Z) : Z := Z.min (cap b) (lvl + b_rate b * (t - t0)).

(* [admitted_from b lvl t0 ts]: the emission times [ts] (non-decreasing, not before t0) are all
   admitted by the bucket, i.e. at each of them at least one whole token is available *)
Fixpoint admitted_from (b : bucket) (lvl t0 : Z) (ts : list Z) : bool :=
  match ts with
  | [] => true
  | t :: rest =>
      (t0 <=? t) && (b_den b <=? level_at b lvl t0 t)
      && admitted_from b (level_at b lvl t0 t - b_den b) t rest
  end.

(* the limiter starts full (rate.NewLimiter) *)
Definition admitted (b : bucket) (t0 : Z) (ts : list Z) : bool := admitted_from b (cap b) t0 ts.

Definition in_window (s e t : Z) : bool := (s <=? t) && (t <=? e).
Definition count_in (s e : Z) (ts : list Z) : Z := Z.of_nat (length (filter (in_window s e) ts)).

(* --- the limiter as a scheduler (what a caller of Wait experiences) ---------------------------------------------
   [wait_until b lvl t0 t]: the earliest tick >= t at which a whole token is available when the level was [lvl] at
   [t0 <= t] (rate > 0): now if there is one, otherwise after ceil((den - level) / rate) ticks. *)
Definition wait_until (b : bucket) (lvl t0 t : Z) : Z :=
  let l := level_at b lvl t0 t in
  if b_den b <=? l then t else t + (b_den b - l + b_rate b - 1) / b_rate b.

(* records become available at the times [arr] (any order of magnitude, any spacing - "however fast"); the consumer
   handles them one after the other, each emission preceded by one Wait: the emission times *)
Fixpoint schedule (b : bucket) (lvl t0 : Z) (arr : list Z) : list Z :=
  match arr with
  | [] => []
  | a :: rest =>
      let t := wait_until b lvl t0 (Z.max a t0) in
      t :: schedule b (level_at b lvl t0 t - b_den b) t rest
  end.
