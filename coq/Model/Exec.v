(* E1 — scheduled small-step model of the executor network:
     node/node.go      ProcessEvent, handleResult, deliverToChild, handleFailure, invokeProcessorAsync
     executor/executor.go  Execute (main loop, close of the roots, waitTimeout), superviseSource,
                           startWorkers, runNode (close cascade: WaitGroup, ShutdownOnce)
   One [action] is the atomic effect of one synchronisation point of one goroutine; a schedule
   is a [list action]; "for all interleavings, node outcomes, async completion orders" is
   [forall sch].  What a user node answers ([Return], [Callback]), when its Shutdown returns
   and what the source does are chosen by the schedule (oracles, not axioms).
   Definitions only. *)
From Coq Require Import List ZArith Bool Arith.
Import ListNotations.

(* ------------------------------------------------------------------ static network *)
Inductive kind := KSync | KFanout | KAsync.
Inductive role := RRoot | RChild | RHandler.

(* one running node context (node.Context), as built by InitNodeContextHierarchy: disabled
   subtrees are already pruned; children / handler are indices into the table *)
Record ninfo := {
  nid : Z;               (* interned Config.ID *)
  nkind : kind;          (* Context.NodeType *)
  nworkers : nat;        (* Config.Workers *)
  ncap : nat;            (* cap(Ch) = Config.BufferSize *)
  ndisc : bool;          (* Config.DiscardOnFullBuffer *)
  nkids : list nat;      (* Context.Children *)
  nhandler : option nat; (* Context.ErrorHandler *)
  nrole : role;
}.
Definition net := list ninfo.

Definition dummy_info : ninfo :=
  {| nid := 0; nkind := KSync; nworkers := 0; ncap := 0; ndisc := false; nkids := []; nhandler := None; nrole := RChild |}.
Definition info (nt : net) (n : nat) : ninfo := nth n nt dummy_info.

Fixpoint roots_from (i : nat) (nt : net) : list nat :=
  match nt with
  | [] => []
  | x :: rest => match nrole x with RRoot => i :: roots_from (S i) rest | _ => roots_from (S i) rest end
  end.
Definition roots (nt : net) : list nat := roots_from 0 nt.

(* every channel a node sends to: its children, then its error handler *)
Definition targets (x : ninfo) : list nat :=
  nkids x ++ match nhandler x with Some h => [h] | None => [] end.

(* ------------------------------------------------------------------ dynamic state *)
(* what travels in a channel: (event id, error code); error code 0 = an ordinary event,
   non-zero = an error report (firebolt.EventError{Event, Err}) on its way to a handler *)
Definition item := (Z * Z)%type.

Inductive outcome :=
| ORes (es : list Z)     (* success with these results; [] = filtered (nil / empty slice / ReturnFiltered) *)
| OFail (err : Z)        (* returned error / ReturnError *)
| OLater.                (* ProcessAsync returned without having called back *)

Inductive wstate :=
| WIdle                               (* at the select in runNode *)
| WProc (it : item)                   (* inside Process / ProcessAsync *)
| WSend (pend : list (nat * item))    (* in handleResult: deliveries still to make, in order *)
| WSaw                                (* saw the closed, empty channel: WaitGroup.Done done, in WaitGroup.Wait *)
| WWaited                             (* WaitGroup.Wait returned, at ShutdownOnce.Do *)
| WInShut                             (* runs the once-function: inside NodeProcessor.Shutdown() *)
| WClosing                            (* Shutdown returned, about to close children and handler *)
| WExit.                              (* returned from runNode (wg.Done) *)

Inductive ostate := ONone | ORunning | ODone.   (* sync.Once of the node *)

Record nstate := {
  q : list item;          (* buffered channel content, oldest first *)
  closed : bool;
  ws : list wstate;       (* one per worker goroutine *)
  once : ostate;
  inflight : list item;   (* async: inputs handed to ProcessAsync and not yet called back *)
  (* ghost logs *)
  offered : list item;    (* every item ever enqueued into this node's channel, newest first *)
  dropped : list item;    (* every item discarded at this node's full channel, newest first *)
  (* prometheus counters, label = this node's id *)
  c_recv : nat; c_proc : nat; c_filt : nat; c_fail : nat; c_disc : nat;
}.

Inductive mstate :=
| MSelect                              (* at the select on sourceCh *)
| MDeliver (it : item) (rs : list nat) (* copying one source event to the remaining roots *)
| MCloseRoots                          (* source channel closed: about to close the root channels *)
| MWait                                (* in waitTimeout *)
| MDone.                               (* Execute returned *)

Inductive sstate :=
| SRunning (k : nat)     (* incarnation k is inside Start() *)
| SSleeping (k : nat)    (* Start() of incarnation k returned an error; the 10 s pause *)
| SClosed                (* Start() returned nil; sourceCh closed *)
| SDead.                 (* the process has exited: os.Exit(1) in prepareSource *)

(* observable trace (what harness-owned nodes and sources can stamp), newest first *)
Inductive tev :=
| TSetup (n : nat)                              (* node n: Init and Setup called (WithConfig -> setupNodes) *)
| TPrep (k : nat)                               (* source incarnation k created, Init, Setup *)
| TStart (k : nat)                              (* Start() of incarnation k called *)
| TEnd (k : nat) (ok : bool)                    (* Start() of incarnation k returned nil / error *)
| TEmit (e : Z)                                 (* source handed event e to the executor *)
| TEnter (n : nat) (it : item)                  (* Process / ProcessAsync of node n called with it *)
| TRet (n : nat) (it : item) (o : outcome)      (* ... returned *)
| TCb (n : nat) (it : item) (o : outcome)       (* async callback for it fired from a foreign goroutine *)
| TShutBegin (n : nat) | TShutEnd (n : nat)     (* node n's Shutdown() called / returned *)
| TDone (clean : bool)                          (* Execute returned; clean = no shutdown timeout *)
| TPrepFail (k : nat).                          (* Setup of incarnation k returned an error *)

Record state := {
  nodes : list nstate;
  cbs : list (nat * list (nat * item));   (* foreign goroutines inside an async callback of node (fst): deliveries still to make *)
  mn : mstate;
  src : sstate;
  clock : nat;        (* logical time *)
  wstart : nat;       (* clock when waitTimeout was entered *)
  timedout : bool;
  tr : list tev;
}.

Definition dummy_ns : nstate :=
  {| q := []; closed := false; ws := []; once := ONone; inflight := []; offered := []; dropped := [];
     c_recv := 0; c_proc := 0; c_filt := 0; c_fail := 0; c_disc := 0 |}.
Definition node (s : state) (n : nat) : nstate := nth n (nodes s) dummy_ns.

Fixpoint upd {A} (i : nat) (x : A) (l : list A) : list A :=
  match l, i with
  | [], _ => []
  | _ :: t, O => x :: t
  | h :: t, S j => h :: upd j x t
  end.

Definition set_node (s : state) (n : nat) (x : nstate) : state :=
  {| nodes := upd n x (nodes s); cbs := cbs s; mn := mn s; src := src s; clock := clock s;
     wstart := wstart s; timedout := timedout s; tr := tr s |}.
Definition set_cbs (s : state) (c : list (nat * list (nat * item))) : state :=
  {| nodes := nodes s; cbs := c; mn := mn s; src := src s; clock := clock s;
     wstart := wstart s; timedout := timedout s; tr := tr s |}.
Definition set_mn (s : state) (m : mstate) : state :=
  {| nodes := nodes s; cbs := cbs s; mn := m; src := src s; clock := clock s;
     wstart := wstart s; timedout := timedout s; tr := tr s |}.
Definition set_src (s : state) (x : sstate) : state :=
  {| nodes := nodes s; cbs := cbs s; mn := mn s; src := x; clock := clock s;
     wstart := wstart s; timedout := timedout s; tr := tr s |}.
Definition log (s : state) (es : list tev) : state :=
  {| nodes := nodes s; cbs := cbs s; mn := mn s; src := src s; clock := clock s;
     wstart := wstart s; timedout := timedout s; tr := es ++ tr s |}.

Definition set_ws (x : nstate) (w : list wstate) : nstate :=
  {| q := q x; closed := closed x; ws := w; once := once x; inflight := inflight x; offered := offered x;
     dropped := dropped x; c_recv := c_recv x; c_proc := c_proc x; c_filt := c_filt x; c_fail := c_fail x; c_disc := c_disc x |}.
Definition set_worker (x : nstate) (w : nat) (st : wstate) : nstate := set_ws x (upd w st (ws x)).

Definition init_node (x : ninfo) : nstate :=
  {| q := []; closed := false; ws := repeat WIdle (nworkers x); once := ONone; inflight := [];
     offered := []; dropped := []; c_recv := 0; c_proc := 0; c_filt := 0; c_fail := 0; c_disc := 0 |}.

(* WithConfig has prepared source incarnation 0 and set up every node of the table in index order
   (the table is numbered in setupNodes order: node, its handler, its children, preorder);
   Execute has started the source and all workers *)
Definition init (nt : net) : state :=
  {| nodes := map init_node nt; cbs := []; mn := MSelect; src := SRunning 0; clock := 0; wstart := 0;
     timedout := false; tr := TStart 0 :: rev (map TSetup (seq 0 (length nt))) ++ [TPrep 0] |}.

(* ------------------------------------------------------------------ delivery *)
Inductive result := Ok (s : state) | NotEnabled | Panic.

(* one attempt to deliver [it] to node c (deliverToChild for one event):
   room: enqueue; full and discarding: drop and count; full otherwise: the sender stays blocked;
   closed channel: Go panics *)
Inductive sendres := Sent (s : state) | Blocked | SendPanic.

Definition try_send (nt : net) (s : state) (c : nat) (it : item) : sendres :=
  let x := node s c in
  if closed x then SendPanic
  else if length (q x) <? ncap (info nt c) then
    Sent (set_node s c {| q := q x ++ [it]; closed := closed x; ws := ws x; once := once x; inflight := inflight x;
                          offered := it :: offered x; dropped := dropped x; c_recv := c_recv x; c_proc := c_proc x;
                          c_filt := c_filt x; c_fail := c_fail x; c_disc := c_disc x |})
  else if ndisc (info nt c) then
    Sent (set_node s c {| q := q x; closed := closed x; ws := ws x; once := once x; inflight := inflight x;
                          offered := offered x; dropped := it :: dropped x; c_recv := c_recv x; c_proc := c_proc x;
                          c_filt := c_filt x; c_fail := c_fail x; c_disc := S (c_disc x) |})
  else Blocked.

(* handleResult: which deliveries follow from an outcome at node n for input it *)
Definition deliveries (nt : net) (n : nat) (it : item) (o : outcome) : list (nat * item) :=
  match o with
  | ORes es => flat_map (fun c => map (fun e => (c, (e, 0%Z))) es) (nkids (info nt n))
  | OFail err => match nhandler (info nt n) with Some h => [(h, (fst it, err))] | None => [] end
  | OLater => []
  end.

(* one of Successes / Filtered / Failures is incremented per completed event *)
Definition count_outcome (x : nstate) (o : outcome) : nstate :=
  match o with
  | ORes [] => {| q := q x; closed := closed x; ws := ws x; once := once x; inflight := inflight x; offered := offered x;
                  dropped := dropped x; c_recv := c_recv x; c_proc := c_proc x; c_filt := S (c_filt x); c_fail := c_fail x; c_disc := c_disc x |}
  | ORes _ => {| q := q x; closed := closed x; ws := ws x; once := once x; inflight := inflight x; offered := offered x;
                 dropped := dropped x; c_recv := c_recv x; c_proc := S (c_proc x); c_filt := c_filt x; c_fail := c_fail x; c_disc := c_disc x |}
  | OFail _ => {| q := q x; closed := closed x; ws := ws x; once := once x; inflight := inflight x; offered := offered x;
                  dropped := dropped x; c_recv := c_recv x; c_proc := c_proc x; c_filt := c_filt x; c_fail := S (c_fail x); c_disc := c_disc x |}
  | OLater => x
  end.

(* which outcomes a node of a given kind can produce; error code 0 is reserved for "no error" *)
Definition outcome_ok (k : kind) (o : outcome) (callback : bool) : bool :=
  match o with
  | ORes es => match k with KFanout => true | _ => length es <=? 1 end
  | OFail err => negb (err =? 0)%Z
  | OLater => match k with KAsync => negb callback | _ => false end
  end.

Definition item_eqb (a b : item) : bool := ((fst a =? fst b) && (snd a =? snd b))%Z.
Fixpoint remove_one (it : item) (l : list item) : option (list item) :=
  match l with
  | [] => None
  | x :: t => if item_eqb it x then Some t
              else match remove_one it t with Some t' => Some (x :: t') | None => None end
  end.

Definition wpast (w : wstate) : bool :=   (* the worker has seen the closed channel *)
  match w with WIdle | WProc _ | WSend _ => false | _ => true end.
Definition wexit (w : wstate) : bool := match w with WExit => true | _ => false end.
Definition owns (n : nat) (c : nat * list (nat * item)) : bool := fst c =? n.

(* ------------------------------------------------------------------ actions *)
Inductive action :=
(* source supervisor goroutine (superviseSource) and the source itself *)
| SrcEmit (e : Z)          (* rendezvous on the unbuffered sourceCh: main is at its select *)
| SrcReturnNil             (* Start() returns nil: sourceCh is closed *)
| SrcReturnErr             (* Start() returns an error *)
| SrcRestart               (* after the pause: new instance, Init, Setup, Start *)
(* main goroutine (Execute) *)
| MainSend                 (* copy of the source event to the next root: same discard-or-block rule as deliverToChild *)
| MainSeeClosed            (* receives !ok from sourceCh *)
| MainCloseRoots
| MainWgDone               (* waitTimeout: all workers returned *)
| MainTimeout              (* waitTimeout: timer fired *)
| Tick
(* worker w of node n (runNode / ProcessEvent) *)
| Deq (n w : nat)
| Return (n w : nat) (o : outcome)
| SendW (n w : nat)
| SeeClosed (n w : nat)
| LastOut (n w : nat)      (* WaitGroup.Wait returns: every worker of n has seen the closed channel *)
| OnceEnter (n w : nat)    (* first into ShutdownOnce.Do: calls NodeProcessor.Shutdown() *)
| ShutdownReturn (n w : nat)
| CloseKids (n w : nat)    (* closes children's channels, then the handler's; the once completes *)
| OnceSkip (n w : nat)     (* ShutdownOnce.Do returns for a worker that was not first (blocks until the first is done) *)
(* foreign goroutine completing an async event of node n *)
| Callback (n : nat) (it : item) (o : outcome)
| SendC (i : nat)          (* callback thread i makes its next delivery *)
(* Setup of the replacement source fails after the pause: prepareSource calls os.Exit(1).
   The model deliberately OVER-approximates: after [SDead] the other goroutines may still step in the
   model although the real process is gone; that is sound for every safety theorem (the real
   behaviours are a prefix of the model's). *)
| SrcSetupFail.

Definition after_deliveries (pend : list (nat * item)) : wstate :=
  match pend with [] => WIdle | _ => WSend pend end.

Fixpoint close_all (s : state) (cs : list nat) : option state :=
  match cs with
  | [] => Some s
  | c :: rest =>
      let x := node s c in
      if closed x then None      (* close of a closed channel panics *)
      else close_all (set_node s c {| q := q x; closed := true; ws := ws x; once := once x; inflight := inflight x;
                                      offered := offered x; dropped := dropped x; c_recv := c_recv x; c_proc := c_proc x;
                                      c_filt := c_filt x; c_fail := c_fail x; c_disc := c_disc x |}) rest
  end.

Definition set_once (x : nstate) (o : ostate) : nstate :=
  {| q := q x; closed := closed x; ws := ws x; once := o; inflight := inflight x; offered := offered x;
     dropped := dropped x; c_recv := c_recv x; c_proc := c_proc x; c_filt := c_filt x; c_fail := c_fail x; c_disc := c_disc x |}.

Definition all_exited (s : state) : bool := forallb (fun x => forallb wexit (ws x)) (nodes s).

Definition step (nt : net) (T : nat) (s : state) (a : action) : result :=
  match a with
  | SrcEmit e =>
      match src s, mn s with
      | SRunning _, MSelect =>
          Ok (log (set_mn s (match roots nt with [] => MSelect | rs => MDeliver (e, 0%Z) rs end)) [TEmit e])
      | _, _ => NotEnabled
      end
  | SrcReturnNil =>
      match src s with SRunning k => Ok (log (set_src s SClosed) [TEnd k true]) | _ => NotEnabled end
  | SrcReturnErr =>
      match src s with SRunning k => Ok (log (set_src s (SSleeping k)) [TEnd k false]) | _ => NotEnabled end
  | SrcRestart =>
      match src s with
      | SSleeping k => Ok (log (set_src s (SRunning (S k))) [TStart (S k); TPrep (S k)])
      | _ => NotEnabled
      end
  | MainSend =>
      match mn s with
      | MDeliver it (r :: rs) =>
          match try_send nt s r it with
          | Sent s' => Ok (set_mn s' (match rs with [] => MSelect | _ => MDeliver it rs end))
          | Blocked => NotEnabled
          | SendPanic => Panic
          end
      | _ => NotEnabled
      end
  | MainSeeClosed =>
      match mn s, src s with MSelect, SClosed => Ok (set_mn s MCloseRoots) | _, _ => NotEnabled end
  | MainCloseRoots =>
      match mn s with
      | MCloseRoots =>
          match close_all s (roots nt) with
          | Some s' => Ok {| nodes := nodes s'; cbs := cbs s'; mn := MWait; src := src s'; clock := clock s';
                             wstart := clock s'; timedout := timedout s'; tr := tr s' |}
          | None => Panic
          end
      | _ => NotEnabled
      end
  | MainWgDone =>
      match mn s with
      | MWait => if all_exited s then Ok (log (set_mn s MDone) [TDone true]) else NotEnabled
      | _ => NotEnabled
      end
  | MainTimeout =>
      match mn s with
      | MWait => if wstart s + T <=? clock s
                 then Ok (log {| nodes := nodes s; cbs := cbs s; mn := MDone; src := src s; clock := clock s;
                                 wstart := wstart s; timedout := true; tr := tr s |} [TDone false])
                 else NotEnabled
      | _ => NotEnabled
      end
  | Tick => Ok {| nodes := nodes s; cbs := cbs s; mn := mn s; src := src s; clock := S (clock s);
                  wstart := wstart s; timedout := timedout s; tr := tr s |}
  | Deq n w =>
      let x := node s n in
      match nth_error (ws x) w, q x with
      | Some WIdle, it :: rest =>
          Ok (log (set_node s n {| q := rest; closed := closed x; ws := upd w (WProc it) (ws x); once := once x;
                                   inflight := inflight x; offered := offered x; dropped := dropped x;
                                   c_recv := S (c_recv x); c_proc := c_proc x; c_filt := c_filt x;
                                   c_fail := c_fail x; c_disc := c_disc x |}) [TEnter n it])
      | _, _ => NotEnabled
      end
  | Return n w o =>
      let x := node s n in
      match nth_error (ws x) w with
      | Some (WProc it) =>
          if outcome_ok (nkind (info nt n)) o false then
            match o with
            | OLater =>
                Ok (log (set_node s n {| q := q x; closed := closed x; ws := upd w WIdle (ws x); once := once x;
                                         inflight := it :: inflight x; offered := offered x; dropped := dropped x;
                                         c_recv := c_recv x; c_proc := c_proc x; c_filt := c_filt x;
                                         c_fail := c_fail x; c_disc := c_disc x |}) [TRet n it o])
            | _ =>
                Ok (log (set_node s n (set_worker (count_outcome x o) w (after_deliveries (deliveries nt n it o))))
                        [TRet n it o])
            end
          else NotEnabled
      | _ => NotEnabled
      end
  | SendW n w =>
      let x := node s n in
      match nth_error (ws x) w with
      | Some (WSend ((c, it) :: rest)) =>
          match try_send nt s c it with
          | Sent s' => Ok (set_node s' n (set_worker (node s' n) w (after_deliveries rest)))
          | Blocked => NotEnabled
          | SendPanic => Panic
          end
      | _ => NotEnabled
      end
  | SeeClosed n w =>
      let x := node s n in
      match nth_error (ws x) w, q x with
      | Some WIdle, [] => if closed x then Ok (set_node s n (set_worker x w WSaw)) else NotEnabled
      | _, _ => NotEnabled
      end
  | LastOut n w =>
      let x := node s n in
      match nth_error (ws x) w with
      | Some WSaw => if forallb wpast (ws x) then Ok (set_node s n (set_worker x w WWaited)) else NotEnabled
      | _ => NotEnabled
      end
  | OnceEnter n w =>
      let x := node s n in
      match nth_error (ws x) w, once x with
      | Some WWaited, ONone => Ok (log (set_node s n (set_worker (set_once x ORunning) w WInShut)) [TShutBegin n])
      | _, _ => NotEnabled
      end
  | ShutdownReturn n w =>
      let x := node s n in
      match nth_error (ws x) w with
      | Some WInShut =>
          (* node contract (docs/async-nodes.md): Shutdown returns only after every accepted event has been
             called back and those callbacks have returned *)
          match inflight x with
          | [] => if existsb (owns n) (cbs s) then NotEnabled
                  else Ok (log (set_node s n (set_worker x w WClosing)) [TShutEnd n])
          | _ => NotEnabled
          end
      | _ => NotEnabled
      end
  | CloseKids n w =>
      let x := node s n in
      match nth_error (ws x) w with
      | Some WClosing =>
          match close_all s (targets (info nt n)) with
          | Some s' => Ok (set_node s' n (set_worker (set_once (node s' n) ODone) w WExit))
          | None => Panic
          end
      | _ => NotEnabled
      end
  | OnceSkip n w =>
      let x := node s n in
      match nth_error (ws x) w, once x with
      | Some WWaited, ODone => Ok (set_node s n (set_worker x w WExit))
      | _, _ => NotEnabled
      end
  | Callback n it o =>
      let x := node s n in
      match remove_one it (inflight x) with
      | Some rest =>
          if outcome_ok (nkind (info nt n)) o true then
            let x' := count_outcome {| q := q x; closed := closed x; ws := ws x; once := once x; inflight := rest;
                                       offered := offered x; dropped := dropped x; c_recv := c_recv x;
                                       c_proc := c_proc x; c_filt := c_filt x; c_fail := c_fail x; c_disc := c_disc x |} o in
            let s' := set_node s n x' in
            Ok (log (match deliveries nt n it o with
                     | [] => s'
                     | pend => set_cbs s' (cbs s' ++ [(n, pend)])
                     end) [TCb n it o])
          else NotEnabled
      | None => NotEnabled
      end
  | SendC i =>
      match nth_error (cbs s) i with
      | Some (n, (c, it) :: rest) =>
          match try_send nt s c it with
          | Sent s' =>
              Ok (set_cbs s' (match rest with
                              | [] => firstn i (cbs s') ++ skipn (S i) (cbs s')
                              | _ => upd i (n, rest) (cbs s')
                              end))
          | Blocked => NotEnabled
          | SendPanic => Panic
          end
      | _ => NotEnabled
      end
  | SrcSetupFail =>
      match src s with SSleeping k => Ok (log (set_src s SDead) [TPrepFail (S k)]) | _ => NotEnabled end
  end.

Fixpoint run (nt : net) (T : nat) (s : state) (sch : list action) : result :=
  match sch with
  | [] => Ok s
  | a :: rest => match step nt T s a with Ok s' => run nt T s' rest | r => r end
  end.
