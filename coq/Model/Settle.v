(* E1 — running the model against gated scenarios (lockstep correspondence).
   [flatten]: config tree -> running network (InitNodeContextHierarchy / WithConfig).
   [settle]: fire enabled INTERNAL actions in a canonical order until none is enabled.
   [snapshot]: what the harness can observe of a quiescent executor without hooks.
   [resolve]/[play]: scenario intents -> concrete commands + predicted snapshots.
   Definitions only. *)
From Coq Require Import List ZArith Bool Arith.
From FB Require Import Lib.Sexp Model.Exec.
Import ListNotations.
Local Open Scope nat_scope.

(* ------------------------------------------------------------------ configuration trees *)
Record hcfg := { h_id : Z; h_kind : kind; h_workers : nat; h_buf : nat; h_disc : bool }.
Inductive cfg :=
  Cfg (id : Z) (k : kind) (workers buf : nat) (disabled disc : bool) (kids : list cfg) (h : option hcfg).

(* numbering: a node gets the next free index, then its handler, then its enabled children
   (preorder) — the order in which setupNodes visits them (executor.go:299-317) *)
Fixpoint size (c : cfg) : nat :=
  match c with
  | Cfg _ _ _ _ disabled _ kids h =>
      if disabled then 0
      else 1 + (match h with Some _ => 1 | None => 0 end)
           + (fix go (l : list cfg) : nat := match l with [] => 0 | x :: r => size x + go r end) kids
  end.

Fixpoint kid_indices (base : nat) (kids : list cfg) : list nat :=
  match kids with
  | [] => []
  | c :: rest => match c with
                 | Cfg _ _ _ _ disabled _ _ _ =>
                     if disabled then kid_indices base rest else base :: kid_indices (base + size c) rest
                 end
  end.

Fixpoint flat (r : role) (base : nat) (c : cfg) : net :=
  match c with
  | Cfg id k workers buf disabled disc kids h =>
      if disabled then []
      else
        let hn := match h with Some _ => 1 | None => 0 end in
        let kbase := base + 1 + hn in
        {| nid := id; nkind := k; nworkers := workers; ncap := buf; ndisc := disc;
           nkids := kid_indices kbase kids;
           nhandler := match h with Some _ => Some (base + 1) | None => None end; nrole := r |}
        :: (match h with
            | Some x => [{| nid := h_id x; nkind := h_kind x; nworkers := h_workers x; ncap := h_buf x;
                            ndisc := h_disc x; nkids := []; nhandler := None; nrole := RHandler |}]
            | None => []
            end)
        ++ (fix go (b : nat) (l : list cfg) : net :=
              match l with [] => [] | x :: rest => flat RChild b x ++ go (b + size x) rest end) kbase kids
  end.

Fixpoint flatten_from (base : nat) (roots : list cfg) : net :=
  match roots with
  | [] => []
  | c :: rest => flat RRoot base c ++ flatten_from (base + size c) rest
  end.
Definition flatten (roots : list cfg) : net := flatten_from 0 roots.

(* ------------------------------------------------------------------ settle *)
Definition internal_actions_node (n : nat) (nw : nat) : list action :=
  flat_map (fun w => [SendW n w; Deq n w; SeeClosed n w; LastOut n w; OnceEnter n w;
                      ShutdownReturn n w; CloseKids n w; OnceSkip n w]) (seq 0 nw).

(* the source actions (SrcEmit, SrcReturnNil, SrcReturnErr, SrcRestart, SrcSetupFail) are external: never taken here *)
Definition candidates (nt : net) (s : state) : list action :=
  [MainSend; MainSeeClosed; MainCloseRoots; MainWgDone]
  ++ map SendC (seq 0 (length (cbs s)))
  ++ flat_map (fun n => internal_actions_node n (nworkers (info nt n))) (seq 0 (length nt)).

Inductive sres := SOk (s : state) | SPanic | SFuel.

Fixpoint first_enabled (nt : net) (T : nat) (s : state) (l : list action) : option result :=
  match l with
  | [] => None
  | a :: rest => match step nt T s a with
                 | NotEnabled => first_enabled nt T s rest
                 | r => Some r
                 end
  end.

Fixpoint settle (fuel : nat) (nt : net) (T : nat) (s : state) : sres :=
  match fuel with
  | O => SFuel
  | S f => match first_enabled nt T s (candidates nt s) with
           | None => SOk s
           | Some (Ok s') => settle f nt T s'
           | Some _ => SPanic
           end
  end.

(* the same with the opposite priority among enabled internal actions: used to DETECT order sensitivity case by
   case (Play.v stops a scenario whose two settlings show different snapshots) *)
Fixpoint settle_rev (fuel : nat) (nt : net) (T : nat) (s : state) : sres :=
  match fuel with
  | O => SFuel
  | S f => match first_enabled nt T s (rev (candidates nt s)) with
           | None => SOk s
           | Some (Ok s') => settle_rev f nt T s'
           | Some _ => SPanic
           end
  end.

(* ------------------------------------------------------------------ snapshot *)
Fixpoint insert_item (x : item) (l : list item) : list item :=
  match l with
  | [] => [x]
  | y :: r => if ((fst x <? fst y) || ((fst x =? fst y) && (snd x <=? snd y)))%Z then x :: l else y :: insert_item x r
  end.
Definition sort_items (l : list item) : list item := fold_right insert_item [] l.

Definition at_gate (x : nstate) : list item :=
  sort_items (flat_map (fun w => match w with WProc it => [it] | _ => [] end) (ws x)).
Definition shut_begun (x : nstate) : bool := match once x with ONone => false | _ => true end.
Definition shut_ended (x : nstate) : bool :=
  match once x with
  | ODone => true
  | ORunning => existsb (fun w => match w with WClosing => true | _ => false end) (ws x)
  | ONone => false
  end.

Definition enc_item (it : item) : tree := T [L (fst it); L (snd it)].
Definition snap_node (x : nstate) : tree :=
  T [ ofNat (length (q x)); ofList enc_item (at_gate x); ofList enc_item (sort_items (inflight x));
      T [ofNat (c_recv x); ofNat (c_proc x); ofNat (c_filt x); ofNat (c_fail x)]; ofNat (c_disc x);
      T [ofB (shut_begun x); ofB (shut_ended x)] ].
Definition main_code (s : state) : Z :=
  match mn s with MDone => if timedout s then 2 else 1 | _ => 0 end%Z.
Definition src_code (s : state) : tree :=
  match src s with SRunning k => T [L 0; ofNat k] | SSleeping k => T [L 1; ofNat k] | SClosed => T [L 2; L 0]
  | SDead => T [L 3; L 0] end%Z.
Definition snapshot (s : state) : tree :=
  T [ ofList snap_node (nodes s); L (main_code s); src_code s ].

(* ------------------------------------------------------------------ ambiguity *)
(* senders currently waiting on a full channel, by target *)
Definition head_target (pend : list (nat * item)) : list nat :=
  match pend with (c, _) :: _ => [c] | [] => [] end.
Definition blocked_targets (s : state) : list nat :=
  (match mn s with MDeliver _ (r :: _) => [r] | _ => [] end)
  ++ flat_map (fun c => head_target (snd c)) (cbs s)
  ++ flat_map (fun x => flat_map (fun w => match w with WSend p => head_target p | _ => [] end) (ws x)) (nodes s).
Fixpoint has_dup (l : list nat) : bool :=
  match l with [] => false | x :: r => existsb (Nat.eqb x) r || has_dup r end.
(* two senders wait for the same channel: which of them gets the next free slot is Go's choice *)
Definition ambiguous_blocked (s : state) : bool := has_dup (blocked_targets s).

(* a burst towards a discarding node that has (or gets) a free worker and not enough room: Go may
   drop an event the worker was about to make room for.  [pre] is the quiescent state before the
   command, [post] the state after settling, [rel] the node whose gate the command released (if any):
   ambiguous when some discarding node with an idle worker at [pre] (or the released node itself)
   was sent more items during the settle than it had room for at [pre]. *)
Definition idle_workers (x : nstate) : nat :=
  length (filter (fun w => match w with WIdle => true | _ => false end) (ws x)).
Definition sent_total (x : nstate) : nat := length (offered x) + length (dropped x).
Definition ambiguous_discard (nt : net) (pre post : state) (rel : option nat) : bool :=
  existsb (fun c => ndisc (info nt c)
                    && ((0 <? idle_workers (node pre c)) || match rel with Some r => r =? c | None => false end)
                    && (ncap (info nt c) - length (q (node pre c)) <? sent_total (node post c) - sent_total (node pre c)))
          (seq 0 (length nt)).
