(* E1 — statements of the invariants of the executor model (definitions only; the proofs are in
   Proofs/ExecBase.v, ExecCount.v, ExecLife.v, ExecSpec.v).  Everything is stated for EVERY state
   reachable by ANY schedule: [reachable nt T s := exists sch, run nt T (init nt) sch = Ok s]. *)
From Coq Require Import List ZArith Bool Arith.
From FB Require Import Model.Exec Model.TraceSpec.
Import ListNotations.
Local Open Scope nat_scope.

Definition reachable (nt : net) (T : nat) (s : state) : Prop := exists sch, run nt T (init nt) sch = Ok s.

(* ---------------- well-formed networks ---------------- *)
Fixpoint nodup_nat (l : list nat) : bool :=
  match l with [] => true | x :: r => negb (existsb (Nat.eqb x) r) && nodup_nat r end.
(* every delivery target is a node of the table; a node is fed by at most one node (and a root by none) *)
Definition wf_net (nt : net) : bool :=
  forallb (fun x => forallb (fun c => c <? length nt) (targets x)) nt
  && nodup_nat (roots nt ++ flat_map targets nt).

(* ---------------- sums ---------------- *)
Fixpoint sumf {A} (f : A -> nat) (l : list A) : nat :=
  match l with [] => 0 | x :: r => f x + sumf f r end.

Definition pair_is (c : nat) (x : item) (p : nat * item) : bool := (fst p =? c) && item_eqb (snd p) x.
Definition cnt_pair (c : nat) (x : item) (l : list (nat * item)) : nat := length (filter (pair_is c x) l).
Definition cnt_nat (c : nat) (l : list nat) : nat := length (filter (Nat.eqb c) l).

(* deliveries of item x to node c that some goroutine has decided on but not yet made *)
Definition wpend (c : nat) (x : item) (w : wstate) : nat :=
  match w with WSend p => cnt_pair c x p | _ => 0 end.
Definition pend_workers (c : nat) (x : item) (s : state) : nat :=
  sumf (fun ns => sumf (wpend c x) (ws ns)) (nodes s).
Definition pend_cbs (c : nat) (x : item) (s : state) : nat :=
  sumf (fun cb => cnt_pair c x (snd cb)) (cbs s).
Definition pend_main (c : nat) (x : item) (s : state) : nat :=
  match mn s with MDeliver it rs => if item_eqb it x then cnt_nat c rs else 0 | _ => 0 end.
Definition pending (c : nat) (x : item) (s : state) : nat :=
  pend_workers c x s + pend_cbs c x s + pend_main c x s.

(* deliveries of x to c that the observable trace entitles c to: results of its parent (to a child),
   failure reports of its parent (to a handler), source emissions (to a root) *)
Definition produced_by (nt : net) (c : nat) (x : item) (e : tev) : nat :=
  match e with
  | TRet n it o | TCb n it o => cnt_pair c x (deliveries nt n it o)
  | TEmit v => if item_eqb (v, 0%Z) x then cnt_nat c (roots nt) else 0
  | _ => 0
  end.
Definition produced (nt : net) (c : nat) (x : item) (p : list tev) : nat := sumf (produced_by nt c x) p.

(* ---------------- counting invariants (Proofs/ExecCount.v) ---------------- *)
(* CONS: nothing is lost, duplicated or invented on the way into any channel *)
Definition inv_cons (nt : net) (s : state) : Prop :=
  forall c x, produced nt c x (tr s)
              = count_item x (offered (node s c)) + count_item x (dropped (node s c)) + pending c x s.
(* CHAN: what was enqueued is in the buffer or was handed to the node *)
Definition inv_chan (s : state) : Prop :=
  forall c x, count_item x (offered (node s c)) = count_item x (q (node s c)) + count_item x (entered c (tr s)).
Definition inv_bound (nt : net) (s : state) : Prop :=
  forall c, length (q (node s c)) <= ncap (info nt c).
(* NODROP: only nodes marked discard_on_full_buffer ever drop *)
Definition inv_nodrop (nt : net) (s : state) : Prop :=
  forall c, ndisc (info nt c) = false -> dropped (node s c) = [].
(* CNT: the prometheus counters are exactly the numbers of the corresponding observable events *)
Definition inv_counters (s : state) : Prop :=
  forall n, n < length (nodes s) ->
    let x := node s n in
    c_recv x = length (entered n (tr s)) /\ c_proc x = n_proc n (tr s) /\ c_filt x = n_filt n (tr s)
    /\ c_fail x = n_fail n (tr s) /\ c_disc x = length (dropped x).
(* CALLS: a call that was entered has returned or is still in progress in exactly one worker *)
Definition wproc (x : item) (w : wstate) : nat :=
  match w with WProc it => if item_eqb it x then 1 else 0 | _ => 0 end.
Definition inv_calls (s : state) : Prop :=
  forall n x, count_item x (entered n (tr s)) = count_item x (rets n (tr s)) + sumf (wproc x) (ws (node s n)).
(* FLIGHT: an async event that was deferred has been called back or is still in flight *)
Definition inv_flight (s : state) : Prop :=
  forall n x, count_item x (laters n (tr s)) = count_item x (cbacks n (tr s)) + count_item x (inflight (node s n)).
Definition inv_shape (nt : net) (s : state) : Prop :=
  length (nodes s) = length nt /\ forall n, n < length nt -> length (ws (node s n)) = nworkers (info nt n).

Definition inv_count (nt : net) (s : state) : Prop :=
  inv_cons nt s /\ inv_chan s /\ inv_bound nt s /\ inv_nodrop nt s /\ inv_counters s /\ inv_calls s
  /\ inv_flight s /\ inv_shape nt s.

(* ---------------- lifecycle invariants (Proofs/ExecLife.v) ---------------- *)
Definition is_running_once (w : wstate) : bool := match w with WInShut | WClosing => true | _ => false end.
Definition cnt_workers (f : wstate -> bool) (x : nstate) : nat := length (filter f (ws x)).

Definition main_past_loop (s : state) : bool := match mn s with MWait | MDone => true | _ => false end.

Definition inv_life (nt : net) (s : state) : Prop :=
  (* L1: once a node's once has been entered all its workers have seen the closed channel *)
  (forall n, n < length nt -> once (node s n) <> ONone -> forallb wpast (ws (node s n)) = true)
  (* L2: a worker that has seen the closed channel: the channel is closed and empty *)
  /\ (forall n, n < length nt -> existsb wpast (ws (node s n)) = true -> closed (node s n) = true /\ q (node s n) = [])
  (* L3: the once-function is run by exactly one worker while the once is running, by none otherwise *)
  /\ (forall n, n < length nt ->
        cnt_workers is_running_once (node s n) = match once (node s n) with ORunning => 1 | _ => 0 end)
  (* L4: a worker leaves only after the once completed *)
  /\ (forall n, n < length nt -> existsb wexit (ws (node s n)) = true -> once (node s n) = ODone)
  (* L5: after the node's Shutdown returned nothing of it is in flight and no callback of it is running *)
  /\ (forall n, n < length nt ->
        (once (node s n) = ODone \/ existsb (fun w => match w with WClosing => true | _ => false end) (ws (node s n)) = true) ->
        inflight (node s n) = [] /\ existsb (owns n) (cbs s) = false)
  (* L6: a child's or handler's channel is closed only by its feeder's completed once *)
  /\ (forall n c, n < length nt -> In c (targets (info nt n)) -> closed (node s c) = true -> once (node s n) = ODone)
  (* L7: root channels are closed only by the main goroutine after its loop *)
  /\ (forall r, In r (roots nt) -> closed (node s r) = true -> main_past_loop s = true)
  (* L8: callback threads belong to async nodes of the table and have something left to deliver *)
  /\ (forall cb, In cb (cbs s) -> fst cb < length nt /\ snd cb <> [])
  (* L9: pending deliveries only target the sender's own children / handler *)
  /\ (forall n w p, n < length nt -> nth_error (ws (node s n)) w = Some (WSend p) ->
        p <> [] /\ forall d, In d p -> In (fst d) (targets (info nt n)))
  /\ (forall cb d, In cb (cbs s) -> In d (snd cb) -> In (fst d) (targets (info nt (fst cb))))
  /\ (forall it rs, mn s = MDeliver it rs -> rs <> [] /\ forall r, In r rs -> In r (roots nt)).
