(* E5 — model of the message wire format: message.Message (message/message.go:12-16),
   wireMessage / uniqueKey (message/kafkamessagewire.go:8-17), the record the sender writes
   (KafkaMessageSender.produceMessage, message/kafkamessagesender.go:56-79) and Kafka log
   compaction by record key.  Strings are byte lists (list Z); the JSON text level
   (encoding/json, base64) is NOT modelled: the wire record is modelled as the JSON *tree*
   {message:{messagetype,key,payload}, updated, ack}.  Definitions only. *)
From Coq Require Import List ZArith Bool.
From FB Require Import Lib.Eqb.
Import ListNotations.
Open Scope Z_scope.

Definition bytes := list Z.
Definition bytes_eqb : bytes -> bytes -> bool := list_eqb Z.eqb.

(* message.Message *)
Record msg := { m_type : bytes; m_key : bytes; m_payload : bytes }.
(* wireMessage without the timestamp *)
Record wire := { w_msg : msg; w_ack : bool }.

Definition msg_eqb (a b : msg) : bool :=
  bytes_eqb (m_type a) (m_type b) && bytes_eqb (m_key a) (m_key b) && bytes_eqb (m_payload a) (m_payload b).
Definition wire_eqb (a b : wire) : bool := msg_eqb (w_msg a) (w_msg b) && Bool.eqb (w_ack a) (w_ack b).

(* the identity of a message: its (type, key) pair *)
Definition same_id (a b : msg) : bool := bytes_eqb (m_type a) (m_type b) && bytes_eqb (m_key a) (m_key b).

Definition dash : Z := 45.
(* kafkamessagewire.go:15-17   msg.MessageType + "-" + msg.Key *)
Definition unique_key (m : msg) : bytes := m_type m ++ dash :: m_key m.
Definition no_dash (t : bytes) : bool := negb (existsb (Z.eqb dash) t).

(* ---- the JSON tree of a wire record (field names as codes:
        1 message, 2 updated, 3 ack, 11 messagetype, 12 key, 13 payload) ---- *)
Inductive jv := JStr (s : bytes) | JBytes (b : bytes) | JBool (b : bool) | JTime (t : Z) | JObj (fs : list (Z * jv)).

(* json.Marshal(&wireMessage{Message: msg, Updated: now, Acknowledged: ack})  kafkamessagesender.go:57-63 *)
Definition encode (now : Z) (w : wire) : jv :=
  JObj [ (1, JObj [ (11, JStr (m_type (w_msg w))); (12, JStr (m_key (w_msg w))); (13, JBytes (m_payload (w_msg w))) ]);
         (2, JTime now);
         (3, JBool (w_ack w)) ].

Fixpoint field (k : Z) (fs : list (Z * jv)) : option jv :=
  match fs with
  | [] => None
  | (k', v) :: rest => if k' =? k then Some v else field k rest
  end.

(* json.Unmarshal(value, &wireMessage{}) at tree level (kakfamessagereceiver.go:196-201): absent fields keep
   their zero value, a field of the wrong JSON type is an error *)
Definition get_str (o : option jv) : option bytes :=
  match o with None => Some [] | Some (JStr s) => Some s | Some _ => None end.
Definition get_bytes (o : option jv) : option bytes :=
  match o with None => Some [] | Some (JBytes s) => Some s | Some _ => None end.
Definition get_bool (o : option jv) : option bool :=
  match o with None => Some false | Some (JBool b) => Some b | Some _ => None end.
Definition time_ok (o : option jv) : bool :=
  match o with None => true | Some (JTime _) => true | Some _ => false end.

Definition decode_msg (o : option jv) : option msg :=
  match o with
  | None => Some {| m_type := []; m_key := []; m_payload := [] |}
  | Some (JObj fs) =>
      match get_str (field 11 fs), get_str (field 12 fs), get_bytes (field 13 fs) with
      | Some t, Some k, Some p => Some {| m_type := t; m_key := k; m_payload := p |}
      | _, _, _ => None
      end
  | Some _ => None
  end.

Definition decode (j : jv) : option wire :=
  match j with
  | JObj fs =>
      match decode_msg (field 1 fs), get_bool (field 3 fs) with
      | Some m, Some a => if time_ok (field 2 fs) then Some {| w_msg := m; w_ack := a |} else None
      | _, _ => None
      end
  | _ => None
  end.

(* ---- what one Send / Ack writes: exactly one record  (kafkamessagesender.go:68-76) ---- *)
Record record := { r_topic : Z; r_partition : Z; r_key : bytes; r_value : wire }.
Definition partition_any : Z := -1.    (* kafka.PartitionAny *)
Definition produce (topic : Z) (m : msg) (ack : bool) : list record :=
  [ {| r_topic := topic; r_partition := partition_any; r_key := unique_key m;
       r_value := {| w_msg := m; w_ack := ack |} |} ].

(* ---- Kafka log compaction: only the last record of every record key survives, order kept ---- *)
Fixpoint compact (rs : list (bytes * wire)) : list (bytes * wire) :=
  match rs with
  | [] => []
  | r :: rest => if existsb (fun r' => bytes_eqb (fst r') (fst r)) rest then compact rest else r :: compact rest
  end.

(* ---- valid UTF-8 (the domain of C12's strings), the table of Go's unicode/utf8: no surrogates,
        no overlong forms, at most U+10FFFF ---- *)
Definition cont (b : Z) : bool := (128 <=? b) && (b <=? 191).
Fixpoint utf8_valid (s : bytes) : bool :=
  match s with
  | [] => true
  | b0 :: r0 =>
      if (0 <=? b0) && (b0 <=? 127) then utf8_valid r0
      else match r0 with
      | [] => false
      | b1 :: r1 =>
          if (194 <=? b0) && (b0 <=? 223) then cont b1 && utf8_valid r1
          else match r1 with
          | [] => false
          | b2 :: r2 =>
              if (224 <=? b0) && (b0 <=? 239) then
                (if b0 =? 224 then (160 <=? b1) && (b1 <=? 191)
                 else if b0 =? 237 then (128 <=? b1) && (b1 <=? 159)
                 else cont b1) && cont b2 && utf8_valid r2
              else match r2 with
              | [] => false
              | b3 :: r3 =>
                  if (240 <=? b0) && (b0 <=? 244) then
                    (if b0 =? 240 then (144 <=? b1) && (b1 <=? 191)
                     else if b0 =? 244 then (128 <=? b1) && (b1 <=? 143)
                     else cont b1) && cont b2 && cont b3 && utf8_valid r3
                  else false
              end
          end
      end
  end.
