(* E5 — model of KafkaMessageReceiver (message/kakfamessagereceiver.go): buildPartitionAssignments
   (:154-181), processEvent (:183-204), processMessage (:206-224), deliverMessage (:226-231),
   processInitBuffer (:235-247).  The decoding of a record value by encoding/json is an oracle:
   a record reaches the model as [Some wire] (json.Unmarshal succeeded, with these fields) or
   [None] (it returned an error).  Definitions only. *)
From Coq Require Import List ZArith Bool.
From FB Require Import Lib.Eqb Model.Wire.
Import ListNotations.
Open Scope Z_scope.

(* ---- buildPartitionAssignments ---- *)
(* answer of QueryWatermarkOffsets: the (low, high) pair it returned and whether err != nil *)
Inductive wres := WOk (low high : Z) | WErr (low high : Z).
Definition max_replay : Z := 50000.                       (* maxMessagesToReplay, :39 *)

(* :161-171   on error only [low] is reset, [high] stays what the client returned *)
Definition start_of (w : wres) : Z :=
  let '(low, high) := match w with WOk l h => (l, h) | WErr _ h => (0, h) end in
  if high - low >? max_replay then high - max_replay else low.

(* one assignment per partition of the metadata, in order; the queries are answered in call order
   (a missing answer is an error returning (0,0)) *)
Fixpoint build_assignments (pids : list Z) (wms : list wres) : list (Z * Z) :=
  match pids with
  | [] => []
  | p :: ps => (p, start_of (hd (WErr 0 0) wms)) :: build_assignments ps (tl wms)
  end.

(* ---- the event loop body ---- *)
Record rstate := {
  r_init : bool;            (* initialized *)
  r_eofs : list Z;          (* partitionEOFs: set of partitions that reported EOF (no duplicates) *)
  r_pcount : nat;           (* partitionCount *)
  r_buf : list wire;        (* initBuffer: at most one record per slot; Go map, order immaterial *)
}.
Definition rinit (pcount : nat) : rstate := {| r_init := false; r_eofs := []; r_pcount := pcount; r_buf := [] |}.

Inductive rop :=
  | Rec (r : option wire)   (* *kafka.Message, value decoded by the oracle *)
  | Eof (p : Z)             (* kafka.PartitionEOF *)
  | Other.                  (* kafka.Error and any other event *)

(* the map key of initBuffer: messageID{type, key}  (:29-37) *)
Definition same_slot (a b : msg) : bool := same_id a b.

(* r.initBuffer[messageID{type, key}] = wireMsg   (:218): the record of that slot is replaced.
   (The list keeps slots in the order of their latest write; Go's map has no order and the
   correspondence compares init-time deliveries as a multiset.) *)
Definition buf_put (w : wire) (b : list wire) : list wire :=
  filter (fun x => negb (same_slot (w_msg x) (w_msg w))) b ++ [w].

(* r.partitionEOFs[e.Partition] = struct{}{}   (:188-192) *)
Definition set_add (p : Z) (s : list Z) : list Z := if existsb (Z.eqb p) s then s else s ++ [p].

(* processInitBuffer (:235-247): every buffered record that is not an acknowledgement is delivered *)
Definition process_init_buffer (b : list wire) : list msg :=
  map w_msg (filter (fun w => negb (w_ack w)) b).

(* one event: new state and the notifier calls made, in order *)
Definition rstep (s : rstate) (o : rop) : rstate * list msg :=
  match o with
  | Rec None => (s, [])                                                  (* :207-212 unmarshal error: skipped *)
  | Rec (Some w) =>
      if r_init s
      then (s, if w_ack w then [] else [w_msg w])                       (* :217-223 *)
      else ({| r_init := false; r_eofs := r_eofs s; r_pcount := r_pcount s; r_buf := buf_put w (r_buf s) |}, [])
  | Eof p =>
      let e := set_add p (r_eofs s) in
      if negb (r_init s) && (r_pcount s <=? length e)%nat               (* :193 *)
      then ({| r_init := true; r_eofs := e; r_pcount := r_pcount s; r_buf := [] |}, process_init_buffer (r_buf s))
      else ({| r_init := r_init s; r_eofs := e; r_pcount := r_pcount s; r_buf := r_buf s |}, [])
  | Other => (s, [])
  end.

(* the whole history: per event, Initialized() after it and the deliveries it caused *)
Fixpoint rrun (s : rstate) (ops : list rop) : list (bool * list msg) :=
  match ops with
  | [] => []
  | o :: rest => let '(s', out) := rstep s o in (r_init s', out) :: rrun s' rest
  end.
Fixpoint rfinal (s : rstate) (ops : list rop) : rstate :=
  match ops with [] => s | o :: rest => rfinal (fst (rstep s o)) rest end.
