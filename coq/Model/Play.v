(* E1 — gated scenarios: intents (generator) -> concrete commands + predicted quiescent snapshots.
   The generator does not know the state of the executor; it emits intents with indices
   ("release the k-th call waiting at node n with outcome kind o") and the MODEL resolves them.
   The same function is run before the implementation (prediction for the driver) and after it
   (judging).  Definitions only. *)
From Coq Require Import List ZArith Bool Arith.
From FB Require Import Lib.Sexp Model.Exec Model.Settle.
Import ListNotations.
Local Open Scope nat_scope.

Inductive intent :=
| IEmit
| IRelease (n k okind arg : nat)
| IComplete (n k okind arg : nat)
| IEnd          (* source returns nil *)
| IFail         (* source returns an error; supervisor restarts it after the pause *)
| IWait         (* wait for Execute to return, at most the shutdown timeout *)
| ISignal.      (* SIGINT/SIGTERM: the main loop calls Shutdown() the next time it is at its select; while it is
                   pending the source is neither ended nor failed by the scenario (the select would then have
                   two ready cases and Go picks one at random) *)

Inductive cmd :=
| CSkip
| CEmit (e : Z)
| CRelease (n : nat) (it : item) (o : outcome)
| CComplete (n : nat) (it : item) (o : outcome)
| CEnd | CFail | CWait | CSignal.

Fixpoint fresh_ids (next : Z) (m : nat) : list Z :=
  match m with O => [] | S m' => next :: fresh_ids (next + 1)%Z m' end.

(* outcome chosen by an intent for a node of kind k handling item [it]: kind 0 passes the SAME event on
   (the node returns the event it was given: `return event, nil` / `ReturnEvent(ae)`), kind 3 transforms
   (fresh ids; a fanout node yields 0..3 of them), 1 filters, 2 fails, 4 defers (async only) *)
Definition resolve_outcome (k : kind) (callback : bool) (okind arg : nat) (next : Z) (it : item) : outcome :=
  match okind mod 5 with
  | 1 => ORes []
  | 2 => OFail (Z.of_nat (1 + arg mod 3))
  | 3 => match k with KFanout => ORes (fresh_ids next (arg mod 4)) | _ => ORes [next] end
  | 4 => match k with KAsync => if callback then ORes [next] else OLater | _ => ORes [next] end
  | _ => match snd it with 0%Z => ORes [fst it] | _ => ORes [next] end
  end.
Definition used_ids (o : outcome) : Z := match o with ORes es => Z.of_nat (length es) | _ => 0%Z end.

Fixpoint find_worker (it : item) (l : list wstate) (i : nat) : option nat :=
  match l with
  | [] => None
  | WProc x :: r => if item_eqb it x then Some i else find_worker it r (S i)
  | _ :: r => find_worker it r (S i)
  end.

(* settling with the opposite priority among enabled internal actions must show the same snapshot; if it does
   not, which goroutine moves first matters here and the scenario stops (nothing is compared from there on) *)
Definition order_sensitive (nt : net) (T : nat) (s1 s2 : state) : bool :=
  match settle_rev 4000 nt T s1 with
  | SOk s2' => negb (tree_eqb (snapshot s2) (snapshot s2'))
  | _ => true
  end.

Record pstate := { st : state; next_id : Z; stopped : bool; bad : bool; sigp : bool (* a signal is pending *) }.

Definition fuel0 : nat := 4000.

(* apply external actions, then settle; None = the external action was not enabled *)
Fixpoint apply_all (nt : net) (T : nat) (s : state) (l : list action) : option state :=
  match l with
  | [] => Some s
  | a :: r => match step nt T s a with Ok s' => apply_all nt T s' r | _ => None end
  end.

(* a pending signal is handled as soon as the main loop is back at its select: Shutdown() stops the source.
   Result: the state after that (or the same state) and whether the signal is still pending. *)
Definition post_signal (nt : net) (T : nat) (sg : bool) (s2 : state) : option (state * bool) :=
  if sg then
    match mn s2, src s2 with
    | MSelect, SRunning _ =>
        match step nt T s2 SrcReturnNil with
        | Ok s3 => match settle fuel0 nt T s3 with SOk s4 => Some (s4, false) | _ => None end
        | _ => None
        end
    | _, _ => Some (s2, true)
    end
  else Some (s2, false).

Definition play1 (nt : net) (T : nat) (p : pstate) (i : intent) : pstate * cmd * tree :=
  let s := st p in
  let skip := (p, CSkip, snapshot s) in
  if stopped p || bad p then skip else
  let attempt (acts : list action) (c : cmd) (used : Z) (rel : option nat) :=
    match apply_all nt T s acts with
    | None => skip
    | Some s1 =>
        match settle fuel0 nt T s1 with
        | SOk s2 =>
            if ambiguous_blocked s2 || ambiguous_discard nt s s2 rel || order_sensitive nt T s1 s2
            then ({| st := s; next_id := next_id p; stopped := true; bad := false; sigp := sigp p |}, CSkip, snapshot s)
            else
              (* a pending signal is handled as soon as the main loop is back at its select: Shutdown() stops the source *)
              match post_signal nt T (sigp p) s2 with
              | Some (s5, sg) => ({| st := s5; next_id := (next_id p + used)%Z; stopped := false; bad := false; sigp := sg |}, c, snapshot s5)
              | None => ({| st := s; next_id := next_id p; stopped := true; bad := true; sigp := sigp p |}, CSkip, snapshot s)
              end
        | _ => ({| st := s; next_id := next_id p; stopped := true; bad := true; sigp := sigp p |}, CSkip, snapshot s)
        end
    end in
  match i with
  | IEmit => attempt [SrcEmit (next_id p)] (CEmit (next_id p)) 1%Z None
  | IRelease n k okind arg =>
      match length nt with
      | O => skip
      | S _ =>
          let n' := n mod length nt in
          let gate := at_gate (node s n') in
          match gate with
          | [] => skip
          | _ =>
              let it := nth (k mod length gate) gate (0%Z, 0%Z) in
              match find_worker it (ws (node s n')) 0 with
              | None => skip
              | Some w =>
                  let o := resolve_outcome (nkind (info nt n')) false okind arg (next_id p) it in
                  attempt [Return n' w o] (CRelease n' it o) (used_ids o) (Some n')
              end
          end
      end
  | IComplete n k okind arg =>
      match length nt with
      | O => skip
      | S _ =>
          let n' := n mod length nt in
          let fl := sort_items (inflight (node s n')) in
          match fl with
          | [] => skip
          | _ =>
              let it := nth (k mod length fl) fl (0%Z, 0%Z) in
              let o := resolve_outcome (nkind (info nt n')) true okind arg (next_id p) it in
              attempt [Callback n' it o] (CComplete n' it o) (used_ids o) None
          end
      end
  | IEnd => if sigp p then skip else attempt [SrcReturnNil] CEnd 0%Z None
  | ISignal =>
      match src s, mn s with
      | SRunning _, MSelect => attempt [SrcReturnNil] CSignal 0%Z None
      | SRunning _, MDeliver _ _ =>
          if sigp p then skip
          else ({| st := s; next_id := next_id p; stopped := false; bad := false; sigp := true |}, CSignal, snapshot s)
      | _, _ => skip
      end
  | IFail => if sigp p then skip else attempt [SrcReturnErr; SrcRestart] CFail 0%Z None
  | IWait =>
      match src s, mn s with
      | SClosed, MWait => attempt (repeat Tick T ++ [MainTimeout]) CWait 0%Z None
      | SClosed, _ => (p, CWait, snapshot s)     (* already returned, or never will (main blocked) *)
      | _, _ => skip
      end
  end.

Fixpoint play (nt : net) (T : nat) (p : pstate) (l : list intent) : pstate * list (cmd * tree) :=
  match l with
  | [] => (p, [])
  | i :: r =>
      let '(p1, c, sn) := play1 nt T p i in
      let '(p2, out) := play nt T p1 r in
      (p2, (c, sn) :: out)
  end.

(* event ids of a scenario start at 1000 so that they never collide with small codes *)
Definition play_from_init (nt : net) (T : nat) (l : list intent) : pstate * tree * list (cmd * tree) :=
  match settle fuel0 nt T (init nt) with
  | SOk s0 =>
      let '(p, out) := play nt T {| st := s0; next_id := 1000%Z; stopped := false; bad := false; sigp := false |} l in
      (p, snapshot s0, out)
  | _ => ({| st := init nt; next_id := 1000%Z; stopped := true; bad := true; sigp := false |}, snapshot (init nt), [])
  end.
