(* E3 — ghost version of the tracker (definitions only).

   Every tracked request additionally carries
     * its birth index (a fresh counter value taken when the request was CREATED: by a filing
       that overlapped nothing, or by a received snapshot), and
     * the list of PIECES merged into it: every filed range (a,b) that was filed as, or merged
       into, this request, each with its own recorded progress point c (initially a; raised to
       max c f by every accepted progress update f of the request).
   The ghost fields are never read by the operations: [erase] forgets them and the ghost run
   erases to the plain run (Proofs/TrackerGhostProofs.v).  They exist to STATE "nothing filed is
   lost, nothing is invented, the head is the oldest". *)
From Coq Require Import List ZArith Bool.
From FB Require Import Model.Tracker Model.TrackerWire.
Import ListNotations.
Open Scope Z_scope.

Record piece := { pc_from : Z; pc_to : Z; pc_clip : Z }.
Record greq := { g_from : Z; g_to : Z; g_birth : nat; g_pieces : list piece }.
Definition gentries := list (Z * list greq).
Record gstate := { g_ents : gentries; g_next : nat }.

Definition ginit : gstate := {| g_ents := []; g_next := 0 |}.

Definition erase_req (g : greq) : req := (g_from g, g_to g).
Definition erase_ents (e : gentries) : tstate := map (fun e => (fst e, map erase_req (snd e))) e.
Definition erase (g : gstate) : tstate := erase_ents (g_ents g).

(* association-list functions, as Tracker.lookup / Tracker.set *)
Fixpoint glookup (p : Z) (s : gentries) : option (list greq) :=
  match s with
  | [] => None
  | (q, rs) :: s' => if q =? p then Some rs else glookup p s'
  end.
Fixpoint gset (p : Z) (v : list greq) (s : gentries) : gentries :=
  match s with
  | [] => [(p, v)]
  | (q, rs) :: s' => if q =? p then (q, v) :: s' else (q, rs) :: gset p v s'
  end.
Definition glk (p : Z) (s : gentries) : list greq := match glookup p s with Some rs => rs | None => [] end.

(* the offsets a piece still asks for: its filed range from its progress point onward *)
Definition piece_rng (pc : piece) : req := (Z.max (pc_from pc) (pc_clip pc), pc_to pc).
Definition new_piece (f t : Z) : piece := {| pc_from := f; pc_to := t; pc_clip := f |}.
Definition clip_piece (f : Z) (pc : piece) : piece :=
  {| pc_from := pc_from pc; pc_to := pc_to pc; pc_clip := Z.max (pc_clip pc) f |}.

Definition gwiden (f t : Z) (g : greq) : greq :=
  if overlaps f t (erase_req g)
  then {| g_from := Z.min f (g_from g); g_to := Z.max t (g_to g); g_birth := g_birth g;
          g_pieces := g_pieces g ++ [new_piece f t] |}
  else g.

Definition gnew (f t : Z) (n : nat) : greq :=
  {| g_from := f; g_to := t; g_birth := n; g_pieces := [new_piece f t] |}.
(* an accepted progress update f of request r *)
Definition gupd (f : Z) (r : greq) : greq :=
  {| g_from := f; g_to := g_to r; g_birth := g_birth r; g_pieces := map (clip_piece f) (g_pieces r) |}.

(* births for the requests of a received snapshot: consecutive fresh values *)
Fixpoint gfresh (n : nat) (rs : list req) : list greq :=
  match rs with
  | [] => []
  | (f, t) :: rs' => gnew f t n :: gfresh (S n) rs'
  end.

Definition gstep (g : gstate) (o : top) : gstate :=
  let e := g_ents g in
  let n := g_next g in
  match o with
  | Add p f t =>
      let rs := glk p e in
      if existsb (fun r => overlaps f t (erase_req r)) rs
      then {| g_ents := gset p (map (gwiden f t) rs) e; g_next := n |}
      else {| g_ents := gset p (rs ++ [gnew f t n]) e; g_next := S n |}
  | Update p f t =>
      match glookup p e with
      | Some (r :: rest) =>
          if g_to r =? t
          then {| g_ents := gset p (gupd f r :: rest) e; g_next := n |}
          else g
      | _ => g
      end
  | Complete p t =>
      match glookup p e with
      | Some rs =>
          if existsb (fun r => g_to r =? t) rs
          then {| g_ents := gset p (filter (fun r => negb (g_to r =? t)) rs) e; g_next := n |}
          else g
      | None => g
      end
  | CancelAll => {| g_ents := map (fun x => (fst x, [])) e; g_next := n |}
  | Receive p rs => {| g_ents := gset p (gfresh n rs) e; g_next := (n + length rs)%nat |}
  | ReceiveGarbage => g
  end.

Definition grun (g : gstate) (h : list top) : gstate := fold_left gstep h g.

(* the plain run's final state (Tracker.trun also returns the outputs) *)
Definition run_state (s : tstate) (h : list top) : tstate := fold_left (fun s o => ts (tstep s o)) h s.

(* ---------- hypotheses on histories, as boolean predicates ---------- *)
(* every accepted progress update moves from forward (the only kind the recovery consumer
   issues: E4).  Evaluated along the run. *)
Definition mono_step (s : tstate) (o : top) : bool :=
  match o with
  | Update p f t =>
      match lookup p s with
      | Some ((f0, t0) :: _) => if t0 =? t then f0 <=? f else true
      | _ => true
      end
  | _ => true
  end.
Fixpoint mono_hist (s : tstate) (h : list top) : bool :=
  match h with
  | [] => true
  | o :: h' => mono_step s o && mono_hist (ts (tstep s o)) h'
  end.

(* ---------- provenance ---------- *)
(* the ranges filed for p in a history: by AddRecoveryRequest, or as elements of a snapshot
   received for p *)
Definition filed_by (p : Z) (o : top) : list req :=
  match o with
  | Add q f t => if q =? p then [(f, t)] else []
  | Receive q rs => if q =? p then rs else []
  | _ => []
  end.
Definition filed_on (p : Z) (h : list top) : list req := flat_map (filed_by p) h.

(* all pieces alive for p *)
Definition pieces_of (p : Z) (g : gstate) : list piece := flat_map g_pieces (glk p (g_ents g)).

