(* E4 — model of node/kafkaconsumer/recoveryconsumer.go (recoverSingleEvent, processError,
   RefreshAssignments, partitionAssignmentsChanged, RequestRecovery, SetAssignedPartitions),
   of the parts of kafkaconsumer.go that keep the recovery consumer in sync (processEvent's
   *kafka.Message branch, revokePartitionAssignments, assignPartitions, Receive), and of the
   scripted recovery client of the harness (an oracle: positions after Assign).
   Definitions only.  The tracker is Model/Tracker.v, assignPartitions is Model/Offsets.v. *)
From Coq Require Import List ZArith Bool.
From FB Require Import Model.Tracker Model.Offsets.
Import ListNotations.
Open Scope Z_scope.

(* ---- finite maps keyed by partition, kept sorted by key (Go maps have no order; every place
   where Go iterates such a map is canonicalised by partition on the harness side) ---- *)
Definition pmap (A : Type) := list (Z * A).

Fixpoint pget {A} (p : Z) (m : pmap A) : option A :=
  match m with
  | [] => None
  | (q, v) :: m' => if q =? p then Some v else pget p m'
  end.

Fixpoint pput {A} (p : Z) (v : A) (m : pmap A) : pmap A :=
  match m with
  | [] => [(p, v)]
  | (q, w) :: m' =>
      if p <? q then (p, v) :: (q, w) :: m'
      else if q =? p then (p, v) :: m'
      else (q, w) :: pput p v m'
  end.

(* activePartitionMap: partition -> (fromOffset, toOffset)  (recoveryconsumer.go:70,81-85) *)
Definition amap := pmap (Z * Z).

Record rcfg := {
  c_maxrec : Z;      (* parallelrecoverymaxrecords *)
  c_every : Z;       (* updateRequestEvery (recoveryconsumer.go:107), >= 1 *)
  c_maxlag : Z;      (* maxpartitionlag of the main consumer (used by MAssign only) *)
}.

(* calls on the recovery client *)
Inductive ccall := CUnassign | CAssign (l : list (Z * Z)).      (* Assign argument: (partition, offset), sorted by partition *)

Record rstate := {
  owned : list Z;             (* partitions of assignedPartitions, in order (recoveryconsumer.go:69) *)
  active : amap;              (* activePartitionMap *)
  trk : tstate;               (* the RecoveryTracker *)
  cli : pmap Z;               (* ORACLE: the scripted client: next offset it delivers per assigned partition *)
  mlog : list bcast;          (* every recoveryrequest message on the messaging topic so far (all incarnations) *)
}.

Definition init_state : rstate := {| owned := []; active := []; trk := []; cli := []; mlog := [] |}.

(* what one op makes observable *)
Record rout := {
  o_emits : list (Z * Z * bool);   (* events put on the source channel: partition, offset, Recovery flag *)
  o_calls : list ccall;            (* calls on the recovery client *)
  o_sent : list bcast;             (* messages sent through the context *)
  o_err : bool;                    (* error returned (Receive / assignPartitions) *)
  o_acks : Z;                      (* AckMessage calls *)
  o_waits : list Z;                (* one entry per rateLimiter.Wait: number of events this op had emitted before it *)
}.

Definition out_nil : rout :=
  {| o_emits := []; o_calls := []; o_sent := []; o_err := false; o_acks := 0; o_waits := [] |}.
Definition out_app (a b : rout) : rout :=
  {| o_emits := o_emits a ++ o_emits b; o_calls := o_calls a ++ o_calls b; o_sent := o_sent a ++ o_sent b;
     o_err := o_err a || o_err b; o_acks := o_acks a + o_acks b;
     o_waits := o_waits a ++ map (Z.add (Z.of_nat (length (o_emits a)))) (o_waits b) |}.
Definition out_sent (l : list bcast) : rout :=
  {| o_emits := []; o_calls := []; o_sent := l; o_err := false; o_acks := 0; o_waits := [] |}.

Definition with_trk (s : rstate) (t : tstate) (sent : list bcast) : rstate :=
  {| owned := owned s; active := active s; trk := t; cli := cli s; mlog := mlog s ++ sent |}.

(* ---- RefreshAssignments (recoveryconsumer.go:347-403) ---- *)
(* the candidate map: owned partitions that have a request; fromOffset = the request's, or the active
   one if that is larger (recoveryconsumer.go:350-374) *)
Fixpoint candidates (ow : list Z) (act : amap) (t : tstate) : amap :=
  match ow with
  | [] => []
  | p :: rest =>
      let c := candidates rest act t in
      match get t p with
      | Some (f, to) =>
          let f' := match pget p act with
                    | Some (af, _) => if af >? f then af else f
                    | None => f
                    end in
          pput p (f', to) c
      | None => c
      end
  end.

(* partitionAssignmentsChanged (recoveryconsumer.go:406-420) *)
Definition changed (cand act : amap) : bool :=
  if (length cand =? length act)%nat then
    existsb (fun c => match pget (fst c) act with
                      | None => true
                      | Some (_, to) => negb (snd (snd c) =? to)
                      end) cand
  else true.

Definition assign_arg (m : amap) : list (Z * Z) := map (fun c => (fst c, fst (snd c))) m.

Definition refresh (s : rstate) : rstate * list ccall :=
  let cand := candidates (owned s) (active s) (trk s) in
  if changed cand (active s) then
    ({| owned := owned s; active := cand; trk := trk s; cli := assign_arg cand; mlog := mlog s |},
     [CUnassign; CAssign (assign_arg cand)])
  else (s, []).

(* ---- recoverSingleEvent (recoveryconsumer.go:254-325).  The fromOffset of the map entry is NOT
   advanced by an emitted record: line 307 assigns to a local copy of the entry. ---- *)
Definition rec_step (cfg : rcfg) (s : rstate) (p o : Z) : rstate * rout :=
  match pget p (active s) with
  | None => (s, out_nil)                                           (* :272 *)
  | Some (f, to) =>
      if o <? f then (s, out_nil)                                  (* :278 *)
      else if to - o <? 0 then                                     (* :285 *)
        let r := complete (trk s) p to in
        let '(s2, calls) := refresh (with_trk s (ts r) (tout r)) in
        (s2, {| o_emits := []; o_calls := calls; o_sent := tout r; o_err := false; o_acks := 0; o_waits := [] |})
      else
        let em := o >? f in                                        (* :299 *)
        let upd := (o mod c_every cfg =? 0) && (to - o >? 0) in    (* :319 *)
        let r := if upd then update (trk s) p o to else {| ts := trk s; terr := false; tout := [] |} in
        (with_trk s (ts r) (tout r),
         {| o_emits := if em then [(p, o, true)] else []; o_calls := []; o_sent := tout r; o_err := false;
            o_acks := 0; o_waits := if em then [0] else [] |})
  end.

(* the scripted client delivers the next record of p (if p is assigned to it); its position moves on
   unless the consumer re-assigned it while handling the record *)
Definition bump (p : Z) (m : pmap Z) : pmap Z :=
  match pget p m with Some n => pput p (n + 1) m | None => m end.

Definition fresh_step (cfg : rcfg) (s : rstate) (p : Z) : rstate * rout :=
  match pget p (cli s) with
  | None => (s, out_nil)
  | Some n =>
      let '(s1, out) := rec_step cfg s p n in
      match o_calls out with
      | [] => ({| owned := owned s1; active := active s1; trk := trk s1; cli := bump p (cli s1); mlog := mlog s1 |}, out)
      | _ => (s1, out)
      end
  end.

Fixpoint pump (cfg : rcfg) (s : rstate) (p : Z) (k : nat) : rstate * rout :=
  match k with
  | O => (s, out_nil)
  | S k' =>
      let '(s1, o1) := fresh_step cfg s p in
      let '(s2, o2) := pump cfg s1 p k' in
      (s2, out_app o1 o2)
  end.

(* a record the client had delivered before (offset below its position) arrives again *)
Definition stale_offset (s : rstate) (p d : Z) : Z :=
  match pget p (cli s) with Some n => n - 1 - Z.abs d | None => d end.

(* a straggler that librdkafka had fetched under the previous assignment and delivers after the re-assignment
   ("after assignments change there can be a brief period where events arrive for the formerly-assigned partitions",
   recoveryconsumer.go:271): offset n+1+|d| where n is the client's position, i.e. at least 2 ahead of the last
   delivered record.  ORACLE restriction: it is delivered only if that offset is still inside the active window
   (<= to) and is not a multiple of updateRequestEvery; otherwise the op delivers nothing.  (A straggler ON the
   broadcast grid makes the CURRENT code broadcast a progress point ahead of what was recovered, and a straggler beyond
   to makes it close the request early - both lose records if a crash / re-assignment follows; reported separately,
   reachable through RawRec.) *)
Definition ahead_step (cfg : rcfg) (s : rstate) (p d : Z) : rstate * rout :=
  match pget p (cli s), pget p (active s) with
  | Some n, Some (f, to) =>
      let o := n + 1 + Z.abs d in
      if (o <=? to) && negb (o mod c_every cfg =? 0) then rec_step cfg s p o else (s, out_nil)
  | _, _ => (s, out_nil)
  end.

(* like ahead_step without the oracle restriction.  On the CURRENT code such a straggler, when it is a multiple of
   updateRequestEvery, broadcasts itself as progress although the records between the position and it were not
   recovered, and when it is beyond to it closes the request; a re-assignment / crash before the fresh stream catches up
   then loses those records (known finding F11). *)
Definition wild_step (cfg : rcfg) (s : rstate) (p d : Z) : rstate * rout :=
  match pget p (cli s), pget p (active s) with
  | Some n, Some _ => rec_step cfg s p (n + 1 + Z.abs d)
  | _, _ => (s, out_nil)
  end.

(* ---- processError (recoveryconsumer.go:207-251) ---- *)
Definition low_of (lows : pmap Z) (p : Z) : Z := match pget p lows with Some l => l | None => 0 end.

Fixpoint kerr_loop (t : tstate) (act : amap) (lows : pmap Z) : tstate * list bcast :=
  match act with
  | [] => (t, [])
  | (p, (f, to)) :: rest =>
      let low := low_of lows p in
      let r := if f <? low
               then (if low >=? to then complete t p to else update t p low to)
               else {| ts := t; terr := false; tout := [] |} in
      let '(t', out) := kerr_loop (ts r) rest lows in
      (t', tout r ++ out)
  end.

(* code: 1 = ErrInvalidMsg, 2 = ErrOffsetOutOfRange, anything else = some other error.
   wmerr: EVERY QueryWatermarkOffsets of this call fails (then the function returns at the first
   partition whatever the map order; a failure for only some partitions is order dependent and is not
   generated). *)
Definition kerr_step (s : rstate) (code : Z) (wmerr : bool) (lows : pmap Z) : rstate * rout :=
  if (code =? 1) || (code =? 2) then
    if wmerr then
      ({| owned := owned s; active := []; trk := trk s; cli := cli s; mlog := mlog s |}, out_nil)
    else
      let '(t', sent) := kerr_loop (trk s) (active s) lows in
      ({| owned := owned s; active := []; trk := t'; cli := cli s; mlog := mlog s ++ sent |}, out_sent sent)
  else (s, out_nil).

(* ---- messages (kafkaconsumer.go:414-432) ---- *)
Inductive msg :=
| MReq (p : Z) (rs : list req)     (* recoveryrequest, well-formed key and payload *)
| MGarbage (p : Z)                 (* recoveryrequest with an undecodable payload *)
| MCancel                          (* recoverycancelall *)
| MUnknown.                        (* any other message type *)

Inductive rop :=
| Pump (p : Z) (k : nat)           (* the client delivers its next k records of p *)
| Stale (p d : Z)                  (* a record below the client's position arrives again *)
| Ahead (p d : Z)                  (* a straggler of the previous assignment: a record AHEAD of the client's position,
                                      inside the active window and off the progress-broadcast grid (see ahead_step) *)
| RawRec (p o : Z)                 (* an arbitrary record on the recovery client *)
| MainRec (p o : Z)                (* a record on the MAIN consumer *)
| KErr (code : Z) (wmerr : bool) (lows : pmap Z)
| Refresh
| SetOwned (ps : list Z)
| Revoke                           (* revokePartitionAssignments of the main consumer *)
| Request (p f t : Z)              (* RequestRecovery *)
| MAssign (cerr : bool) (pcs : list (Z * (Z * Z)))    (* assignPartitions: partition, committed, high (<0: query fails) *)
| Deliver (m : msg)                (* KafkaConsumer.Receive *)
| Crash                            (* the instance is replaced by a new one that has read the compacted topic *)
| RecCrash (p : Z)                 (* the client delivers its next record of p and the instance stops while handling it:
                                      if the record is to be emitted the handler is blocked on the send (back-pressure)
                                      when the instance dies - see rec_crash *)
| Wild (p d : Z).                  (* an UNRESTRICTED straggler ahead of the client's position (offset n+1+|d|), possibly on the
                                      progress-broadcast grid or beyond to - see wild_step *)

Definition replay (log : list bcast) : tstate :=
  fold_left (fun t m => receive t (fst m) (snd m)) log [].

Definition massign_in (cfg : rcfg) (cerr : bool) (pcs : list (Z * (Z * Z))) : ares :=
  assign {| maxlag := c_maxlag cfg; recov := true; maxrec := c_maxrec cfg |}
         (map fst pcs)
         (if cerr then CErr else COk (map (fun x => (fst x, fst (snd x))) pcs))
         (map (fun x => if snd (snd x) <? 0 then WErr else WOk 0 (snd (snd x))) pcs)
         false.

Definition crash_state (s : rstate) : rstate :=
  {| owned := []; active := []; trk := replay (mlog s); cli := []; mlog := mlog s |}.

(* recoverSingleEvent reaches the send (recoveryconsumer.go:311) exactly when the partition is active and
   from < offset <= to *)
Definition would_send (s : rstate) (p n : Z) : bool :=
  match pget p (active s) with Some (f, to) => (f <? n) && (n <=? to) | None => false end.

(* The owner dies while handling the next record of p.  If the record is one to emit, everything BEFORE the send has
   happened - the window checks and the limiter wait (recoveryconsumer.go:272-304; line 307 only touches a local copy) -
   the event is not emitted and what comes AFTER the send (the progress broadcast, :319-324) never happens.  Otherwise
   the handler returns normally (nothing is sent on those paths) and the instance dies right after. *)
Definition rec_crash (cfg : rcfg) (s : rstate) (p : Z) : rstate * rout :=
  match pget p (cli s) with
  | None => (crash_state s, out_nil)
  | Some n =>
      if would_send s p n then
        (crash_state s, {| o_emits := []; o_calls := []; o_sent := []; o_err := false; o_acks := 0; o_waits := [0] |})
      else
        let '(s1, out) := rec_step cfg s p n in (crash_state s1, out)
  end.

Definition rstep (cfg : rcfg) (s : rstate) (op : rop) : rstate * rout :=
  match op with
  | Pump p k => pump cfg s p k
  | Stale p d => rec_step cfg s p (stale_offset s p d)
  | Ahead p d => ahead_step cfg s p d
  | RawRec p o => rec_step cfg s p o
  | MainRec p o =>                                              (* kafkaconsumer.go:219-224 *)
      (s, {| o_emits := [(p, o, false)]; o_calls := []; o_sent := []; o_err := false; o_acks := 0; o_waits := [] |})
  | KErr code wmerr lows => kerr_step s code wmerr lows
  | Refresh =>
      let '(s', calls) := refresh s in
      (s', {| o_emits := []; o_calls := calls; o_sent := []; o_err := false; o_acks := 0; o_waits := [] |})
  | SetOwned ps =>                                              (* recoveryconsumer.go:436-439 *)
      ({| owned := ps; active := active s; trk := trk s; cli := cli s; mlog := mlog s |}, out_nil)
  | Revoke =>                                                   (* kafkaconsumer.go:252-259 *)
      let '(s', calls) := refresh {| owned := []; active := active s; trk := trk s; cli := cli s; mlog := mlog s |} in
      (s', {| o_emits := []; o_calls := calls; o_sent := []; o_err := false; o_acks := 0; o_waits := [] |})
  | Request p f t =>                                            (* recoveryconsumer.go:328-343 *)
      let '(f', t') := trim {| maxlag := c_maxlag cfg; recov := true; maxrec := c_maxrec cfg |} (f, t) in
      let r := add (trk s) p f' t' in
      (with_trk s (ts r) (tout r), out_sent (tout r))
  | MAssign cerr pcs =>                                         (* kafkaconsumer.go:306-328 *)
      let a := massign_in cfg cerr pcs in
      let '(t', sent) := file_all (trk s) (a_filed a) in
      ({| owned := match a_owned a with Some l => map fst l | None => owned s end;
          active := active s; trk := t'; cli := cli s; mlog := mlog s ++ sent |},
       {| o_emits := []; o_calls := []; o_sent := sent; o_err := a_err a; o_acks := 0; o_waits := [] |})
  | Deliver (MReq p rs) =>
      ({| owned := owned s; active := active s; trk := receive (trk s) p rs; cli := cli s;
          mlog := mlog s ++ [(p, rs)] |}, out_nil)
  | Deliver (MGarbage p) => (s, out_nil)
  | Deliver MCancel =>
      let r := cancel_all (trk s) in
      (with_trk s (ts r) (tout r),
       {| o_emits := []; o_calls := []; o_sent := tout r; o_err := false; o_acks := 1; o_waits := [] |})
  | Deliver MUnknown =>
      (s, {| o_emits := []; o_calls := []; o_sent := []; o_err := true; o_acks := 0; o_waits := [] |})
  | Crash => (crash_state s, out_nil)
  | RecCrash p => rec_crash cfg s p
  | Wild p d => wild_step cfg s p d
  end.

(* the run: state and output after every op *)
Fixpoint rrun (cfg : rcfg) (s : rstate) (ops : list rop) : list (rstate * rout) :=
  match ops with
  | [] => []
  | op :: rest => let '(s', out) := rstep cfg s op in (s', out) :: rrun cfg s' rest
  end.
