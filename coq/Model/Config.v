(* E6 — model of config.Read (config/config.go:39-71), setDefaults /
   assignNodeConfigDefaults (config.go:213-237), validate and its helpers
   (config.go:73-210) over the registry of node/registry.go:14-55.
   Definitions only.  Strings the code only compares (type names, ids, the
   transport name) are integer codes interned injectively by the harness;
   reflect.Type values are [option Z] ([None] = a nil reflect.Type). *)
From Coq Require Import List ZArith Bool.
From FB Require Import Lib.Eqb.
Import ListNotations.
Open Scope Z_scope.

(* node.Config (node/node.go:49-59), the fields C13 speaks about.
   [a_id = None]: id absent or "" ; [a_workers]/[a_bufsz] = 0: absent or 0.
   [a_kidskey]: the yaml `children` key holds a sequence (possibly empty), i.e.
   [n.Children != nil] even when the list is empty; yaml.v2 leaves the slice nil
   when the key is absent or null and allocates it for `children: []`. *)
Record attrs := { a_name : Z; a_id : option Z; a_workers : Z; a_bufsz : Z; a_kidskey : bool }.

(* a node with its children and its optional error_handler *)
Inductive cfg := Cfg (a : attrs) (kids : list cfg) (h : option cfg).

Definition attrs_of (c : cfg) : attrs := match c with Cfg a _ _ => a end.
Definition kids_of (c : cfg) : list cfg := match c with Cfg _ k _ => k end.
Definition handler_of (c : cfg) : option cfg := match c with Cfg _ _ h => h end.
Definition name_of (c : cfg) : Z := a_name (attrs_of c).

(* node.Registration / node.SourceRegistration (registry.go:19-30): consumed and produced types *)
Record reginfo := { r_cons : option Z; r_prod : option Z }.
Record regs := { nreg : list (Z * reginfo); sreg : list (Z * option Z) }.

(* map lookup (registry.go:48-55): nil when absent *)
Fixpoint lookup {A} (k : Z) (l : list (Z * A)) : option A :=
  match l with
  | [] => None
  | (k', v) :: l' => if k =? k' then Some v else lookup k l'
  end.

(* config.Config (config.go:16-26): source (nil pointer when the key is absent),
   internaldata (nil when absent; else its transport string), shutdowntimeout, nodes *)
Record config := { c_src : option Z; c_idata : option Z; c_timeout : Z; c_nodes : list cfg }.

Definition ty_error : Z := 1.      (* reflect.TypeOf(&firebolt.EventError{}) (config.go:205) *)
Definition tr_kafka : Z := 1.      (* "kafka" (config.go:111) *)

(* ---------------- defaults (config.go:219-237) ---------------- *)
Definition id_of (a : attrs) : Z := match a_id a with Some i => i | None => a_name a end.

Definition dflt_attrs (a : attrs) : attrs :=
  {| a_name := a_name a;
     a_id := Some (id_of a);                                          (* :220-222 *)
     a_workers := if a_workers a =? 0 then 1 else a_workers a;        (* :223-225 *)
     a_bufsz := if a_bufsz a =? 0 then 1 else a_bufsz a;              (* :226-228 *)
     a_kidskey := a_kidskey a |}.

(* the handler (:230-232) and all children (:234-236), recursively *)
Fixpoint dflt (c : cfg) : cfg :=
  match c with
  | Cfg a kids h => Cfg (dflt_attrs a) (map dflt kids) (option_map dflt h)
  end.

(* ---------------- validation ---------------- *)
(* result of a validation step: nil error, an error, or a run-time panic *)
Inductive outcome := Ok | Rej | Pan.
Definition seq (a b : outcome) : outcome := match a with Ok => b | _ => a end.
Definition seq_all {A} (f : A -> outcome) : list A -> outcome :=
  fix go (l : list A) : outcome :=
    match l with
    | [] => Ok
    | x :: l' => seq (f x) (go l')
    end.

(* validateUniqueID (config.go:142-152).  [seen] is the shared map allIDs.
   The loop over the children RETURNS in its first iteration (:148-150): only the
   first child is ever visited.  [None] = duplicate found. *)
Fixpoint uniq_walk (seen : list Z) (c : cfg) : option (list Z) :=
  match c with
  | Cfg a kids _ =>
      if existsb (Z.eqb (id_of a)) seen then None
      else match kids with
           | [] => Some (id_of a :: seen)
           | k :: _ => uniq_walk (id_of a :: seen) k
           end
  end.

(* the loop of validate (config.go:75-81), one shared map for all roots *)
Fixpoint uniq_roots (seen : list Z) (roots : list cfg) : option (list Z) :=
  match roots with
  | [] => Some seen
  | r :: rs => match uniq_walk seen r with
               | None => None
               | Some seen' => uniq_roots seen' rs
               end
  end.

Definition v_unique (roots : list cfg) : outcome :=
  match uniq_roots [] roots with Some _ => Ok | None => Rej end.

(* validateInternalDataConfig (config.go:108-117) *)
Definition v_idata (t : option Z) : outcome :=
  match t with
  | None => Ok
  | Some t => if t =? tr_kafka then Ok else Rej
  end.

(* `if r.Produces != x.Consumes { return fmt.Errorf(..., r.Produces.String(), ..., x.Consumes.String()) }`
   (config.go:133-136, 168-171): comparing interface values; on a mismatch the message calls
   String() on both, which dereferences nil when either type is nil *)
Definition compat (p c : option Z) : outcome :=
  if opt_eqb Z.eqb p c then Ok
  else match p, c with Some _, Some _ => Rej | _, _ => Pan end.

(* the loop shared by validateSourceConfig (:127-137) and validateNodeConfig (:162-172):
   each child must be registered and consume what the parent produces *)
Fixpoint v_edges (reg : list (Z * reginfo)) (p : option Z) (kids : list cfg) : outcome :=
  match kids with
  | [] => Ok
  | k :: ks => match lookup (name_of k) reg with
               | None => Rej
               | Some cr => seq (compat p (r_cons cr)) (v_edges reg p ks)
               end
  end.

(* validateSourceConfig (config.go:119-140); c.Source == nil dereferences nil at :121 *)
Definition v_source (rg : regs) (src : option Z) (roots : list cfg) : outcome :=
  match src with
  | None => Pan
  | Some s => match lookup s (sreg rg) with
              | None => Rej
              | Some p => v_edges (nreg rg) p roots
              end
  end.

Definition nilb {A} (l : list A) : bool := match l with [] => true | _ => false end.
(* n.Children != nil *)
Definition has_kids_section (c : cfg) : bool := a_kidskey (attrs_of c) || negb (nilb (kids_of c)).

(* validateErrorHandlerConfig (config.go:192-210) *)
Definition v_handler (reg : list (Z * reginfo)) (h : cfg) : outcome :=
  if has_kids_section h then Rej                                   (* :193-195 *)
  else match handler_of h with
       | Some _ => Rej                                             (* :196-198 *)
       | None =>
           match lookup (name_of h) reg with
           | None => Rej                                           (* :199-202 *)
           | Some r =>
               if opt_eqb Z.eqb (r_cons r) (Some ty_error) then Ok
               else match r_cons r with                            (* :205-207, r.Consumes.String() *)
                    | None => Pan
                    | Some _ => Rej
                    end
           end
       end.

(* validateNodeConfig (config.go:154-190) *)
Fixpoint v_node (reg : list (Z * reginfo)) (c : cfg) : outcome :=
  match c with
  | Cfg a kids h =>
      match lookup (a_name a) reg with
      | None => Rej                                                (* :156-159 *)
      | Some r =>
          seq (v_edges reg (r_prod r) kids)                        (* :162-172 *)
              (seq (match h with None => Ok | Some x => v_handler reg x end)   (* :175-180 *)
                   (seq_all (v_node reg) kids))                    (* :183-188 *)
      end
  end.

(* validate (config.go:73-106): ids, internaldata, source, nodes; first failure wins *)
Definition validate (rg : regs) (c : config) : outcome :=
  seq (v_unique (c_nodes c))
      (seq (v_idata (c_idata c))
           (seq (v_source rg (c_src c) (c_nodes c))
                (seq_all (v_node (nreg rg)) (c_nodes c)))).

(* ---------------- Read (config.go:39-71) ---------------- *)
(* what happened before a Config value existed: the file parsed; yaml.Unmarshal returned an
   error (:51-55); or it produced a nil *node.Config entry (a null sequence item), on which
   assignNodeConfigDefaults dereferences nil (:220) *)
Inductive preparse := PreOk | PreYamlErr | PreNilNode.

Inductive result := Accept (c : config) | Reject | Panic.

Definition defaults (c : config) : config :=
  {| c_src := c_src c; c_idata := c_idata c; c_timeout := c_timeout c; c_nodes := map dflt (c_nodes c) |}.

Definition fix_timeout (c : config) : config :=
  {| c_src := c_src c; c_idata := c_idata c;
     c_timeout := if c_timeout c <=? 0 then 10 else c_timeout c;   (* :65-67 *)
     c_nodes := c_nodes c |}.

(* [c] is the configuration after ${VAR} substitution (os.ExpandEnv on the file text, :49) and parsing *)
Definition read (rg : regs) (pre : preparse) (c : config) : result :=
  match pre with
  | PreYamlErr => Reject
  | PreNilNode => Panic
  | PreOk =>
      let c1 := defaults c in                                      (* :57 *)
      match validate rg c1 with                                    (* :59-63 *)
      | Ok => Accept (fix_timeout c1)
      | Rej => Reject
      | Pan => Panic
      end
  end.

(* ================= the statement of C13, declaratively ================= *)
(* every node of the processing tree (error handlers are not part of it), parents before children *)
Fixpoint nodes_of (c : cfg) : list cfg :=
  match c with
  | Cfg a kids h => c :: flat_map nodes_of kids
  end.
Definition all_nodes (roots : list cfg) : list cfg := flat_map nodes_of roots.

(* ids after defaulting: the given id, else the type name *)
Definition eff_id (c : cfg) : Z := id_of (attrs_of c).
Definition all_ids (roots : list cfg) : list Z := map eff_id (all_nodes roots).

(* (1) node ids in the processing tree are unique *)
Definition unique (c : config) : Prop := NoDup (all_ids (c_nodes c)).

(* (2) the source and every node and error handler type is registered *)
Definition is_reg (rg : regs) (n : cfg) : Prop := lookup (name_of n) (nreg rg) <> None.
Definition registered (rg : regs) (c : config) : Prop :=
  (exists s, c_src c = Some s /\ lookup s (sreg rg) <> None)
  /\ Forall (fun n => is_reg rg n /\ match handler_of n with Some h => is_reg rg h | None => True end)
            (all_nodes (c_nodes c)).

(* (3) each node consumes the type its parent (or the source) produces *)
Definition consumes (rg : regs) (n : cfg) (t : option Z) : Prop :=
  forall r, lookup (name_of n) (nreg rg) = Some r -> r_cons r = t.
Definition typed (rg : regs) (c : config) : Prop :=
  (forall s p, c_src c = Some s -> lookup s (sreg rg) = Some p -> Forall (fun n => consumes rg n p) (c_nodes c))
  /\ Forall (fun n => forall r, lookup (name_of n) (nreg rg) = Some r ->
                      Forall (fun k => consumes rg k (r_prod r)) (kids_of n))
            (all_nodes (c_nodes c)).

(* (4) every error handler consumes error reports and has neither children nor a handler of its own
   (an explicit `children:` sequence under a handler counts as having children, even when empty) *)
Definition handler_ok (rg : regs) (h : cfg) : Prop :=
  has_kids_section h = false /\ handler_of h = None /\ consumes rg h (Some ty_error).
Definition handlers_ok (rg : regs) (c : config) : Prop :=
  Forall (fun n => match handler_of n with Some h => handler_ok rg h | None => True end) (all_nodes (c_nodes c)).

(* (5) any internaldata transport is kafka *)
Definition transport_ok (c : config) : Prop :=
  match c_idata c with None => True | Some t => t = tr_kafka end.

Definition others (rg : regs) (c : config) : Prop :=
  registered rg c /\ typed rg c /\ handlers_ok rg c /\ transport_ok c.
Definition consistent (rg : regs) (c : config) : Prop := unique c /\ others rg c.

(* what validateUniqueID really establishes: uniqueness along the first-child chain of every root *)
Fixpoint chain (c : cfg) : list Z :=
  match c with
  | Cfg a kids _ => id_of a :: match kids with [] => [] | k :: _ => chain k end
  end.
Definition chain_ids (roots : list cfg) : list Z := flat_map chain roots.
Definition unique' (c : config) : Prop := NoDup (chain_ids (c_nodes c)).
Definition consistent' (rg : regs) (c : config) : Prop := unique' c /\ others rg c.

Definition accepted (rg : regs) (c : config) : Prop := exists c', read rg PreOk c = Accept c'.

(* the defaults clause: [c'] is [c] with every node and handler's id, workers, buffersize filled in *)
Definition attrs_filled (a a' : attrs) : Prop :=
  a_name a' = a_name a
  /\ a_id a' = Some (match a_id a with Some i => i | None => a_name a end)
  /\ a_workers a' = (if a_workers a =? 0 then 1 else a_workers a)
  /\ a_bufsz a' = (if a_bufsz a =? 0 then 1 else a_bufsz a).
Fixpoint filled (c c' : cfg) {struct c} : Prop :=
  match c, c' with
  | Cfg a kids h, Cfg a' kids' h' =>
      attrs_filled a a'
      /\ (fix go (ks ks' : list cfg) {struct ks} : Prop :=
            match ks, ks' with
            | [], [] => True
            | k :: ks1, k' :: ks1' => filled k k' /\ go ks1 ks1'
            | _, _ => False
            end) kids kids'
      /\ match h, h' with
         | None, None => True
         | Some x, Some x' => filled x x'
         | _, _ => False
         end
  end.
Fixpoint filled_list (ks ks' : list cfg) : Prop :=
  match ks, ks' with
  | [], [] => True
  | k :: ks1, k' :: ks1' => filled k k' /\ filled_list ks1 ks1'
  | _, _ => False
  end.
