(* E1 — the statements of C01-C05, C16, C18 as a decision procedure on OBSERVABLE traces
   (events stamped by harness-owned sources and nodes, newest first) and on the counters read at
   the end.  [trace_ok] checks every event against its past; [terminal_ok] checks the end state
   of a clean run.  None of this calls the model of the code; Proofs/ExecProofs.v shows that
   every run of the model satisfies it.  Definitions only. *)
From Coq Require Import List ZArith Bool Arith.
From FB Require Import Model.Exec.
Import ListNotations.
Local Open Scope nat_scope.

Definition eqb_item := item_eqb.
Fixpoint count_item (x : item) (l : list item) : nat :=
  match l with [] => 0 | y :: r => (if item_eqb x y then 1 else 0) + count_item x r end.

(* ---- projections of a trace ---- *)
Definition entered (n : nat) (p : list tev) : list item :=
  flat_map (fun e => match e with TEnter m it => if m =? n then [it] else [] | _ => [] end) p.
Definition rets (n : nat) (p : list tev) : list item :=       (* inputs whose Process call has returned *)
  flat_map (fun e => match e with TRet m it _ => if m =? n then [it] else [] | _ => [] end) p.
Definition laters (n : nat) (p : list tev) : list item :=
  flat_map (fun e => match e with TRet m it OLater => if m =? n then [it] else [] | _ => [] end) p.
Definition cbacks (n : nat) (p : list tev) : list item :=
  flat_map (fun e => match e with TCb m it _ => if m =? n then [it] else [] | _ => [] end) p.
(* completed outcomes of node n: sync/fanout returns, inline async returns, callbacks *)
Definition outcomes (n : nat) (p : list tev) : list (item * outcome) :=
  flat_map (fun e => match e with
                     | TRet m it o => if m =? n then match o with OLater => [] | _ => [(it, o)] end else []
                     | TCb m it o => if m =? n then [(it, o)] else []
                     | _ => [] end) p.
Definition results (n : nat) (p : list tev) : list item :=
  flat_map (fun io => match snd io with ORes es => map (fun e => (e, 0%Z)) es | _ => [] end) (outcomes n p).
Definition failreps (n : nat) (p : list tev) : list item :=
  flat_map (fun io => match snd io with OFail err => [(fst (fst io), err)] | _ => [] end) (outcomes n p).
Definition emitted (p : list tev) : list item :=
  flat_map (fun e => match e with TEmit x => [(x, 0%Z)] | _ => [] end) p.

Definition has (P : tev -> bool) (p : list tev) : bool := existsb P p.
Definition is_setup n := has (fun e => match e with TSetup m => m =? n | _ => false end).
Definition shutb n := has (fun e => match e with TShutBegin m => m =? n | _ => false end).
Definition shute n := has (fun e => match e with TShutEnd m => m =? n | _ => false end).
Definition prepped k := has (fun e => match e with TPrep j => j =? k | _ => false end).
Definition started k := has (fun e => match e with TStart j => j =? k | _ => false end).
Definition ended k := has (fun e => match e with TEnd j _ => j =? k | _ => false end).
Definition ended_with k ok := has (fun e => match e with TEnd j b => (j =? k) && Bool.eqb b ok | _ => false end).
Definition any_start := has (fun e => match e with TStart _ => true | _ => false end).
Definition any_prep := has (fun e => match e with TPrep _ => true | _ => false end).
Definition any_nil_end := has (fun e => match e with TEnd _ true => true | _ => false end).
Definition any_prepfail := has (fun e => match e with TPrepFail _ => true | _ => false end).
Definition is_done := has (fun e => match e with TDone _ => true | _ => false end).
(* the newest source event decides whether an incarnation is inside Start() *)
Fixpoint src_running (p : list tev) : bool :=
  match p with
  | [] => false
  | TStart _ :: _ => true
  | TEnd _ _ :: _ => false
  | TPrep _ :: _ => false
  | TPrepFail _ :: _ => false
  | _ :: r => src_running r
  end.
Definition open_calls (n : nat) (p : list tev) : nat := length (entered n p) - length (rets n p).

(* where node n's input comes from *)
Inductive feeder := FSource | FResults (m : nat) | FFails (m : nat) | FNone.
Fixpoint find_parent (nt : net) (i : nat) (n : nat) : feeder :=
  match nt with
  | [] => FNone
  | x :: rest =>
      if existsb (Nat.eqb n) (nkids x) then FResults i
      else match nhandler x with
           | Some h => if h =? n then FFails i else find_parent rest (S i) n
           | None => find_parent rest (S i) n
           end
  end.
Definition feeder_of (nt : net) (n : nat) : feeder :=
  match nrole (info nt n) with RRoot => FSource | _ => find_parent nt 0 n end.
Definition supply (nt : net) (n : nat) (p : list tev) : list item :=
  match feeder_of nt n with
  | FSource => emitted p
  | FResults m => results m p
  | FFails m => failreps m p
  | FNone => []
  end.
Definition upstream_finished (nt : net) (n : nat) (p : list tev) : bool :=
  match feeder_of nt n with
  | FSource => any_nil_end p
  | FResults m | FFails m => shute m p
  | FNone => false
  end.

(* ---- every event against its past (clause numbers in comments) ---- *)
Definition ev_ok (nt : net) (e : tev) (p : list tev) : list (nat * nat) :=   (* (property, clause) that fail *)
  let chk (b : bool) (pc : nat * nat) := if b then [] else [pc] in
  match e with
  | TSetup n =>
      chk (n <? length nt) (1, 5)                             (* C01: only nodes of the pruned tree are set up *)
      ++ chk (negb (is_setup n p)) (5, 2)                     (* C05: set up exactly once *)
      ++ chk (negb (any_start p)) (5, 3)                      (* C05: before the source starts *)
  | TPrep k =>
      chk (negb (prepped k p)) (18, 1)
      ++ chk (match k with O => negb (any_prep p) | S j => ended_with j false p end) (18, 2)
      ++ chk (negb (any_prepfail p)) (18, 7)                  (* C18: nothing from the source after a failed Setup *)
  | TPrepFail k =>
      chk (negb (prepped k p)) (18, 1)
      ++ chk (match k with O => negb (any_prep p) | S j => ended_with j false p end) (18, 2)
      ++ chk (negb (any_prepfail p)) (18, 7)
  | TStart k =>
      chk (prepped k p && negb (started k p)) (18, 3)         (* C18: set up before started, never started twice *)
      ++ chk (match k with O => true | S j => ended_with j false p end) (18, 2)
      ++ chk (negb (any_nil_end p)) (18, 4)                   (* C18: nothing restarts after a nil return *)
      ++ chk (negb (any_prepfail p)) (18, 7)
  | TEnd k _ => chk (started k p && negb (ended k p)) (18, 5) ++ chk (negb (any_prepfail p)) (18, 7)
  | TEmit _ => chk (src_running p) (18, 6) ++ chk (negb (any_prepfail p)) (18, 7)
  | TEnter n it =>
      chk (is_setup n p) (5, 1)                               (* C05: set up before any event *)
      ++ chk (negb (shutb n p)) (3, 4)                        (* C03: no event after its Shutdown began *)
      ++ chk (open_calls n p <? nworkers (info nt n)) (5, 4)  (* C05: at most N calls in progress *)
      ++ chk (count_item it (entered n p) <? count_item it (supply nt n p))
             (match feeder_of nt n with FFails _ => (2, 1) | _ => (1, 1) end)   (* C01/C02: nothing invented or duplicated *)
  | TRet n it o =>
      chk (count_item it (rets n p) <? count_item it (entered n p)) (1, 6)      (* harness sanity *)
  | TCb n it o =>
      chk (count_item it (cbacks n p) <? count_item it (laters n p)) (1, 6)
  | TShutBegin n =>
      chk (negb (shutb n p)) (3, 1)                           (* C03: Shutdown once *)
      ++ chk (open_calls n p =? 0) (3, 2)                     (* C03: after all its processing calls returned *)
      ++ chk (upstream_finished nt n p) (3, 3)                (* C03: feeder's Shutdown has returned / source finished *)
  | TShutEnd n => chk (shutb n p && negb (shute n p)) (3, 1)
  | TDone clean =>
      chk (negb (is_done p)) (3, 5)
      ++ (if clean then chk (forallb (fun n => shute n p) (seq 0 (length nt))) (3, 6) else [])  (* C03: everything shut down *)
  end.

Fixpoint trace_ok (nt : net) (p : list tev) : list (nat * nat) :=
  match p with
  | [] => []
  | e :: r => ev_ok nt e r ++ trace_ok nt r
  end.

(* ---- end of a clean run ---- *)
Fixpoint sub_multiset (a b : list item) : bool :=     (* a is a sub-multiset of b *)
  match a with
  | [] => true
  | x :: r => match remove_one x b with Some b' => sub_multiset r b' | None => false end
  end.
Definition same_multiset (a b : list item) : bool := (length a =? length b) && sub_multiset a b.

Record counters := { k_recv : nat; k_proc : nat; k_filt : nat; k_fail : nat; k_disc : nat }.

Definition n_proc (n : nat) (p : list tev) : nat :=
  length (filter (fun io => match snd io with ORes (_ :: _) => true | _ => false end) (outcomes n p)).
Definition n_filt (n : nat) (p : list tev) : nat :=
  length (filter (fun io => match snd io with ORes [] => true | _ => false end) (outcomes n p)).
Definition n_fail (n : nat) (p : list tev) : nat :=
  length (filter (fun io => match snd io with OFail _ => true | _ => false end) (outcomes n p)).

(* node n at the end of a clean run; ks = its counters *)
Definition node_terminal (nt : net) (p : list tev) (n : nat) (ks : counters) : list (nat * nat) :=
  let chk (b : bool) (pc : nat * nat) := if b then [] else [pc] in
  let inp := entered n p in
  let sup := supply nt n p in
  let handler := match feeder_of nt n with FFails _ => true | _ => false end in
  (if ndisc (info nt n)
   then chk (sub_multiset inp sup) (if handler then (2, 2) else (1, 2))
        ++ chk (length inp + k_disc ks =? length sup) (4, 2)          (* C04: every loss is counted *)
   else chk (same_multiset inp sup) (if handler then (2, 2) else (1, 2))   (* C01/C02/C04: offered exactly once, nothing lost *)
        ++ chk (k_disc ks =? 0) (4, 1))                                (* C04: no discard without the flag *)
  ++ chk (same_multiset (rets n p) inp) (3, 7)                         (* C03: everything handed to it was processed *)
  ++ chk (same_multiset (cbacks n p) (laters n p)) (3, 7)
  ++ chk (k_recv ks =? length inp) (16, 1)
  ++ chk (k_proc ks =? n_proc n p) (16, 2)
  ++ chk (k_filt ks =? n_filt n p) (16, 3)
  ++ chk (k_fail ks =? n_fail n p) (16, 4)
  ++ chk (k_recv ks =? k_proc ks + k_filt ks + k_fail ks) (16, 5).

Fixpoint terminal_from (nt : net) (p : list tev) (i : nat) (ks : list counters) : list (nat * nat) :=
  match ks with
  | [] => []
  | k :: r => node_terminal nt p i k ++ terminal_from nt p (S i) r
  end.
Definition terminal_ok (nt : net) (p : list tev) (ks : list counters) : list (nat * nat) :=
  (if length ks =? length nt then [] else [(16, 6)]) ++ terminal_from nt p 0 ks.

Definition counters_of (x : nstate) : counters :=
  {| k_recv := c_recv x; k_proc := c_proc x; k_filt := c_filt x; k_fail := c_fail x; k_disc := c_disc x |}.
