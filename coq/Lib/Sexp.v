(* Universal exchange format between the Go harness and the Gallina models:
   a tree whose leaves are integers.  Everything that crosses the Go / OCaml
   boundary is one such tree per line; decoding a tree into typed model input
   and encoding model output is done by Gallina functions below and in the
   Judge files, so the hand-written OCaml glue only reads and prints trees. *)
From Coq Require Import List ZArith Bool.
Import ListNotations.
Open Scope Z_scope.

Inductive tree := L (z : Z) | T (ts : list tree).

(* --- decoders: total, [None] on shape mismatch (reported as malformed) --- *)
Definition getZ (t : tree) : option Z := match t with L z => Some z | T _ => None end.
Definition getT (t : tree) : option (list tree) := match t with T ts => Some ts | L _ => None end.
Definition getB (t : tree) : option bool :=
  match t with L 0 => Some false | L 1 => Some true | _ => None end.
Definition getNat (t : tree) : option nat :=
  match t with L z => if z <? 0 then None else Some (Z.to_nat z) | T _ => None end.
Definition getN (t : tree) : option N :=
  match t with L z => if z <? 0 then None else Some (Z.to_N z) | T _ => None end.

Fixpoint mapM {A B} (f : A -> option B) (l : list A) : option (list B) :=
  match l with
  | [] => Some []
  | x :: xs => match f x, mapM f xs with Some y, Some ys => Some (y :: ys) | _, _ => None end
  end.

Definition getZs (t : tree) : option (list Z) :=
  match t with T ts => mapM getZ ts | L _ => None end.
Definition getList {A} (f : tree -> option A) (t : tree) : option (list A) :=
  match t with T ts => mapM f ts | L _ => None end.

Definition bind {A B} (o : option A) (f : A -> option B) : option B :=
  match o with Some x => f x | None => None end.
Notation "x <- e ;; k" := (bind e (fun x => k)) (at level 61, e at next level, right associativity).

(* --- encoders --- *)
Definition ofB (b : bool) : tree := L (if b then 1 else 0).
Definition ofNat (n : nat) : tree := L (Z.of_nat n).
Definition ofN (n : N) : tree := L (Z.of_N n).
Definition ofZs (l : list Z) : tree := T (map L l).
Definition ofList {A} (f : A -> tree) (l : list A) : tree := T (map f l).
Definition ofOpt {A} (f : A -> tree) (o : option A) : tree :=
  match o with None => T [] | Some x => T [f x] end.
Definition getOpt {A} (f : tree -> option A) (t : tree) : option (option A) :=
  match t with T [] => Some None | T [x] => match f x with Some y => Some (Some y) | None => None end | _ => None end.

(* --- structural equality on trees (the comparison the judges use) --- *)
Fixpoint tree_eqb (a b : tree) {struct a} : bool :=
  match a, b with
  | L x, L y => x =? y
  | T xs, T ys =>
      (fix go (xs ys : list tree) {struct xs} : bool :=
         match xs, ys with
         | [], [] => true
         | x :: xs', y :: ys' => tree_eqb x y && go xs' ys'
         | _, _ => false
         end) xs ys
  | _, _ => false
  end.

(* Verdict tree every judge returns:
     T [ L status ; T failed_clauses ; model_obs ; T tags ; T diffs ]
   status: 1 = model and implementation agree on all compared observables,
           0 = they differ, 2 = malformed case (harness error, never agreement).
   diffs: numbers of the observable components on which they differ (each
     engine documents its components; a property's check looks only at the
     components its theorems speak about).
   failed_clauses: list of T [L property_number; L clause_number; detail...]
   — clauses of the property's statement evaluated on the IMPLEMENTATION's
   observation.  tags: branch tags of the model hit by this case (for the
   distribution / non-triviality statistics in the evidence). *)
Definition verdict (diffs : list Z) (failed : list tree) (model_obs : tree) (tags : list Z) : tree :=
  T [ L (match diffs with [] => 1 | _ => 0 end); T failed; model_obs; T (map L tags); T (map L diffs) ].
Definition malformed : tree := T [ L 2; T []; T []; T []; T [] ].
Definition clause (prop cl : Z) (detail : list tree) : tree := T (L prop :: L cl :: detail).
Definition diff_if (b : bool) (component : Z) : list Z := if b then [] else [component].
