(* helpers of engine E7 (sinks): equality on byte strings and trees with reflexivity / soundness *)
From Coq Require Import List ZArith Bool Lia.
From FB Require Import Lib.Sexp Lib.Eqb.
Import ListNotations.
Open Scope Z_scope.

Definition bytes_eqb : list Z -> list Z -> bool := list_eqb Z.eqb.
Lemma bytes_eqb_refl b : bytes_eqb b b = true.
Proof. apply list_eqb_refl, Z.eqb_refl. Qed.
Lemma bytes_eqb_eq a b : bytes_eqb a b = true -> a = b.
Proof. apply list_eqb_eq. intros x y; apply Z.eqb_eq. Qed.

Definition is_empty_list {A} (l : list A) : bool := match l with [] => true | _ => false end.

(* induction principle for the nested tree type *)
Section TreeInd.
  Variable P : tree -> Prop.
  Hypothesis HL : forall z, P (L z).
  Hypothesis HT : forall ts, Forall P ts -> P (T ts).
  Fixpoint tree_ind' (t : tree) : P t :=
    match t with
    | L z => HL z
    | T ts => HT ts ((fix go (l : list tree) : Forall P l :=
                        match l with
                        | [] => Forall_nil P
                        | x :: l' => Forall_cons x (tree_ind' x) (go l')
                        end) ts)
    end.
End TreeInd.

Lemma tree_eqb_refl t : tree_eqb t t = true.
Proof.
  induction t as [z|ts IH] using tree_ind'; simpl.
  - apply Z.eqb_refl.
  - induction IH as [|x l Hx Hl IHl]; [reflexivity|]. now rewrite Hx, IHl.
Qed.

Lemma tree_eqb_eq a : forall b, tree_eqb a b = true -> a = b.
Proof.
  induction a as [z|ts IH] using tree_ind'; intros [y|ys]; simpl; try discriminate.
  - intros E; apply Z.eqb_eq in E; now subst.
  - intros E. f_equal. revert ys E.
    induction IH as [|x l Hx Hl IHl]; intros [|y ys]; try discriminate; [reflexivity|].
    intros E. apply andb_true_iff in E as [E1 E2]. f_equal; [now apply Hx | now apply IHl].
Qed.
