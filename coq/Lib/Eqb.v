(* boolean equalities used by judges and specs, with reflexivity / soundness lemmas *)
From Coq Require Import List ZArith Bool Lia.
Import ListNotations.
Open Scope Z_scope.

Fixpoint list_eqb {A} (eqb : A -> A -> bool) (a b : list A) : bool :=
  match a, b with
  | [], [] => true
  | x :: a', y :: b' => eqb x y && list_eqb eqb a' b'
  | _, _ => false
  end.

Definition opt_eqb {A} (eqb : A -> A -> bool) (a b : option A) : bool :=
  match a, b with
  | None, None => true
  | Some x, Some y => eqb x y
  | _, _ => false
  end.

Definition pair_eqb {A B} (ea : A -> A -> bool) (eb : B -> B -> bool) (a b : A * B) : bool :=
  ea (fst a) (fst b) && eb (snd a) (snd b).

Definition zz_eqb : Z * Z -> Z * Z -> bool := pair_eqb Z.eqb Z.eqb.

Lemma list_eqb_refl {A} (eqb : A -> A -> bool) :
  (forall x, eqb x x = true) -> forall l, list_eqb eqb l l = true.
Proof. intros H l; induction l as [|x l IH]; simpl; [reflexivity|]. now rewrite H, IH. Qed.

Lemma list_eqb_eq {A} (eqb : A -> A -> bool) :
  (forall x y, eqb x y = true -> x = y) -> forall a b, list_eqb eqb a b = true -> a = b.
Proof.
  intros H a; induction a as [|x a IH]; intros [|y b]; simpl; try discriminate; [reflexivity|].
  intros E. apply andb_true_iff in E as [E1 E2]. f_equal; [now apply H | now apply IH].
Qed.

Lemma opt_eqb_refl {A} (eqb : A -> A -> bool) :
  (forall x, eqb x x = true) -> forall o, opt_eqb eqb o o = true.
Proof. intros H [x|]; simpl; auto. Qed.

Lemma opt_eqb_eq {A} (eqb : A -> A -> bool) :
  (forall x y, eqb x y = true -> x = y) -> forall a b, opt_eqb eqb a b = true -> a = b.
Proof. intros H [x|] [y|]; simpl; try discriminate; auto. intros E; f_equal; auto. Qed.

Lemma pair_eqb_refl {A B} (ea : A -> A -> bool) (eb : B -> B -> bool) :
  (forall x, ea x x = true) -> (forall x, eb x x = true) -> forall p, pair_eqb ea eb p p = true.
Proof. intros Ha Hb [a b]; unfold pair_eqb; simpl. now rewrite Ha, Hb. Qed.

Lemma pair_eqb_eq {A B} (ea : A -> A -> bool) (eb : B -> B -> bool) :
  (forall x y, ea x y = true -> x = y) -> (forall x y, eb x y = true -> x = y) ->
  forall p q, pair_eqb ea eb p q = true -> p = q.
Proof.
  intros Ha Hb [a b] [c d]; unfold pair_eqb; simpl; intros E.
  apply andb_true_iff in E as [E1 E2]. f_equal; auto.
Qed.

Lemma zz_eqb_refl p : zz_eqb p p = true.
Proof. apply pair_eqb_refl; apply Z.eqb_refl. Qed.
Lemma zz_eqb_eq p q : zz_eqb p q = true -> p = q.
Proof. apply pair_eqb_eq; intros x y; apply Z.eqb_eq. Qed.

Fixpoint nodupb (l : list Z) : bool :=
  match l with
  | [] => true
  | x :: l' => negb (existsb (Z.eqb x) l') && nodupb l'
  end.

Lemma existsb_Zeqb_In x l : existsb (Z.eqb x) l = true <-> In x l.
Proof.
  rewrite existsb_exists; split.
  - intros [y [Hy E]]. apply Z.eqb_eq in E; now subst.
  - intros H; exists x; split; [assumption|apply Z.eqb_refl].
Qed.

Lemma nodupb_NoDup l : nodupb l = true <-> NoDup l.
Proof.
  induction l as [|x l IH]; simpl.
  - split; [constructor|reflexivity].
  - rewrite andb_true_iff, negb_true_iff, IH. split.
    + intros [H1 H2]; constructor; [|assumption].
      intros Hin. apply existsb_Zeqb_In in Hin. congruence.
    + intros H; inversion H as [|? ? Hn Hd]; subst; split; [|assumption].
      destruct (existsb (Z.eqb x) l) eqn:E; [|reflexivity].
      apply existsb_Zeqb_In in E; contradiction.
Qed.
